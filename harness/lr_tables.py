"""Fail-closed translator between /repo's LR(1) machinery and the first-order table
format of coq/theories/LR (see LR/Exec.v for the line format), plus the Python
side of the C08/C09 correspondence (encoding of Parser.parse results, search
helpers, an independent Earley recogniser).

Nothing here is copied from the source by hand: every call re-reads the objects
that the working tree's modules build (lr1.Parser instances, module_ir.PRODUCTIONS,
doc/grammar.md text).  Any shape that is not understood raises TranslationError.
"""
import collections
import os
import shutil
import traceback

from harness import fw


class TranslationError(Exception):
    pass


def _need(cond, msg):
    if not cond:
        raise TranslationError(msg)


# ----------------------------------------------------------------------------
# interning
# ----------------------------------------------------------------------------

class Interner:
    """symbols / error codes / productions -> numbers (shared by all tables of a run)."""

    def __init__(self):
        self.sym = {}
        self.sym_names = []
        self.code = {None: 0}
        self.code_vals = [None]
        self.prod = {}
        self.prod_vals = []
        self.prod_emitted = 0

    def s(self, x):
        _need(isinstance(x, str) and x != "", "symbol %r is not a non-empty str" % (x,))
        n = self.sym.get(x)
        if n is None:
            n = len(self.sym_names)
            self.sym[x] = n
            self.sym_names.append(x)
        return n

    def c(self, x):
        _need(x is None or isinstance(x, str), "error code %r is neither None nor str" % (x,))
        n = self.code.get(x)
        if n is None:
            n = len(self.code_vals)
            self.code[x] = n
            self.code_vals.append(x)
        return n

    def p(self, prod):
        from compiler.util import parser_types
        _need(isinstance(prod, parser_types.Production), "%r is not a Production" % (prod,))
        _need(isinstance(prod.rhs, tuple), "rhs of %r is not a tuple" % (prod,))
        key = (prod.lhs, tuple(prod.rhs))
        n = self.prod.get(key)
        if n is None:
            self.s(prod.lhs)
            for x in prod.rhs:
                self.s(x)
            n = len(self.prod_vals)
            self.prod[key] = n
            self.prod_vals.append(key)
        return n

    def pending_production_lines(self):
        out = []
        while self.prod_emitted < len(self.prod_vals):
            lhs, rhs = self.prod_vals[self.prod_emitted]
            out.append([2, self.prod_emitted, self.sym[lhs]] + [self.sym[x] for x in rhs])
            self.prod_emitted += 1
        return out


# ----------------------------------------------------------------------------
# a neutral copy of a lr1.Parser's tables
# ----------------------------------------------------------------------------

class Tab:
    """action: {state: [(sym, kind, arg)] sorted by sym}; goto: {state: [(sym, target)]};
    derr: {state: code}; dflt: bool; prods: [prod idx]; known: {state: tuple(sym)}"""

    def __init__(self):
        self.action, self.goto, self.derr, self.dflt, self.prods = {}, {}, {}, False, []
        self.known = {}
        self.nconflicts = 0


def _state(x):
    _need(isinstance(x, int) and not isinstance(x, bool) and x >= 0, "state %r is not a natural number" % (x,))
    return x


def translate_parser(parser, I):
    """lr1.Parser -> Tab (fail closed)."""
    from compiler.front_end import lr1
    _need(isinstance(parser, lr1.Parser), "not a lr1.Parser: %r" % type(parser))
    t = Tab()
    _need(isinstance(parser.action, dict), "Parser.action is %r" % type(parser.action))
    _need(isinstance(parser.goto, dict), "Parser.goto is %r" % type(parser.goto))
    _need(isinstance(parser.default_errors, dict), "Parser.default_errors is %r" % type(parser.default_errors))
    t.dflt = isinstance(parser.action, collections.defaultdict)
    if t.dflt:
        _need(parser.action.default_factory is dict, "unexpected default_factory of Parser.action")
    for st, row in parser.action.items():
        _state(st)
        _need(isinstance(row, dict), "action row %r is %r" % (st, type(row)))
        out = []
        for sym, a in row.items():
            k = I.s(sym)
            if isinstance(a, lr1.Shift):
                out.append((k, 0, _state(a.state)))
            elif isinstance(a, lr1.Reduce):
                out.append((k, 1, I.p(a.rule)))
            elif isinstance(a, lr1.Accept):
                out.append((k, 2, 0))
            elif isinstance(a, lr1.Error):
                out.append((k, 3, I.c(a.code)))
            else:
                raise TranslationError("action[%r][%r] = %r is no Shift/Reduce/Accept/Error" % (st, sym, a))
        out.sort()
        t.action[st] = out
    for st, row in parser.goto.items():
        _state(st)
        _need(isinstance(row, dict), "goto row %r is %r" % (st, type(row)))
        out = [(I.s(sym), _state(tg)) for sym, tg in row.items()]
        out.sort()
        t.goto[st] = out
    for st, code in parser.default_errors.items():
        t.derr[_state(st)] = I.c(code)
    _need(isinstance(parser.productions, (set, frozenset, list, tuple)), "Parser.productions is %r" % type(parser.productions))
    t.prods = sorted(set(I.p(p) for p in parser.productions))
    _need(isinstance(parser.conflicts, (set, frozenset)), "Parser.conflicts is %r" % type(parser.conflicts))
    t.nconflicts = len(parser.conflicts)
    t.known = known_suffix(t, I)
    return t


def known_suffix(t, I):
    """Greatest consistent 'known suffix' annotation (top of stack first), computed from the
    tables alone: known[0] = (), known[target] = X + (longest common prefix over all incoming
    transitions of the sources' annotations), truncated to the longest right-hand side.
    Untrusted: LR/Sound.v re-checks it."""
    maxlen = 1
    for row in t.action.values():
        for (_, kind, arg) in row:
            if kind == 1:
                maxlen = max(maxlen, len(I.prod_vals[arg][1]))
    trans = collections.defaultdict(list)
    for st, row in t.action.items():
        for (sym, kind, arg) in row:
            if kind == 0:
                trans[st].append((sym, arg))
    for st, row in t.goto.items():
        for (sym, tg) in row:
            trans[st].append((sym, tg))
    known = {0: ()}
    work = collections.deque([0])
    queued = {0}
    while work:
        s = work.popleft()
        queued.discard(s)
        ks = known[s]
        for (X, tg) in trans.get(s, ()):
            cand = ((X,) + ks)[:maxlen]
            old = known.get(tg)
            if old is None:
                new = cand
            else:
                n = 0
                while n < len(old) and n < len(cand) and old[n] == cand[n]:
                    n += 1
                new = old[:n]
            if new != old:
                known[tg] = new
                if tg not in queued:
                    queued.add(tg)
                    work.append(tg)
    return known


def item_cert_lines(parser, productions, start, I):
    """LR(1) item sets of a freshly generated parser as [20; state; pcode; dot; look-aheads] lines;
    pcode = 1 + position of the production in `productions` (0 = the seed S' -> start).
    Untrusted certificate for LR/Complete.check_complete."""
    from compiler.front_end import lr1
    _need(parser.item_sets is not None, "parser has no item sets")
    pos = {}
    for k, p in enumerate(productions):
        pos.setdefault((p.lhs, tuple(p.rhs)), k)
    lines = []
    for st, items in enumerate(parser.item_sets):
        cores = collections.defaultdict(set)
        for it in items:
            _need(isinstance(it, lr1.Item), "item set %d contains %r" % (st, it))
            key = (it.production.lhs, tuple(it.production.rhs))
            if key == (lr1.START_PRIME, (start,)):
                pcode = 0
            else:
                _need(key in pos, "item production %r is not in the grammar" % (key,))
                pcode = pos[key] + 1
            cores[(pcode, it.dot)].add(I.s(it.terminal))
        for (pcode, dot), las in sorted(cores.items()):
            lines.append([20, st, pcode, dot] + sorted(las))
    return lines


def first_cert_lines(productions, I):
    """nullable / FIRST of every nonterminal, recomputed here (untrusted certificate) as
    [21; X; nullable; terminals...] lines."""
    nts = set(p.lhs for p in productions)
    nullable, first = set(), {x: set() for x in nts}
    changed = True
    while changed:
        changed = False
        for p in productions:
            allnull = True
            for x in p.rhs:
                add = first[x] if x in nts else {x}
                if not add <= first[p.lhs]:
                    first[p.lhs] |= add
                    changed = True
                if not (x in nts and x in nullable):
                    allnull = False
                    break
            if allnull and p.lhs not in nullable:
                nullable.add(p.lhs)
                changed = True
    return [[21, I.s(x), 1 if x in nullable else 0] + sorted(I.s(t) for t in first[x]) for x in sorted(nts)]


def rank_cert_lines(productions, I):
    """productivity certificate for LR/Early.check_productive: [23; X; rank] where a nonterminal gets
    rank k in round k if one of its productions has only terminals and nonterminals of earlier
    rounds.  Unproductive nonterminals get no line (check_productive is then false).  Untrusted."""
    nts = set(p.lhs for p in productions)
    rank = {}
    k = 0
    while True:
        k += 1
        new = [p.lhs for p in productions
               if p.lhs not in rank and all((x not in nts) or (x in rank) for x in p.rhs)]
        if not new:
            break
        for x in new:
            rank.setdefault(x, k)
    return [[23, I.s(x), rank[x]] for x in sorted(rank)], sorted(nts - set(rank))


def table_lines(t, slot, I, eoi, item_lines=()):
    """Lines (lists of ints) that define table `t` in `slot`."""
    body = [[1, slot, eoi, 1 if t.dflt else 0]]
    body.extend(item_lines)
    for st in sorted(t.action):
        l = [3, st]
        for e in t.action[st]:
            l.extend(e)
        body.append(l)
    for st in sorted(t.goto):
        l = [4, st]
        for e in t.goto[st]:
            l.extend(e)
        body.append(l)
    for st in sorted(t.derr):
        body.append([5, st, t.derr[st]])
    body.append([6] + list(t.prods))
    for st in sorted(t.known):
        body.append([7, st] + list(t.known[st]))
    body.append([8])
    return I.pending_production_lines() + body


def grammar_lines(gslot, start, productions, I):
    idx = [I.p(p) for p in productions]
    s = I.s(start)
    return I.pending_production_lines() + [[9, gslot, s] + idx]


# ----------------------------------------------------------------------------
# relation between two tables (Python side exploration; Coq re-checks it)
# ----------------------------------------------------------------------------

def _kinds(e):
    return ("Shift", "Reduce", "Accept", "Error")[e[1]]


def explore_pairs(ta, tb, limit=2000000):
    """BFS over pairs of states from (0,0) following equal symbols.  Returns
    (rel: {a: [b]}, diffs: [dict], parent: {(a,b): ((a0,b0), sym)}).  A diff is a place
    where the two tables observably disagree at a reachable pair."""
    rel = collections.defaultdict(list)
    parent = {(0, 0): None}
    order = [(0, 0)]
    diffs = []
    i = 0
    while i < len(order):
        a, b = order[i]
        i += 1
        rel[a].append(b)
        ra, rb = ta.action.get(a), tb.action.get(b)
        if (ra is None) != (rb is None):
            diffs.append(dict(pair=(a, b), what="action row present in one table only"))
        elif ra is None and ta.dflt != tb.dflt:
            diffs.append(dict(pair=(a, b), what="no action row; dict vs defaultdict"))
        da, db = dict((e[0], e) for e in (ra or [])), dict((e[0], e) for e in (rb or []))
        for sym in sorted(set(da) | set(db)):
            ea, eb = da.get(sym), db.get(sym)
            if ea is None or eb is None:
                diffs.append(dict(pair=(a, b), sym=sym, what="action entry only in %s table: %s" % (
                    "first" if eb is None else "second", _kinds(ea or eb)), a=ea, b=eb))
                continue
            if ea[1] != eb[1]:
                diffs.append(dict(pair=(a, b), sym=sym, what="action kinds differ: %s vs %s" % (_kinds(ea), _kinds(eb)), a=ea, b=eb))
                continue
            if ea[1] == 0:
                nxt = (ea[2], eb[2])
                if nxt not in parent:
                    parent[nxt] = ((a, b), sym)
                    order.append(nxt)
                if ea[2] != eb[2]:
                    diffs.append(dict(pair=(a, b), sym=sym, what="shift targets differ: %d vs %d" % (ea[2], eb[2]), a=ea, b=eb,
                                      soft=True))
            elif ea[2] != eb[2]:
                diffs.append(dict(pair=(a, b), sym=sym, what="%s arguments differ" % _kinds(ea), a=ea, b=eb))
        if ta.derr.get(a, 0) != tb.derr.get(b, 0):
            diffs.append(dict(pair=(a, b), what="default errors differ", a=ta.derr.get(a, 0), b=tb.derr.get(b, 0)))
        ga, gb = dict(ta.goto.get(a, [])), dict(tb.goto.get(b, []))
        for sym in sorted(set(ga) | set(gb)):
            if sym not in ga or sym not in gb:
                diffs.append(dict(pair=(a, b), sym=sym, what="goto entry only in %s table" % ("first" if sym in ga else "second"),
                                  goto=True))
                continue
            nxt = (ga[sym], gb[sym])
            if nxt not in parent:
                parent[nxt] = ((a, b), sym)
                order.append(nxt)
            if ga[sym] != gb[sym]:
                diffs.append(dict(pair=(a, b), sym=sym, what="goto targets differ: %d vs %d" % nxt, goto=True, soft=True))
        if len(order) > limit:
            raise TranslationError("pair exploration exceeded %d pairs" % limit)
    return rel, diffs, parent


def path_to(parent, pair):
    """symbols (numbers) on the BFS path from (0,0) to `pair`."""
    syms = []
    while parent.get(pair) is not None:
        pair, sym = parent[pair]
        syms.append(sym)
    return syms[::-1]


def relation_lines(rel):
    return [[11, a] + sorted(bs) for a, bs in sorted(rel.items())]


# ----------------------------------------------------------------------------
# grammars
# ----------------------------------------------------------------------------

def min_yields(productions):
    """nonterminal -> shortest terminal string it derives (tuple of symbols), by fixpoint;
    unproductive nonterminals are absent."""
    nts = set(p.lhs for p in productions)
    best = {}
    changed = True
    while changed:
        changed = False
        for p in productions:
            out = []
            ok = True
            for x in p.rhs:
                if x in nts:
                    if x not in best:
                        ok = False
                        break
                    out.extend(best[x])
                else:
                    out.append(x)
            if ok and (p.lhs not in best or len(out) < len(best[p.lhs])):
                best[p.lhs] = tuple(out)
                changed = True
    return best


def expand_path(symbols, productions):
    """replace nonterminals on a symbol path by their shortest yields; None if impossible."""
    nts = set(p.lhs for p in productions)
    my = min_yields(productions)
    out = []
    for x in symbols:
        if x in nts:
            if x not in my:
                return None
            out.extend(my[x])
        else:
            out.append(x)
    return out


def random_sentence(rng, productions, start, budget):
    """A random sentence of the grammar (list of terminal symbols) of roughly `budget` tokens."""
    by_lhs = collections.defaultdict(list)
    for p in productions:
        by_lhs[p.lhs].append(p)
    my = min_yields(productions)
    if start not in my:
        return None
    cost = {p: sum(len(my[x]) if x in by_lhs else 1 for x in p.rhs) for p in productions
            if all((x not in by_lhs) or (x in my) for x in p.rhs)}
    out = []
    # explicit stack of (symbol, budget)
    stack = [(start, budget)]
    steps = 0
    while stack:
        x, b = stack.pop()
        steps += 1
        if x not in by_lhs:
            out.append(x)
            continue
        cands = [p for p in by_lhs[x] if p in cost]
        if b <= len(my[x]) or steps > 40 * budget + 200:
            m = min(cost[p] for p in cands)
            p = rng.choice([p for p in cands if cost[p] == m])
        else:
            fit = [p for p in cands if cost[p] <= b]
            m = min(cost[p] for p in cands)
            big = [p for p in fit if cost[p] > m]
            if big and rng.random() < 0.85:
                p = rng.choice(big)
            else:
                p = rng.choice(fit or cands)
        n = max(1, len(p.rhs))
        spare = max(0, b - cost[p])
        # distribute the spare budget randomly over the children
        cuts = sorted(rng.randint(0, spare) for _ in range(n - 1))
        shares = [hi - lo for lo, hi in zip([0] + cuts, cuts + [spare])]
        kids = []
        for k, y in enumerate(p.rhs):
            base = len(my[y]) if y in by_lhs else 1
            kids.append((y, base + shares[k]))
        stack.extend(reversed(kids))
    return out


def mutate_tokens(rng, toks, alphabet, extra_symbols=()):
    """one token-level mutation; returns (kind, new list)"""
    toks = list(toks)
    kinds = ["delete", "insert", "replace", "swap", "truncate", "duplicate", "alien"]
    if not toks:
        kinds = ["insert", "alien"]
    k = rng.choice(kinds)
    if k == "delete":
        del toks[rng.randrange(len(toks))]
    elif k == "insert":
        toks.insert(rng.randint(0, len(toks)), rng.choice(alphabet))
    elif k == "replace":
        toks[rng.randrange(len(toks))] = rng.choice(alphabet)
    elif k == "swap":
        if len(toks) >= 2:
            i = rng.randrange(len(toks) - 1)
            toks[i], toks[i + 1] = toks[i + 1], toks[i]
    elif k == "truncate":
        toks = toks[:rng.randrange(len(toks))]
    elif k == "duplicate":
        i = rng.randrange(len(toks))
        toks.insert(i, toks[i])
    else:
        toks.insert(rng.randint(0, len(toks)), rng.choice(list(extra_symbols) or alphabet))
    return k, toks


def doc_productions(text):
    """Parse the two ```shell production listings of doc/grammar.md (format of
    generate_grammar_md._format_productions) into Productions; fail closed."""
    from compiler.util import parser_types
    lines = text.split("\n")
    blocks, cur = [], None
    for ln in lines:
        if ln.startswith("```"):
            if cur is None:
                _need(ln.strip() == "```shell", "unexpected fence %r in grammar.md" % ln)
                cur = []
            else:
                _need(ln.strip() == "```", "unexpected closing fence %r" % ln)
                blocks.append(cur)
                cur = None
        elif cur is not None:
            cur.append(ln)
    _need(cur is None, "unterminated code block in grammar.md")
    _need(len(blocks) == 2, "expected 2 production listings in grammar.md, found %d" % len(blocks))
    prods = []
    for block in blocks:
        _need(block, "empty production listing")
        first = block[0]
        pos = first.find(" -> ")
        _need(pos > 0 and not first.startswith(" "), "first listing line %r has no 'lhs ->'" % first)
        # leader = lhs padded to `width`, a space, a 2-character delimiter; then a space and the rhs words
        width = first.index(" -> ")
        lhs, rhs, open_ = None, None, False
        for ln in block:
            _need(len(ln) >= width + 3, "listing line %r shorter than the leader" % ln)
            head, delim, rest = ln[:width], ln[width:width + 3], ln[width + 3:]
            if head.strip():
                _need(delim == " ->", "line %r: expected '->' after the lhs" % ln)
                _need(" " not in head.strip(), "lhs %r contains a space" % head)
                if open_:
                    prods.append(parser_types.Production(lhs, tuple(rhs)))
                lhs, rhs, open_ = head.strip(), [], True
            elif delim == "  |":
                _need(open_, "alternative before any lhs: %r" % ln)
                prods.append(parser_types.Production(lhs, tuple(rhs)))
                rhs = []
            else:
                _need(delim == "   " and open_, "unexpected continuation line %r" % ln)
            _need(rest.startswith(" ") and rest.strip(), "line %r: missing right-hand side" % ln)
            words = rest.split()
            if words == ["<empty>"]:
                _need(rhs == [], "<empty> inside a right-hand side: %r" % ln)
            else:
                _need("<empty>" not in words, "<empty> mixed with symbols: %r" % ln)
                rhs.extend(words)
        if open_:
            prods.append(parser_types.Production(lhs, tuple(rhs)))
    return prods


def doc_token_table(text):
    """(pattern, symbol-or-None) rows of the tokenizer table in grammar.md."""
    rows, inside = [], False
    for ln in text.split("\n"):
        if ln.startswith("Pattern") and "| Symbol" in ln:
            inside = True
            continue
        if inside:
            if ln.startswith("---"):
                continue
            if not ln.strip():
                break
            _need(" | " in ln, "token table line %r" % ln)
            pat, sym = ln.rsplit(" | ", 1)
            pat, sym = pat.strip(), sym.strip()
            _need(pat.startswith("`") and pat.endswith("`"), "pattern %r not in backquotes" % pat)
            if sym == "*no symbol emitted*":
                s = None
            else:
                _need(sym.startswith("`") and sym.endswith("`"), "symbol %r not in backquotes" % sym)
                s = sym[1:-1]
            rows.append((pat[1:-1], s))
    _need(rows, "no tokenizer table in grammar.md")
    return rows


def source_token_table():
    """the same table recomputed from tokenizer.py (mirrors generate_grammar_md's normalisation)."""
    import re
    from compiler.front_end import tokenizer
    rows = [(re.sub(r"(\W)", r"\\\1", lit), '"' + lit + '"') for lit in tokenizer.LITERAL_TOKEN_PATTERNS]
    rows += [(re.sub(r"\|", r"\\|", r.regex.pattern), r.symbol) for r in tokenizer.REGEX_TOKEN_PATTERNS]
    return rows


# ----------------------------------------------------------------------------
# running the real Parser.parse and encoding its result like LR/Exec.enc_result
# ----------------------------------------------------------------------------

class _StepLimit(Exception):
    pass


class _CountDict(dict):
    def get(self, k, d=None):
        self.budget -= 1
        if self.budget < 0:
            raise _StepLimit()
        return dict.get(self, k, d)


class _CountDefaultDict(collections.defaultdict):
    def get(self, k, d=None):
        self.budget -= 1
        if self.budget < 0:
            raise _StepLimit()
        return collections.defaultdict.get(self, k, d)


def counting_parser(parser):
    """A Parser sharing `parser`'s tables whose action.get() counts loop iterations
    (Parser.parse calls self.action.get exactly once per iteration)."""
    from compiler.front_end import lr1
    if isinstance(parser.action, collections.defaultdict):
        act = _CountDefaultDict(dict, parser.action)
    else:
        act = _CountDict(parser.action)
    act.budget = 0
    return lr1.Parser(parser.item_sets, parser.goto, act, parser.conflicts, parser.terminals,
                      parser.nonterminals, parser.productions, parser.default_errors)


def make_tokens(symbols):
    from compiler.util import parser_types
    return [parser_types.Token(s, str(i), parser_types.SourceLocation((1, i + 1), (1, i + 2)))
            for i, s in enumerate(symbols)]


def encode_tree(t, I, problems):
    """iterative pre-order encoding identical to LR/Exec.enc_tree; also checks what the
    model does not carry: Reduction.symbol == production.lhs and source_location."""
    from compiler.front_end import lr1
    from compiler.util import parser_types
    out = []
    spans = {}

    def span(node):
        if isinstance(node, parser_types.Token):
            i = int(node.text)
            return (i, i)
        return spans.get(id(node))

    stack = [(t, False)]
    while stack:
        node, done = stack.pop()
        if isinstance(node, parser_types.Token):
            out.extend([0, I.s(node.symbol), int(node.text)])
        elif isinstance(node, lr1.Reduction):
            if done:
                ks = [span(c) for c in node.children]
                ks = [k for k in ks if k is not None]
                sp = (ks[0][0], ks[-1][1]) if ks else None
                spans[id(node)] = sp
                loc = node.source_location
                if sp is None:
                    if loc is not None:
                        problems.append("reduction of %s without leaves has source_location %s" % (node.symbol, loc))
                else:
                    want = parser_types.SourceLocation((1, sp[0] + 1), (1, sp[1] + 2))
                    if loc != want:
                        problems.append("reduction of %s spans tokens %s but source_location is %s" % (node.symbol, sp, loc))
                continue
            if node.symbol != node.production.lhs:
                problems.append("Reduction.symbol %r differs from production lhs %r" % (node.symbol, node.production.lhs))
            p = node.production
            out.extend([1, I.s(p.lhs), len(p.rhs)] + [I.s(x) for x in p.rhs] + [len(node.children)])
            stack.append((node, True))
            for c in reversed(node.children):
                stack.append((c, False))
        else:
            raise TranslationError("parse tree node %r" % (node,))
    return out


def py_run_safe(cparser, symbols, fuel, I):
    """py_run, but an exception that is not one of the modelled crashes of Parser.parse is
    returned as the pseudo result [13, 3, 99] plus a problem string starting with 'exception:'."""
    try:
        return py_run(cparser, symbols, fuel, I)
    except TranslationError:
        raise
    except Exception as ex:      # noqa: anything Parser.parse raises is an observation, not a harness error
        fr = traceback.extract_tb(ex.__traceback__)[-1]
        return [13, 3, 99], ["exception: %r in %s (%s:%s)" % (ex, fr.name, os.path.basename(fr.filename), fr.lineno)]


CRASH = {"token-index": 1, "assert-accept": 2, "empty-stack": 3, "goto-key": 4, "action-key": 5}


def py_run(cparser, symbols, fuel, I):
    """Run the real Parser.parse (through a counting_parser) on the symbol list; returns
    (encoded result line as LR/Exec does, problems list)."""
    from compiler.front_end import lr1
    problems = []
    cparser.action.budget = fuel
    try:
        res = cparser.parse(make_tokens(symbols))
    except _StepLimit:
        return [13, 4], problems
    except (IndexError, KeyError, AssertionError) as ex:
        fr = traceback.extract_tb(ex.__traceback__)[-1]
        line = fr.line or ""
        if isinstance(ex, AssertionError):
            k = "assert-accept" if "Accepted" in str(ex) else None
        elif isinstance(ex, IndexError):
            k = "empty-stack" if fr.name == "state" else ("token-index" if "tokens[cursor]" in line else None)
        else:
            k = "goto-key" if "self.goto[" in line else ("action-key" if "self.action[" in line else None)
        if k is None or not fr.filename.endswith("lr1.py"):
            raise
        return [13, 3, CRASH[k]], problems
    if res.error is None:
        return [13, 1] + encode_tree(res.parse_tree, I, problems), problems
    e = res.error
    if res.parse_tree is not None:
        problems.append("ParseResult has both a tree and an error")
    _need(isinstance(e.expected_tokens, (set, frozenset)), "expected_tokens is %r" % type(e.expected_tokens))
    exp = sorted(I.s(x) for x in e.expected_tokens)
    tok = e.token
    if e.index < len(symbols):
        if int(tok.text) != e.index:
            problems.append("error token is token %s but error index is %d" % (tok.text, e.index))
    elif e.index == len(symbols):
        # the end marker appended by Parser.parse: Symbol('$') (before ca2355e) or Token('$', '', end location)
        if getattr(tok, "symbol", None) != lr1.END_OF_INPUT or getattr(tok, "text", "") != "":
            problems.append("error token at end of input is %r" % (tok,))
    else:
        problems.append("error index %d beyond the input" % e.index)
    return [13, 2, I.c(e.code), e.index, I.s(tok.symbol), _state(e.state), len(exp)] + exp, problems


# ----------------------------------------------------------------------------
# the extracted model
# ----------------------------------------------------------------------------

def build_driver(ctx):
    """coqc extract/lr/Extract.v + ocamlfind ocamlopt into ctx.bdir/lr; returns the binary path or None."""
    d = os.path.join(ctx.bdir, "lr")
    shutil.rmtree(d, ignore_errors=True)
    os.makedirs(d)
    rc, out = fw.coq_make(["LR/Exec.vo"])
    if rc != 0:
        ctx.note("coq build of LR/Exec.vo failed:\n" + out[-3000:])
        return None
    for f in ("Extract.v", "driver.ml"):
        shutil.copy(os.path.join(fw.VERIF, "extract", "lr", f), d)
    rc, out = fw.sh(["coqc"] + fw.COQ_FLAGS + ["Extract.v"], cwd=d, timeout=300)
    if rc != 0:
        ctx.note("extraction failed:\n" + out[-3000:])
        return None
    rc, out = fw.sh(["ocamlfind", "ocamlopt", "-O3", "-w", "-a", "lr_model.mli", "lr_model.ml", "driver.ml", "-o", "lrdriver"],
                    cwd=d, timeout=300)
    if rc != 0 or not os.path.exists(os.path.join(d, "lrdriver")):
        ctx.note("ocamlopt failed:\n" + out[-3000:])
        return None
    return os.path.join(d, "lrdriver")


def run_driver(ctx, driver, lines, tag, timeout=1500):
    """Write the command file, run the extracted model, return its output lines (lists of ints)."""
    d = os.path.join(ctx.bdir, "lr")
    path = os.path.join(d, "cmd_%s.txt" % tag)
    with open(path, "w") as f:
        f.write("\n".join(" ".join(map(str, l)) for l in lines))
        f.write("\n")
    rc, out = fw.sh("ulimit -s unlimited; exec '%s' '%s'" % (driver, path), timeout=timeout, cwd=d)
    if rc != 0:
        raise TranslationError("extracted model failed (rc=%s): %s" % (rc, out[-2000:]))
    res = []
    for ln in out.split("\n"):
        ln = ln.strip()
        if not ln or ln.startswith("WARNING"):
            continue
        res.append([int(x) for x in ln.split()])
    return res


def coq_lines_literal(lines):
    return "[" + ";\n ".join("[" + ";".join(str(x) for x in l) + "]" for l in lines) + "]%N"


# ----------------------------------------------------------------------------
# independent Earley recogniser (support / search only)
# ----------------------------------------------------------------------------

class Earley:
    """Earley recogniser over a list of productions (lhs, rhs tuple).  count_trees() counts
    derivation trees up to a cap (2 is enough to witness ambiguity); cyclic unit/epsilon
    derivations are detected and reported as 'infinitely ambiguous'."""

    def __init__(self, start, productions):
        self.start = start
        self.prods = [(p[0], tuple(p[1])) for p in productions]
        self.by_lhs = collections.defaultdict(list)
        for p in self.prods:
            self.by_lhs[p[0]].append(p)
        self.nts = set(self.by_lhs)
        # nullable
        self.nullable = set()
        ch = True
        while ch:
            ch = False
            for lhs, rhs in self.prods:
                if lhs not in self.nullable and all(x in self.nullable for x in rhs):
                    self.nullable.add(lhs)
                    ch = True
        # productive
        self.productive = set()
        ch = True
        while ch:
            ch = False
            for lhs, rhs in self.prods:
                if lhs not in self.productive and all((x not in self.nts) or (x in self.productive) for x in rhs):
                    self.productive.add(lhs)
                    ch = True

    def chart(self, w, productive_only=False):
        """list of item sets; item = (lhs, rhs, dot, origin)"""
        prods_of = self.by_lhs
        if productive_only:
            ok = lambda p: all((x not in self.nts) or (x in self.productive) for x in p[1])
        else:
            ok = lambda p: True
        n = len(w)
        S = [set() for _ in range(n + 1)]
        order = [[] for _ in range(n + 1)]

        def add(k, it):
            if it not in S[k]:
                S[k].add(it)
                order[k].append(it)

        for p in prods_of.get(self.start, []):
            if ok(p):
                add(0, (p[0], p[1], 0, 0))
        for k in range(n + 1):
            i = 0
            while i < len(order[k]):
                lhs, rhs, dot, org = order[k][i]
                i += 1
                if dot < len(rhs):
                    x = rhs[dot]
                    if x in self.nts:
                        for p in prods_of[x]:
                            if ok(p):
                                add(k, (p[0], p[1], 0, k))
                        if x in self.nullable:
                            add(k, (lhs, rhs, dot + 1, org))
                    elif k < n and w[k] == x:
                        add(k + 1, (lhs, rhs, dot + 1, org))
                else:
                    for (l2, r2, d2, o2) in list(S[org]):
                        if d2 < len(r2) and r2[d2] == lhs:
                            add(k, (l2, r2, d2 + 1, o2))
        return S

    def accepts(self, w):
        S = self.chart(w)
        return any(l == self.start and d == len(r) and o == 0 for (l, r, d, o) in S[len(w)])

    def viable_prefix_len(self, w):
        """largest k such that w[:k] is a prefix of some sentence (needs productive-only items);
        returns (k, accepted)."""
        if self.start not in self.productive:
            return (-1, False)
        S = self.chart(w, productive_only=True)
        k = 0
        while k < len(w) and S[k + 1]:
            k += 1
        acc = k == len(w) and any(l == self.start and d == len(r) and o == 0 for (l, r, d, o) in S[len(w)])
        return (k, acc)

    def count_trees(self, w, cap=2):
        """number of derivation trees of w from start, capped at `cap`; when a derivation cycle
        X =>+ X is usable in a derivation of w the answer is `cap` (infinitely many trees)."""
        w = tuple(w)
        memo = {}
        depth_of = {}
        cyc = [False]
        BIG = 1 << 30

        def sym(x, i, j, depth):
            """returns (count, lowest depth of an active ancestor that a cut below referred to)"""
            if x not in self.nts:
                return (1 if (j == i + 1 and w[i] == x) else 0), BIG
            key = (x, i, j)
            if key in memo:
                return memo[key], BIG
            if key in depth_of:
                cyc[0] = True          # X =>+ X over the same span
                return 0, depth_of[key]
            depth_of[key] = depth
            tot, low = 0, BIG
            for (lhs, rhs) in self.by_lhs[x]:
                c, l = seq(rhs, 0, i, j, depth + 1)
                tot = min(cap, tot + c)
                low = min(low, l)
            del depth_of[key]
            if low >= depth:
                memo[key] = tot
                low = BIG
            return tot, low

        def seq(rhs, k, i, j, depth):
            if k == len(rhs):
                return (1 if i == j else 0), BIG
            if k == len(rhs) - 1:
                return sym(rhs[k], i, j, depth)
            tot, low = 0, BIG
            for m in range(i, j + 1):
                a, l1 = sym(rhs[k], i, m, depth)
                low = min(low, l1)
                if a:
                    b, l2 = seq(rhs, k + 1, m, j, depth)
                    low = min(low, l2)
                    tot = min(cap, tot + a * b)
            return tot, low

        n, _ = sym(self.start, 0, len(w), 0)
        if cyc[0] and n >= 1:
            # a cycle was met while deriving w; it is usable iff it lies on a successful derivation.
            # Conservative and sufficient for "ambiguous": re-count with the cut treated as one more tree.
            return cap if self._usable_cycle(w) else n
        return n

    def _usable_cycle(self, w):
        """is there a node (X,i,j) used in some derivation of w from start with X =>+ X over the
        same span (then w has infinitely many derivation trees)?"""
        w = tuple(w)
        derivable = {}

        def can(x, i, j, active):
            if x not in self.nts:
                return j == i + 1 and w[i] == x
            key = (x, i, j)
            if key in derivable:
                return derivable[key]
            if key in active:
                return False
            active = active | {key}
            r = any(canseq(rhs, 0, i, j, active) for (_, rhs) in self.by_lhs[x])
            if r:
                derivable[key] = True
            return r

        def canseq(rhs, k, i, j, active):
            if k == len(rhs):
                return i == j
            if k == len(rhs) - 1:
                return can(rhs[k], i, j, active)
            return any(can(rhs[k], i, m, active) and canseq(rhs, k + 1, m, j, active) for m in range(i, j + 1))

        # nodes (X,i,j) used in some derivation of w, and whether one of them reaches itself
        used = set()

        def mark(x, i, j):
            if x not in self.nts or (x, i, j) in used:
                return
            used.add((x, i, j))
            for (_, rhs) in self.by_lhs[x]:
                markseq(rhs, 0, i, j)

        def markseq(rhs, k, i, j):
            if k == len(rhs):
                return
            if not canseq(rhs, k, i, j, frozenset()):
                return
            if k == len(rhs) - 1:
                mark(rhs[k], i, j)
                return
            for m in range(i, j + 1):
                if can(rhs[k], i, m, frozenset()) and canseq(rhs, k + 1, m, j, frozenset()):
                    mark(rhs[k], i, m)
                    markseq(rhs, k + 1, m, j)

        if not can(self.start, 0, len(w), frozenset()):
            return False
        mark(self.start, 0, len(w))
        # edges between used nodes over the same span
        edges = collections.defaultdict(set)
        for (x, i, j) in used:
            for (_, rhs) in self.by_lhs[x]:
                for k, y in enumerate(rhs):
                    if y in self.nts and (y, i, j) in used:
                        # the other symbols must derive empty around it
                        if all(can(z, i, i, frozenset()) for z in rhs[:k]) and all(can(z, j, j, frozenset()) for z in rhs[k + 1:]):
                            edges[(x, i, j)].add((y, i, j))
        # cycle detection
        color = {}

        def dfs(u):
            color[u] = 1
            for v in edges[u]:
                if color.get(v) == 1:
                    return True
                if v not in color and dfs(v):
                    return True
            color[u] = 2
            return False

        for u in list(used):
            if u not in color and dfs(u):
                return True
        return False


# ----------------------------------------------------------------------------
# a command batch for the extracted model
# ----------------------------------------------------------------------------

class Bench:
    """Collects table definitions and commands; `flush` runs the extracted model once and
    hands each output line to the handler registered with its command."""

    def __init__(self, ctx, driver):
        from compiler.front_end import lr1
        self.ctx, self.driver = ctx, driver
        self.I = Interner()
        self.eoi = self.I.s(lr1.END_OF_INPUT)
        self.defs = []        # table / grammar definitions (kept across flushes)
        self.cmds = []        # (line, handler)
        self.nflush = 0

    def add_table(self, parser, slot, items_for=None):
        """items_for = (productions, start): also dump the parser's LR(1) item sets (certificate for
        check_complete against the grammar whose production list is `productions`, in that order)"""
        t = translate_parser(parser, self.I)
        il = item_cert_lines(parser, items_for[0], items_for[1], self.I) if items_for else ()
        t.item_lines = il
        self.defs += table_lines(t, slot, self.I, self.eoi, il)
        return t

    def cmd_complete(self, gslot, slot, productions, handler):
        for l in first_cert_lines(productions, self.I):
            self.cmds.append((l, None))
        self.cmds.append(([22, gslot, slot], handler))

    def add_tab(self, t, slot):
        self.defs += table_lines(t, slot, self.I, self.eoi)

    def add_grammar(self, gslot, start, productions):
        self.defs += grammar_lines(gslot, start, productions, self.I)

    def prod_indices(self, productions):
        idx = [self.I.p(p) for p in productions]
        self.defs += self.I.pending_production_lines()
        return idx

    def cmd_early(self, gslot, slot, productions, handler):
        """check_early (item cores valid) and check_productive for the table in `slot` against grammar `gslot`"""
        lines, _ = rank_cert_lines(productions, self.I)
        for l in lines:
            self.cmds.append((l, None))
        self.cmds.append(([24, gslot, slot], handler))

    def cmd(self, line, handler):
        self.cmds.append((line, handler))

    def cmd_relation(self, rel, sa, sb, handler):
        for l in relation_lines(rel):
            self.cmds.append((l, None))
        self.cmds.append(([12, sa, sb], handler))

    def flush(self, tag):
        lines = list(self.defs)
        # productions interned after the definitions were emitted
        lines += self.I.pending_production_lines()
        self.defs = lines[:]
        handlers = []
        for l, h in self.cmds:
            lines.append(l)
            if h is not None:
                handlers.append((l, h))
        self.cmds = []
        self.nflush += 1
        out = run_driver(self.ctx, self.driver, lines, "%s_%d" % (tag, self.nflush))
        if len(out) != len(handlers):
            raise TranslationError("extracted model returned %d lines for %d commands (first: %r)"
                                   % (len(out), len(handlers), out[:3]))
        for o, (l, h) in zip(out, handlers):
            if o and o[0] == 0:
                raise TranslationError("extracted model rejected line %r -> %r" % (l[:12], o))
            h(o)


# ----------------------------------------------------------------------------
# random small grammars (C08)
# ----------------------------------------------------------------------------

def clean_grammar(start, prods):
    """remove unproductive and unreachable productions (may return [] if start is unproductive)"""
    my = min_yields(prods)
    nts = set(p.lhs for p in prods)
    prods = [p for p in prods if p.lhs in my and all((x not in nts) or (x in my) for x in p.rhs)]
    reach, todo = {start}, [start]
    while todo:
        x = todo.pop()
        for p in prods:
            if p.lhs == x:
                for y in p.rhs:
                    if y not in reach:
                        reach.add(y)
                        todo.append(y)
    return [p for p in prods if p.lhs in reach]


def nullchain_grammar(rng):
    """A grammar with a nonterminal that is nullable only THROUGH other nonterminals (chain depth
    2 or 3: T -> E1 E2, U -> T E3, Ei -> <empty> [| terminal]), used at the start, in the middle or
    at the end of the start production, after/before a terminal, a nonterminal or nothing.  FIRST and
    nullable must be propagated through the chain for the look-aheads of whatever precedes it."""
    from compiler.util import parser_types
    P = parser_types.Production
    pool = ["a", "b", "c", "d"]
    rng.shuffle(pool)
    depth = rng.choice([2, 2, 3])
    pre = rng.choice(["none", "terminal", "nonterminal", "nonterminal", "nonterminal"])
    post = rng.choice(["none", "terminal", "terminal", "nonterminal"])
    if pre == "none" and post == "none":
        pre = "nonterminal"
    prods = []
    # at most 6 nonterminals: N0, two leaves, the chain (1 or 2) and what is left for pre/post/third leaf
    if depth == 3 and pre == "nonterminal" and post == "nonterminal":
        if rng.random() < 0.5:
            pre = "terminal"
        else:
            post = "terminal"
    third_leaf = depth == 3 and pre != "nonterminal" and post != "nonterminal" and rng.random() < 0.6

    def take():
        return pool.pop() if pool else None

    pre_syms, post_syms = [], []
    if pre == "terminal":
        pre_syms = [take()]
    elif pre == "nonterminal":
        pre_syms = ["N1"]
    if post == "terminal":
        post_syms = [take()]
    elif post == "nonterminal":
        post_syms = ["N2"]
    if pre == "nonterminal":
        prods.append(P("N1", (take(),)))
    if post == "nonterminal":
        prods.append(P("N2", (take(),)))
    leaves = ["N3", "N4"] + (["N5"] if third_leaf else [])
    for e in leaves:
        prods.append(P(e, ()))
        if pool and rng.random() < 0.4:
            prods.append(P(e, (take(),)))
    chain = "N6" if depth == 2 else "N7"
    if depth == 2:
        prods.append(P("N6", ("N3", "N4")))
    else:
        prods.append(P("N6", ("N3", "N4")))
        if "N5" in leaves:
            prods.append(P("N7", rng.choice([("N6", "N5"), ("N5", "N6")])))
        else:
            prods.append(P("N7", ("N6",)))
    # the chain nonterminal once or (rarely) twice in the start production
    mid = [chain]
    prods.insert(0, P("N0", tuple(pre_syms + mid + post_syms)))
    if rng.random() < 0.3 and len(prods) < 10 and pool:
        prods.insert(1, P("N0", (take(),)))
    return "N0", prods[:10], "nullchain"


def random_grammar(rng):
    """(start, productions, style): <= 6 nonterminals (7 symbols names for the nullable-chain family),
    <= 10 productions, <= 4 terminals."""
    from compiler.util import parser_types
    P = parser_types.Production
    if rng.random() < 0.15:
        return nullchain_grammar(rng)
    nnt = rng.choice([1, 1, 2, 2, 3, 3, 4, 5, 6])
    nt = ["N%d" % i for i in range(nnt)]
    terms = ["a", "b", "c", "d"][:rng.choice([1, 2, 2, 2, 3, 3, 4])]
    style = rng.choice(["plain", "plain", "nullable", "leftrec", "rightrec", "ambiguous", "cyclic", "expr", "lists", "unclean"])
    nprod = rng.randint(max(nnt, 2), 10)

    def rhs():
        n = rng.choice([0, 1, 1, 1, 2, 2, 2, 3, 3, 4]) if style != "nullable" else rng.choice([0, 0, 1, 1, 2, 2, 3])
        return tuple(rng.choice(terms) if rng.random() < 0.55 else rng.choice(nt) for _ in range(n))

    prods = []
    for X in nt:
        prods.append(P(X, rhs()))
    t = lambda: rng.choice(terms)
    X, Y = rng.choice(nt), rng.choice(nt)
    if style == "leftrec":
        prods += [P(X, (X, t())), P(X, (t(),))]
    elif style == "rightrec":
        prods += [P(X, (t(), X)), P(X, ())]
    elif style == "ambiguous":
        prods += rng.choice([[P(X, (X, X)), P(X, (t(),))],
                             [P(X, (Y,)), P(X, (t(),)), P(Y, (t(),))],
                             [P(X, (X, t(), X)), P(X, (t(),))],
                             [P(X, (t(), X)), P(X, (X, t())), P(X, ())]])
    elif style == "cyclic":
        prods += [P(X, (Y,)), P(Y, (X,)), P(X, (t(),))]
    elif style == "expr":
        a, b = t(), t()
        E, T = nt[0], nt[-1]
        prods = [P(E, (E, a, T)), P(E, (T,)), P(T, (b,)), P(T, ("c", E, "d"))] + prods[:2]
    elif style == "lists":
        prods += [P(X, (Y, X)), P(X, ()), P(Y, (t(),))]
    while len(prods) < nprod:
        prods.append(P(rng.choice(nt), rhs()))
    seen, out = set(), []
    for p in prods:
        if p not in seen:
            seen.add(p)
            out.append(p)
    out = out[:10]
    start = nt[0]
    if style != "unclean":
        out = clean_grammar(start, out)
    if not any(p.lhs == start for p in out):
        out = [P(start, (terms[0],))] + out
        if style != "unclean":
            out = clean_grammar(start, out)
    return start, out, style


def all_strings(alphabet, maxlen, cap):
    """all strings over alphabet up to maxlen (shortest first), at most `cap` of them"""
    out = [[]]
    layer = [[]]
    for _ in range(maxlen):
        nxt = []
        for w in layer:
            for a in alphabet:
                nxt.append(w + [a])
                if len(out) + len(nxt) >= cap:
                    break
            if len(out) + len(nxt) >= cap:
                break
        out += nxt
        layer = nxt
        if len(out) >= cap:
            break
    return out


def check_derivation(tree, start, productions, symbols):
    """independent check that a lr1 parse tree is a derivation of `symbols` from `start`;
    returns None or a message"""
    from compiler.front_end import lr1
    from compiler.util import parser_types
    prodset = set((p.lhs, tuple(p.rhs)) for p in productions)
    leaves = []
    stack = [(tree, start)]
    while stack:
        node, want = stack.pop()
        if isinstance(node, parser_types.Token):
            if node.symbol != want:
                return "leaf %r where %r was expected" % (node.symbol, want)
            leaves.append(int(node.text))
        elif isinstance(node, lr1.Reduction):
            pr = (node.production.lhs, tuple(node.production.rhs))
            if pr not in prodset:
                return "node uses %r which is not a production of the grammar" % (pr,)
            if pr[0] != want or node.symbol != want:
                return "node for %r where %r was expected" % (pr[0], want)
            if len(node.children) != len(pr[1]):
                return "node for %r has %d children" % (pr, len(node.children))
            for c, x in reversed(list(zip(node.children, pr[1]))):
                stack.append((c, x))
        else:
            return "unexpected node %r" % (node,)
    if leaves != list(range(len(symbols))):
        return "leaves are tokens %r, not 0..%d in order" % (leaves[:20], len(symbols) - 1)
    return None


def coq_eval_main(ctx, name, lines, timeout=1800, stack_unlimited=False):
    """Evaluate LR.Exec.main on `lines` inside Coq (vm_compute); returns output lines or raises."""
    import re
    d = os.path.join(ctx.bdir, "coqeval")
    os.makedirs(d, exist_ok=True)
    path = os.path.join(d, "Eval_%s.v" % name)
    outp = os.path.join(d, "eval_%s" % name)
    if os.path.exists(outp + ".out"):
        os.remove(outp + ".out")
    with open(path, "w") as f:
        f.write("From Coq Require Import NArith List.\nImport ListNotations.\nRequire Import EmbossV.LR.Exec.\n")
        f.write("Definition lines : list (list N) :=\n%s.\n" % coq_lines_literal(lines))
        f.write('Redirect "%s" Eval vm_compute in main lines.\n' % outp)
    rc, out = fw.coqc(path, timeout=timeout, stack_unlimited=stack_unlimited)
    if rc != 0:
        raise TranslationError("coqc failed on %s: %s" % (path, out[-1500:]))
    txt = open(outp + ".out").read()
    body = txt.split("=", 1)[1].rsplit(":", 1)[0]
    body = body.replace("%N", "")
    res = []
    for m in re.finditer(r"\[([0-9;\s]*)\]", body):
        res.append([int(x) for x in m.group(1).replace("\n", " ").split(";") if x.strip()])
    return res
