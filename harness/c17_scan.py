"""C17 — static scan of /repo/compiler for the two places impurity can enter.

(a) every iteration over an expression that is (syntactically inferable as) a set, frozenset or
    dict: `for` loops, comprehension generators and calls of iterating consumers
    (join, list, tuple, sorted, min, max, any, all, sum, enumerate, extend, update, ...);
(b) every module-level mutable binding (list/dict/set values, names rebound through `global`,
    memoised functions).

The result is a list of site records WITHOUT line numbers (so unrelated edits do not disturb it):
  {"file", "function", "form", "expr", "type", "sorted"}            for (a)
  {"file", "function": "<module>", "form": "module-state", "expr": name, "type": kind}  for (b)
`scan()` returns them sorted; harness/c17_sites.json holds the reviewed list with a
classification per site.  The check fails closed when the two differ.

Type inference is deliberately simple and over-approximating inside one file:
  * literals / comprehensions / set() frozenset() dict() defaultdict() OrderedDict() Counter() calls,
  * .keys() .values() .items() .union() .intersection() .difference() .copy() on such values,
  * binary | & - ^ when one operand is set-typed,
  * names and attributes (`x`, `self.x`, `obj.x` by attribute name) that are assigned such a value
    anywhere in the same file, plus parameters/attributes whose NAME is in KNOWN_SET_NAMES
    (set-typed values that cross file boundaries; found by reading the code once).
Test files (*_test.py), testdata and generated tables are not part of a compilation and are skipped.
"""
import ast
import json
import os
import sys

# attribute / parameter names that carry sets or dicts across files
KNOWN_SET_NAMES = {
    "expected_tokens": "set", "used_productions": "set", "productions": "set", "conflicts": "set",
    "terminals": "set", "nonterminals": "set", "symbols": "set",
}
KNOWN_DICT_NAMES = {
    "action": "dict", "goto": "dict", "default_errors": "dict", "modules": "dict", "firsts": "dict",
    "source_code": "dict", "source_codes": "dict",
}

SET_CALLS = {"set": "set", "frozenset": "set", "dict": "dict", "defaultdict": "dict", "OrderedDict": "dict",
             "Counter": "dict"}
SET_METHODS = {"union", "intersection", "difference", "symmetric_difference"}
DICT_VIEW_METHODS = {"keys": "dict", "values": "dict", "items": "dict"}
CONSUMERS = {"join", "list", "tuple", "sorted", "min", "max", "any", "all", "sum", "enumerate", "extend",
             "update", "iter", "next", "zip", "map", "filter", "reversed", "set", "frozenset", "dict", "len_"}
MUTABLE_CALLS = {"list", "dict", "set", "defaultdict", "OrderedDict", "Counter", "deque", "bytearray"}


def _call_name(node):
    f = node.func
    if isinstance(f, ast.Name):
        return f.id
    if isinstance(f, ast.Attribute):
        return f.attr
    return None


class FileScan(ast.NodeVisitor):
    def __init__(self, rel, tree):
        self.rel = rel
        self.tree = tree
        self.types = {}         # name or ".attr" -> "set" | "dict"
        self.elem = {}          # name or ".attr" of a dict -> type of its values ("set" | "dict")
        self.rets = {}          # function name (same file) -> type of the value it returns
        self.sites = []
        self.stack = []
        self._collect_types()

    # ---- pass 1: which names/attributes hold sets or dicts ----
    def _collect_types(self):
        changed = True
        rounds = 0
        while changed and rounds < 5:
            changed = False
            rounds += 1
            for node in ast.walk(self.tree):
                targets, value = [], None
                if isinstance(node, ast.Assign):
                    targets, value = node.targets, node.value
                elif isinstance(node, ast.AnnAssign) and node.value is not None:
                    targets, value = [node.target], node.value
                elif isinstance(node, ast.AugAssign):
                    targets, value = [node.target], node.value
                if value is None:
                    continue
                t = self.type_of(value)
                # d[k] = <set>  /  d = {k: <set> for ...}  /  d = defaultdict(set): remember the value type
                for tg in targets:
                    if isinstance(tg, ast.Subscript) and t:
                        bk = self._key(tg.value)
                        if bk and self.elem.get(bk) != t:
                            self.elem[bk] = t
                            changed = True
                    et = None
                    if isinstance(value, ast.DictComp):
                        et = self.type_of(value.value)
                    elif isinstance(value, ast.Call) and _call_name(value) == "defaultdict" and value.args:
                        a0 = value.args[0]
                        et = SET_CALLS.get(a0.id) if isinstance(a0, ast.Name) else None
                    k2 = self._key(tg)
                    if et and k2 and self.elem.get(k2) != et:
                        self.elem[k2] = et
                        changed = True
                if not t:
                    continue
                for tg in targets:
                    key = self._key(tg)
                    if key and self.types.get(key) != t:
                        self.types[key] = t
                        changed = True
            # functions of this file that return a set/dict
            for node in ast.walk(self.tree):
                if isinstance(node, (ast.FunctionDef, ast.AsyncFunctionDef)):
                    for sub in ast.walk(node):
                        if isinstance(sub, ast.Return) and sub.value is not None:
                            rt = self.type_of(sub.value)
                            if rt and self.rets.get(node.name) != rt:
                                self.rets[node.name] = rt
                                changed = True
            # loop / comprehension targets bound to the values of a dict of sets
            for node in ast.walk(self.tree):
                pairs = []
                if isinstance(node, ast.For):
                    pairs.append((node.target, node.iter))
                elif isinstance(node, (ast.ListComp, ast.SetComp, ast.DictComp, ast.GeneratorExp)):
                    pairs += [(g.target, g.iter) for g in node.generators]
                for tgt, it in pairs:
                    if not (isinstance(it, ast.Call) and isinstance(it.func, ast.Attribute)):
                        continue
                    et = self.elem.get(self._key(it.func.value) or "")
                    if not et:
                        continue
                    name = None
                    if it.func.attr == "values" and isinstance(tgt, ast.Name):
                        name = tgt.id
                    elif it.func.attr == "items" and isinstance(tgt, ast.Tuple) and len(tgt.elts) == 2 \
                            and isinstance(tgt.elts[1], ast.Name):
                        name = tgt.elts[1].id
                    if name and self.types.get(name) != et:
                        self.types[name] = et
                        changed = True

    @staticmethod
    def _key(node):
        if isinstance(node, ast.Name):
            return node.id
        if isinstance(node, ast.Attribute):
            return "." + node.attr
        return None

    def type_of(self, node):
        if isinstance(node, (ast.Set, ast.SetComp)):
            return "set"
        if isinstance(node, (ast.Dict, ast.DictComp)):
            return "dict"
        if isinstance(node, ast.Call):
            n = _call_name(node)
            if n in SET_CALLS and not (isinstance(node.func, ast.Attribute) and n in ("set", "dict")):
                return SET_CALLS[n]
            if n in self.rets:
                return self.rets[n]
            if isinstance(node.func, ast.Attribute):
                if n in DICT_VIEW_METHODS:
                    return "dict"
                if n in SET_METHODS and self.type_of(node.func.value):
                    return "set"
                if n == "copy":
                    return self.type_of(node.func.value)
                if n == "get" and self.type_of(node.func.value) == "dict" and len(node.args) == 2:
                    return self.type_of(node.args[1])
            return None
        if isinstance(node, ast.BinOp) and isinstance(node.op, (ast.BitOr, ast.BitAnd, ast.Sub, ast.BitXor)):
            l, r = self.type_of(node.left), self.type_of(node.right)
            if "set" in (l, r):
                return "set"
            return None
        if isinstance(node, ast.IfExp):
            return self.type_of(node.body) or self.type_of(node.orelse)
        if isinstance(node, ast.Name):
            return self.types.get(node.id) or KNOWN_SET_NAMES.get(node.id) or KNOWN_DICT_NAMES.get(node.id)
        if isinstance(node, ast.Attribute):
            return (self.types.get("." + node.attr) or KNOWN_SET_NAMES.get(node.attr)
                    or KNOWN_DICT_NAMES.get(node.attr))
        if isinstance(node, ast.Subscript):
            # element of a dict of sets, e.g. self.firsts[x]; action[state]
            base = node.value
            bn = self._key(base) if isinstance(base, (ast.Name, ast.Attribute)) else None
            if bn and self.elem.get(bn):
                return self.elem[bn]
            if bn and bn.lstrip(".") in ("firsts",):
                return "set"
            if bn and bn.lstrip(".") in ("action", "goto"):
                return "dict"
        return None

    # ---- pass 2: iteration sites ----
    def fn(self):
        return ".".join(self.stack) or "<module>"

    def add(self, form, expr, typ, is_sorted=False):
        self.sites.append({"file": self.rel, "function": self.fn(), "form": form,
                           "expr": ast.unparse(expr), "type": typ, "sorted": bool(is_sorted)})

    def visit_FunctionDef(self, node):
        for d in node.decorator_list:
            txt = ast.unparse(d)
            if "memoize" in txt or "lru_cache" in txt or txt.endswith("cache"):
                self.sites.append({"file": self.rel, "function": "<module>", "form": "module-state",
                                   "expr": node.name, "type": "memoised-function", "sorted": False})
        self.stack.append(node.name)
        self.generic_visit(node)
        self.stack.pop()

    visit_AsyncFunctionDef = visit_FunctionDef

    def visit_ClassDef(self, node):
        self.stack.append(node.name)
        self.generic_visit(node)
        self.stack.pop()

    def visit_For(self, node):
        t = self.type_of(node.iter)
        if t:
            self.add("for", node.iter, t)
        self.generic_visit(node)

    def _comp(self, node):
        for g in node.generators:
            t = self.type_of(g.iter)
            if t:
                self.add("comprehension:" + type(node).__name__, g.iter, t)
        self.generic_visit(node)

    visit_ListComp = visit_SetComp = visit_DictComp = visit_GeneratorExp = _comp

    def visit_Call(self, node):
        n = _call_name(node)
        if n in CONSUMERS:
            for a in node.args:
                if isinstance(a, ast.Starred):
                    a = a.value
                t = self.type_of(a)
                if t:
                    self.add("call:" + n, a, t, is_sorted=(n == "sorted"))
        self.generic_visit(node)

    def visit_Starred(self, node):
        t = self.type_of(node.value)
        if t:
            self.add("star", node.value, t)
        self.generic_visit(node)

    # ---- module-level mutable state ----
    def module_state(self):
        globals_rebound = set()
        for node in ast.walk(self.tree):
            if isinstance(node, ast.Global):
                globals_rebound.update(node.names)
        for node in self.tree.body:
            targets, value = [], None
            if isinstance(node, ast.Assign):
                targets, value = node.targets, node.value
            elif isinstance(node, ast.AnnAssign) and node.value is not None:
                targets, value = [node.target], node.value
            for tg in targets:
                if not isinstance(tg, ast.Name):
                    continue
                kind = None
                if isinstance(value, (ast.List, ast.ListComp)):
                    kind = "list"
                elif isinstance(value, (ast.Dict, ast.DictComp)):
                    kind = "dict"
                elif isinstance(value, (ast.Set, ast.SetComp)):
                    kind = "set"
                elif isinstance(value, ast.Call) and _call_name(value) in MUTABLE_CALLS:
                    kind = _call_name(value)
                if tg.id in globals_rebound:
                    kind = (kind + "+" if kind else "") + "global-rebound"
                if kind:
                    self.sites.append({"file": self.rel, "function": "<module>", "form": "module-state",
                                       "expr": tg.id, "type": kind, "sorted": False})


def scan(repo):
    root = os.path.join(repo, "compiler")
    out = []
    for d, dirs, files in os.walk(root):
        dirs[:] = sorted(x for x in dirs if x not in ("testdata", "__pycache__", "generated"))
        for f in sorted(files):
            if not f.endswith(".py") or f.endswith("_test.py") or f in ("test_util.py",):
                continue
            p = os.path.join(d, f)
            rel = os.path.relpath(p, repo)
            tree = ast.parse(open(p, encoding="utf-8").read(), p)
            fs = FileScan(rel, tree)
            fs.visit(tree)
            fs.module_state()
            out += fs.sites
    # multiplicity matters: keep duplicates, add a running index per identical record
    out.sort(key=lambda s: json.dumps(s, sort_keys=True))
    res, seen = [], {}
    for s in out:
        k = json.dumps(s, sort_keys=True)
        seen[k] = seen.get(k, 0) + 1
        s = dict(s)
        s["n"] = seen[k]
        res.append(s)
    return res


def site_id(s):
    return "%s::%s::%s::%s::%d" % (s["file"], s["function"], s["form"], s["expr"], s["n"])


if __name__ == "__main__":
    repo = sys.argv[1] if len(sys.argv) > 1 else os.environ.get("EMBOSS_REPO", "/repo")
    for s in scan(repo):
        print(site_id(s), "|", s["type"], "| sorted" if s["sorted"] else "")
