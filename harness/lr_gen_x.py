"""Python side of the differential correspondence between the Gallina model of the LR(1)
GENERATOR (coq/theories/LR/Gen.v, harness commands 30/31 of LR/Exec.v) and the real
generator /repo/compiler/front_end/lr1.py (class Grammar).

Pure functions, no I/O:

    out_of_model(start, prods)      why a grammar is outside the model's domain (or None)
    decode_gen(line)                output line of command 30 -> dict
    decode_first(line)              output line of command 31 -> dict
    python_view(start, prods, I)    what lr1.Grammar computes, in the model's vocabulary
    first_view(start, prods, I)     the FIRST part only (used for the Emboss grammar)
    compare(view, model)            list of human-readable differences, each prefixed with its aspect
    compare_first(view, entries)    the FIRST part of compare
    productivity_view(prods, I)     the marks of the productivity fixed point in the order Gen2.prod_marks finds them
    certify_case(...)               one case (Coq input term, expected output term) of LR/GenExec.certify

Vocabulary shared with LR/Exec.enc_gen: symbols are the numbers of the run's Interner `I`
(I.s(name), I.sym_names[n]); a FIRST element is 0 for epsilon (Python None) or t+1 for the
terminal t; an LR(1) item is (pcode, dot, look-ahead) with pcode 0 for the seed production
S' -> start and q+1 for the q-th production of the list given to Bench.add_grammar.

What is NOT compared (documented limits of the model, see the header of LR/Gen.v):
  * state numbers: lr1.py numbers the states in the order induced by sorted() over Python
    objects, the model in the order of its work list; states are identified through their item
    SETS (renaming pi: model index -> python index) and every table is compared under pi;
  * the action that survives in a cell with a Conflict: lr1.py iterates over a Python set of
    items (`for item in item_sets[i]`, hash order) and the last writer wins, the model iterates
    over its list; for such a cell only "the model's action is one of the actions named by the
    Python Conflict objects of that cell or the entry of the Python table" is required.  The SET
    of conflicting cells is order independent (a cell conflicts iff two different actions are
    written to it) and is compared exactly;
  * the Accept `assert` of Grammar.parser: whether a Reduce on '$' in the accepting state shows up
    as an AssertionError or as a Conflict depends on that same iteration order (KNOWN finding
    lr1-assert-accept-reduce-clash); both count as "not clean" and the model must be not clean too.
"""
import traceback

ASPECTS = ("FIRST", "closure", "states", "tables", "verdict")


class DecodeError(Exception):
    pass


# ----------------------------------------------------------------------------
# domain of the model
# ----------------------------------------------------------------------------

def out_of_model(start, prods):
    """None when LR/Gen.v claims to coincide with lr1.py on this grammar, else a short reason."""
    from compiler.front_end import lr1
    syms = [start]
    for p in prods:
        syms.append(p.lhs)
        syms.extend(p.rhs)
    if any(not isinstance(x, str) for x in syms):
        return "non-string-symbol"
    if any(x == "" for x in syms):
        return "empty-string-symbol"          # lr1.py treats falsy symbols as epsilon
    if any(x in (lr1.START_PRIME, lr1.END_OF_INPUT) for x in syms):
        return "reserved-symbol"              # "S'" or "$" used by the grammar itself
    keys = [(p.lhs, tuple(p.rhs)) for p in prods]
    if len(set(keys)) != len(keys):
        return "duplicate-production"         # lr1 items hold productions by value, the model by index
    return None


# ----------------------------------------------------------------------------
# decoding the model's output lines (fail closed)
# ----------------------------------------------------------------------------

class _Cur:
    def __init__(self, line, pos):
        self.l, self.i = line, pos

    def take(self):
        if self.i >= len(self.l):
            raise DecodeError("output line ends early (at %d)" % self.i)
        v = self.l[self.i]
        self.i += 1
        return v

    def take_n(self, n):
        if self.i + n > len(self.l):
            raise DecodeError("output line ends early (need %d numbers at %d of %d)" % (n, self.i, len(self.l)))
        v = self.l[self.i:self.i + n]
        self.i += n
        return v

    def end(self):
        if self.i != len(self.l):
            raise DecodeError("%d trailing numbers in the output line" % (len(self.l) - self.i))


def _dec_first(c):
    return [tuple(c.take_n(2)) for _ in range(c.take())]


def _dec_pairs(c):
    return [tuple(c.take_n(2)) for _ in range(c.take())]


def _dec_entry(c):
    t, kind = c.take(), c.take()
    if kind == 0:
        return (t, ("S", c.take()))
    if kind == 1:
        lhs = c.take()
        return (t, ("R", lhs, tuple(c.take_n(c.take()))))
    if kind == 2:
        if c.take() != 0:
            raise DecodeError("Accept entry with a non-zero argument")
        return (t, ("A",))
    if kind == 3:
        return (t, ("E", c.take()))
    raise DecodeError("action kind %r" % (kind,))


def decode_gen(line):
    """[30, gslot, 1] + enc_gen  ->  dict(ok=True, gslot, first=[(X,o)], states=[[(pcode,dot,la)]],
    gotos=[[(X,j)]], fill=[(conflicting terminals, clash)], action={state: [(t, entry)]},
    goto={state: [(X,j)]}, clean=bool);  [30, gslot, 2, stage] -> dict(ok=False, gslot, stage).
    entry = ("S", j) | ("R", lhs, rhs tuple) | ("A",) | ("E", code)."""
    if not isinstance(line, list) or len(line) < 4 or line[0] != 30:
        raise DecodeError("not an answer to command 30: %r" % (line[:8] if isinstance(line, list) else line,))
    if line[2] == 2:
        if len(line) != 4:
            raise DecodeError("out-of-fuel answer of length %d" % len(line))
        return dict(ok=False, gslot=line[1], stage=line[3])
    if line[2] != 1:
        raise DecodeError("answer status %r" % (line[2],))
    c = _Cur(line, 3)
    m = dict(ok=True, gslot=line[1])
    m["first"] = _dec_first(c)
    m["states"] = [[tuple(c.take_n(3)) for _ in range(c.take())] for _ in range(c.take())]
    m["gotos"] = [_dec_pairs(c) for _ in range(c.take())]
    fill = []
    for _ in range(c.take()):
        conf = c.take_n(c.take())
        clash = c.take()
        if clash not in (0, 1):
            raise DecodeError("clash flag %r" % (clash,))
        fill.append((conf, clash == 1))
    m["fill"] = fill
    action = {}
    for _ in range(c.take()):
        st = c.take()
        if st in action:
            raise DecodeError("two action rows for state %d" % st)
        action[st] = [_dec_entry(c) for _ in range(c.take())]
    m["action"] = action
    goto = {}
    for _ in range(c.take()):
        st = c.take()
        if st in goto:
            raise DecodeError("two goto rows for state %d" % st)
        goto[st] = _dec_pairs(c)
    m["goto"] = goto
    clean = c.take()
    if clean not in (0, 1):
        raise DecodeError("gen_clean flag %r" % (clean,))
    m["clean"] = clean == 1
    c.end()
    return m


def decode_first(line):
    """[31, gslot, 1, first_stable] + enc_first -> dict(ok=True, gslot, stable=bool, first=[(X,o)]);
    [31, gslot, 2] -> dict(ok=False, gslot)."""
    if not isinstance(line, list) or len(line) < 3 or line[0] != 31:
        raise DecodeError("not an answer to command 31: %r" % (line[:8] if isinstance(line, list) else line,))
    if line[2] == 2:
        if len(line) != 3:
            raise DecodeError("out-of-fuel answer of length %d" % len(line))
        return dict(ok=False, gslot=line[1])
    if line[2] != 1 or len(line) < 5 or line[3] not in (0, 1):
        raise DecodeError("answer %r" % (line[:8],))
    c = _Cur(line, 4)
    first = _dec_first(c)
    c.end()
    return dict(ok=True, gslot=line[1], stable=line[3] == 1, first=first)


# ----------------------------------------------------------------------------
# what lr1.Grammar computes
# ----------------------------------------------------------------------------

def _enc_o(I, x):
    return 0 if x is None else I.s(x) + 1


def _textbook_first(prods):
    """FIRST of every nonterminal by the textbook fixpoint (None = epsilon), independent of lr1."""
    nts = set(p.lhs for p in prods)
    first = {x: set() for x in nts}
    changed = True
    while changed:
        changed = False
        for p in prods:
            add, alleps = set(), True
            for x in p.rhs:
                fx = first[x] if x in nts else {x}
                add |= fx - {None}
                if None not in fx:
                    alleps = False
                    break
            if alleps:
                add.add(None)
            if not add <= first[p.lhs]:
                first[p.lhs] |= add
                changed = True
    return first


def first_view(start, prods, I, grammar=None):
    """dict(names, nts=[X], firsts={X: frozenset(o)}, first_fn={X: frozenset(o)} (Grammar._first((X,))),
    first_ref={X: frozenset(o)} (textbook fixpoint), lr1=[notes where lr1 deviates from the textbook])"""
    from compiler.front_end import lr1
    prods = list(prods)
    g = grammar if grammar is not None else lr1.Grammar(start, list(prods))
    nts = sorted(set(p.lhs for p in prods))
    v = dict(names=I.sym_names, start=start, prods=[(p.lhs, tuple(p.rhs)) for p in prods], lr1=[])
    v["nts"] = [I.s(x) for x in nts]
    v["firsts"] = {I.s(x): frozenset(_enc_o(I, f) for f in g.firsts[x]) for x in nts}
    v["first_fn"] = {I.s(x): frozenset(_enc_o(I, f) for f in g._first((x,))) for x in nts}
    ref = _textbook_first(prods)
    v["first_ref"] = {I.s(x): frozenset(_enc_o(I, f) for f in ref[x]) for x in nts}
    if set(g.nonterminals) != set(nts) | {lr1.START_PRIME}:
        v["lr1"].append("lr1: Grammar.nonterminals = %r, expected the left-hand sides + S'" % (sorted(g.nonterminals),))
    for x in nts:
        if v["firsts"][I.s(x)] != v["first_ref"][I.s(x)]:
            v["lr1"].append("lr1: Grammar.firsts[%s] = %s but the textbook FIRST fixpoint gives %s"
                            % (x, _fmt_os(v, v["firsts"][I.s(x)]), _fmt_os(v, v["first_ref"][I.s(x)])))
    v["grammar_object"] = g
    return v


def python_view(start, prods, I):
    """Everything the comparison needs from lr1.Grammar(start, list(prods)), with symbols interned
    through I:  the keys of first_view plus
      nsyms, closure0=frozenset(items), states=[frozenset(items)], n_items, goto_all={i: {X: j}},
      nonterminals=set of numbers (incl. S'), eoi, raised (None | 'accept-assert' | 'exception:...'),
      parser (None when parser() raised, else dict(action={i: {t: entry}}, goto={i: {X: j}},
      conflicts={(i, t): set(entries)}))
    parser() is called FIRST, on the fresh Grammar object, exactly as c08.small_grammar_cases and
    the compiler do, so that the hash-order dependent outcome is the one the run observed."""
    from compiler.front_end import lr1
    prods = list(prods)
    g = lr1.Grammar(start, list(prods))
    parser, raised = None, None
    try:
        parser = g.parser()
    except AssertionError as ex:
        fr = traceback.extract_tb(ex.__traceback__)[-1]
        if "END_OF_INPUT, new_action) == new_action" in (fr.line or ""):
            raised = "accept-assert"
        else:
            raised = "exception:AssertionError@%s:%s" % (fr.name, fr.lineno)
    except Exception as ex:      # noqa: an observation about lr1, reported by compare
        fr = traceback.extract_tb(ex.__traceback__)[-1]
        raised = "exception:%s@%s:%s" % (type(ex).__name__, fr.name, fr.lineno)
    v = first_view(start, prods, I, grammar=g)
    del v["grammar_object"]
    v["raised"] = raised
    v["eoi"] = I.s(lr1.END_OF_INPUT)
    v["nsyms"] = len(g.symbols)
    v["nonterminals"] = set(I.s(x) for x in g.nonterminals)
    pos = {(p.lhs, tuple(p.rhs)): k for k, p in enumerate(prods)}
    seedkey = (lr1.START_PRIME, (start,))

    def item(it):
        if not isinstance(it, lr1.Item):
            raise DecodeError("item set contains %r" % (it,))
        key = (it.production.lhs, tuple(it.production.rhs))
        if key == seedkey:
            pc = 0
        elif key in pos:
            pc = pos[key] + 1
        else:
            raise DecodeError("item production %r is not in the grammar" % (key,))
        return (pc, it.dot, I.s(it.terminal))

    def iset(s):
        out = frozenset(item(it) for it in s)
        if len(out) != len(s):
            raise DecodeError("two items of one lr1 item set have the same (production, dot, terminal)")
        return out

    def entry(a):
        if isinstance(a, lr1.Shift):
            return ("S", a.state)
        if isinstance(a, lr1.Reduce):
            return ("R", I.s(a.rule.lhs), tuple(I.s(x) for x in a.rule.rhs))
        if isinstance(a, lr1.Accept):
            return ("A",)
        raise DecodeError("action %r is no Shift/Reduce/Accept" % (a,))

    v["closure0"] = iset(g._closure_of_item(g._item_cache[g._seed_production, 0, lr1.END_OF_INPUT]))
    item_sets, goto_table = g._items()
    v["states"] = [iset(s) for s in item_sets]
    v["n_items"] = sum(len(s) for s in item_sets)
    v["goto_all"] = {i: {I.s(x): j for x, j in row.items()} for i, row in goto_table.items() if row}
    v["parser"] = None
    if parser is not None:
        if list(parser.item_sets) != list(item_sets):
            v["lr1"].append("lr1: Parser.item_sets of parser() differ from a second call of _items() on the same Grammar")
        pv = dict(action={}, goto={}, conflicts={})
        for i, row in parser.action.items():
            if row:
                pv["action"][i] = {I.s(t): entry(a) for t, a in row.items()}
        for i, row in parser.goto.items():
            if row:
                pv["goto"][i] = {I.s(x): j for x, j in row.items()}
        for c in parser.conflicts:
            pv["conflicts"].setdefault((c.state, I.s(c.symbol)), set()).update(entry(a) for a in c.actions)
        v["parser"] = pv
    return v


def fuels(view):
    """(ffuel, cfuel, ifuel) for command 30: ffuel 0 = Gen.first_fuel and cfuel 0 = Gen.closure_fuel (bounds
    the Coq side claims / proves to be always enough, so running out of them is a mismatch); a generous
    work-list fuel for the canonical collection, sized from the number of states lr1 itself found."""
    return 0, 0, 4 * len(view["states"]) + 50


# ----------------------------------------------------------------------------
# formatting
# ----------------------------------------------------------------------------

def _name(view, n):
    names = view["names"]
    return names[n] if 0 <= n < len(names) else "<symbol #%d>" % n


def _fmt_o(view, o):
    return "<epsilon>" if o == 0 else _name(view, o - 1)


def _fmt_os(view, s):
    return "{" + ", ".join(sorted(_fmt_o(view, o) for o in s)) + "}"


def _fmt_item(view, it):
    pc, dot, la = it
    if pc == 0:
        lhs, rhs = "S'", (view["start"],)
    elif pc - 1 < len(view["prods"]):
        lhs, rhs = view["prods"][pc - 1]
    else:
        return "[<production #%d> dot %d, %s]" % (pc - 1, dot, _name(view, la))
    rhs = list(rhs)
    return "[%s -> %s, %s]" % (lhs, " ".join(rhs[:dot] + ["."] + rhs[dot:]), _name(view, la))


def _fmt_items(view, s, limit=6):
    l = sorted(s)
    return "{" + "; ".join(_fmt_item(view, it) for it in l[:limit]) + ("; ... %d more" % (len(l) - limit) if len(l) > limit else "") + "}"


def _fmt_entry(view, e, ren=None):
    if e is None:
        return "<none>"
    if e[0] == "S":
        return "Shift(%s)" % (e[1] if ren is None else ren(e[1]))
    if e[0] == "R":
        return "Reduce(%s -> %s)" % (_name(view, e[1]), " ".join(_name(view, x) for x in e[2]) or "<empty>")
    if e[0] == "A":
        return "Accept"
    return "Error(%s)" % (e[1],)


def _fmt_row(view, row):
    return "{" + ", ".join("%s: %s" % (_name(view, x), j) for x, j in sorted(row.items())) + "}"


# ----------------------------------------------------------------------------
# comparison
# ----------------------------------------------------------------------------

def compare_first(view, entries):
    """FIRST entries [(X, o)] of the model vs Grammar.firsts / Grammar._first of the view."""
    d = []
    got = {}
    seen = set()
    for (x, o) in entries:
        if (x, o) in seen:
            d.append("FIRST: the model's table lists (%s, %s) twice" % (_name(view, x), _fmt_o(view, o)))
        seen.add((x, o))
        got.setdefault(x, set()).add(o)
    nts = set(view["nts"])
    for x in sorted(set(got) - nts):
        d.append("FIRST: the model's table has entries %s for %s, which is not a nonterminal of the grammar"
                 % (_fmt_os(view, got[x]), _name(view, x)))
    for x in view["nts"]:
        m = frozenset(got.get(x, ()))
        if m != view["firsts"][x]:
            d.append("FIRST: firsts[%s]: lr1 %s, model %s" % (_name(view, x), _fmt_os(view, view["firsts"][x]), _fmt_os(view, m)))
        if m != view["first_fn"][x]:
            d.append("FIRST: _first((%s,)): lr1 %s, model table %s" % (_name(view, x), _fmt_os(view, view["first_fn"][x]), _fmt_os(view, m)))
    return d


def _row_dict(view, what, k, pairs, d):
    row = {}
    for (x, j) in pairs:
        if x in row:
            d.append("tables: %s row of model state %d has two entries for %s" % (what, k, _name(view, x)))
        row[x] = j
    return row


def compare(view, model):
    """Differences between lr1.Grammar (python_view) and LR.Gen.generate (decode_gen), as strings
    '<aspect>: ...' with aspect in ASPECTS, or 'fuel: ...' / 'lr1: ...' (lr1 itself deviates from the
    textbook definition; then the defect is in lr1.py, not in the model)."""
    d = list(view["lr1"])
    if not model["ok"]:
        if model["stage"] == 1:
            d.append("fuel: the model ran out of fuel in FIRST although Gen.first_fuel was used (claimed to be always enough)")
        else:
            d.append("fuel: the model ran out of fuel in stage %s: closure/goto with Gen.closure_fuel (proved sufficient) or the canonical "
                     "collection with work-list fuel 4 * (number of lr1 states) + 50" % (model["stage"],))
        return d
    eoi = view["eoi"]
    # ---- 1. FIRST
    d += compare_first(view, model["first"])
    # ---- 2. closure of the start item
    mstates = []
    for k, st in enumerate(model["states"]):
        s = frozenset(st)
        if len(s) != len(st):
            d.append("states: model state %d lists an item twice" % k)
        mstates.append(s)
    if not mstates:
        d.append("closure: the model has no state 0")
    elif mstates[0] != view["closure0"]:
        a, b = view["closure0"], mstates[0]
        d.append("closure: closure of [S' -> . %s, $]: only lr1 %s, only model %s"
                 % (view["start"], _fmt_items(view, a - b), _fmt_items(view, b - a)))
    # ---- 3. the set of item sets
    pstates = view["states"]
    pidx = {}
    for i, s in enumerate(pstates):
        if s in pidx:
            d.append("lr1: _items() returns the same item set twice (states %d and %d)" % (pidx[s], i))
        pidx.setdefault(s, i)
    midx = {}
    for k, s in enumerate(mstates):
        if s in midx:
            d.append("states: model states %d and %d are the same item set" % (midx[s], k))
        midx.setdefault(s, k)
    if len(mstates) != len(pstates):
        d.append("states: lr1 has %d states, the model %d" % (len(pstates), len(mstates)))
    only_p = [i for i, s in enumerate(pstates) if s not in midx]
    only_m = [k for k, s in enumerate(mstates) if s not in pidx]
    for i in only_p[:3]:
        d.append("states: lr1 state %d %s is no state of the model" % (i, _fmt_items(view, pstates[i])))
    for k in only_m[:3]:
        d.append("states: model state %d %s is no state of lr1" % (k, _fmt_items(view, mstates[k])))
    if len(only_p) > 3 or len(only_m) > 3:
        d.append("states: ... %d lr1-only and %d model-only states in total" % (len(only_p), len(only_m)))
    # ---- internal consistency of the model's sections
    n = len(mstates)
    if len(model["gotos"]) != n or len(model["fill"]) != n:
        d.append("tables: the model has %d states but %d goto rows and %d fill records" % (n, len(model["gotos"]), len(model["fill"])))
    mconf_any = any(conf for conf, _ in model["fill"])
    mclash_any = any(clash for _, clash in model["fill"])
    if model["clean"] != (not mconf_any and not mclash_any):
        d.append("verdict: gen_clean = %s but the model's fill section has conflicts=%s clash=%s" % (model["clean"], mconf_any, mclash_any))
    # ---- 4. tables up to the renaming pi
    if not only_p and not only_m and len(mstates) == len(pstates) and len(model["gotos"]) == n and len(model["fill"]) == n:
        pi = [pidx[s] for s in mstates]
        if pi and pi[0] != 0:
            d.append("tables: the model's state 0 corresponds to lr1 state %d (not the start state)" % pi[0])

        def ren(j):
            return pi[j] if 0 <= j < n else "<model state #%d>" % j

        # goto table of _items (all symbols)
        for k in range(n):
            row = _row_dict(view, "goto (_items)", k, model["gotos"][k], d)
            mrow = {x: ren(j) for x, j in row.items()}
            prow = view["goto_all"].get(pi[k], {})
            if mrow != prow:
                d.append("tables: goto table of _items, lr1 state %d (model %d): lr1 %s, model (renamed) %s"
                         % (pi[k], k, _fmt_row(view, prow), _fmt_row(view, mrow)))
        # trimmed goto
        if view["parser"] is not None:
            pgoto = view["parser"]["goto"]
        else:
            pgoto = {}
            for i, row in view["goto_all"].items():
                r = {x: j for x, j in row.items() if x in view["nonterminals"]}
                if r:
                    pgoto[i] = r
        mgoto = {}
        for k, pairs in model["goto"].items():
            if not (0 <= k < n):
                d.append("tables: the model's goto map has a row for state %d, which does not exist" % k)
                continue
            row = _row_dict(view, "goto map", k, pairs, d)
            if row:
                mgoto[pi[k]] = {x: ren(j) for x, j in row.items()}
        for i in sorted(set(pgoto) | set(mgoto)):
            if pgoto.get(i, {}) != mgoto.get(i, {}):
                d.append("tables: Parser.goto[%d]: lr1 %s, model (renamed) %s"
                         % (i, _fmt_row(view, pgoto.get(i, {})), _fmt_row(view, mgoto.get(i, {}))))
        # conflicts and actions
        mcells = set()
        for k, (conf, clash) in enumerate(model["fill"]):
            for t in conf:
                mcells.add((pi[k], t))
            if clash:
                # the model saw a different action in the '$' cell before Accept: in lr1 this is the
                # AssertionError, or (other iteration order) a Conflict on that cell
                mcells.add((pi[k], eoi))
        if view["parser"] is not None:
            pcells = set(view["parser"]["conflicts"])
            if pcells != mcells:
                def cells(s):
                    return "{" + ", ".join("(%d, %s)" % (i, _name(view, t)) for i, t in sorted(s)[:8]) + "}"
                d.append("tables: cells with a Conflict (lr1 state, terminal): only lr1 %s, only model %s"
                         % (cells(pcells - mcells), cells(mcells - pcells)))
            paction = view["parser"]["action"]
            maction = {}
            for k, ents in model["action"].items():
                if not (0 <= k < n):
                    d.append("tables: the model's action map has a row for state %d, which does not exist" % k)
                    continue
                row = {}
                for (t, e) in ents:
                    if t in row:
                        d.append("tables: action row of model state %d has two entries for %s" % (k, _name(view, t)))
                    row[t] = ("S", ren(e[1])) if e[0] == "S" else e
                if row:
                    maction[pi[k]] = row
            for i in sorted(set(paction) | set(maction)):
                prow, mrow = paction.get(i, {}), maction.get(i, {})
                if bool(prow) != bool(mrow):
                    d.append("tables: action row of lr1 state %d exists only in %s" % (i, "lr1" if prow else "the model"))
                for t in sorted(set(prow) | set(mrow)):
                    pe, me = prow.get(t), mrow.get(t)
                    if (i, t) in pcells:
                        # order dependent survivor: any action lr1 names for this cell is accepted
                        allowed = set(view["parser"]["conflicts"][(i, t)])
                        if pe is not None:
                            allowed.add(pe)
                        if me not in allowed:
                            d.append("tables: action[%d][%s] (conflicting cell): model %s is none of lr1's %s"
                                     % (i, _name(view, t), _fmt_entry(view, me),
                                        ", ".join(sorted(_fmt_entry(view, e) for e in allowed))))
                    elif pe != me:
                        d.append("tables: action[%d][%s]: lr1 %s, model (renamed) %s"
                                 % (i, _name(view, t), _fmt_entry(view, pe), _fmt_entry(view, me)))
    # ---- 5. verdict
    pclean = view["parser"] is not None and not view["parser"]["conflicts"]
    if model["clean"] != pclean:
        d.append("verdict: lr1 %s, but gen_clean = %s"
                 % ("returned a parser without conflicts" if pclean else
                    ("raised (%s)" % view["raised"] if view["parser"] is None else
                     "reports %d conflicting cells" % len(view["parser"]["conflicts"])), model["clean"]))
    if view["raised"] == "accept-assert":
        accept_item = (0, 1, eoi)
        ok = False
        for k, (conf, clash) in enumerate(model["fill"]):
            if clash or (k < len(mstates) and accept_item in mstates[k] and eoi in conf):
                ok = True
        if not ok:
            d.append("verdict: lr1 raised the Accept AssertionError but the model has neither the clash flag nor a conflict "
                     "on '$' in the state containing [S' -> %s ., $]" % view["start"])
    elif view["raised"] is not None:
        d.append("verdict: lr1.Grammar.parser() raised %s, which the model does not know" % view["raised"])
    return d


def aspects_of(diffs):
    """set of ASPECTS touched by a difference list; a difference outside the five aspects
    (fuel, lr1, decode) counts against all of them."""
    out = set()
    for s in diffs:
        a = s.split(":", 1)[0]
        if a in ASPECTS:
            out.add(a)
        else:
            out.update(ASPECTS)
    return out


# ----------------------------------------------------------------------------
# certificates of LR/GenCert2.v (LR/GenExec.certify, evaluated inside Coq by fw.CoqCases)
# ----------------------------------------------------------------------------

def productivity_view(prods, I):
    """[(X, round)] in the order LR.GenCert2.prod_marks marks the nonterminals: round k marks, in the order
    of the production list and each once, the left-hand sides not yet marked that have a production whose
    nonterminals were all marked in earlier rounds; (marks, unproductive nonterminals)."""
    prods = list(prods)
    nts = set(p.lhs for p in prods)
    rank = {}
    order = []
    k = 0
    while True:
        k += 1
        new = []
        for p in prods:
            if p.lhs in rank or p.lhs in new:
                continue
            if all((x not in nts) or (x in rank) for x in p.rhs):
                new.append(p.lhs)
        if not new:
            break
        for x in new:
            rank[x] = k
            order.append(x)
    return [(I.s(x), rank[x]) for x in order], sorted(nts - set(rank))


def _coq_lines(lines):
    return "[ " + "; ".join("[" + "; ".join(str(int(n)) for n in l) + "]" for l in lines) + " ]"


def certify_case(start, prods, tab, slot, view, I, eoi, sp, table_lines):
    """(input term, expected term) for LR.GenExec.certify on one grammar whose parser lr1 built:
    input  = (definition lines of lr1's tables + item cores in `slot`, grammar slot, table slot, eoi, S', collection fuel)
    output = lr1_certify ++ gen_certify, see LR/GenExec.v.
    Expected: the known-suffix certificate built from lr1's own item sets validates lr1's own tables (1), the
    rank certificate is accepted iff every nonterminal is productive; on the model's tables check_sound and
    check_early hold (theorems generate_pass_check_sound / generate_pass_check_early), all_productive and
    check_productive (pcert_of) = productive, gen_clean = (lr1 returned a parser without conflicts), and the
    marks equal productivity_view."""
    prods = list(prods)
    need = set(I.p(p) for p in prods) | set(tab.prods)
    for st in tab.action:
        for e in tab.action[st]:
            if e[1] == 1:
                need.add(e[2])
    plines = [[2, k, I.sym[l]] + [I.sym[x] for x in r] for k, (l, r) in enumerate(I.prod_vals) if k in need]
    lines = plines + [l for l in table_lines(tab, slot, I, eoi, tab.item_lines)]
    lines.append([9, slot, I.s(start)] + [I.p(p) for p in prods])
    marks, unproductive = productivity_view(prods, I)
    productive = 0 if unproductive else 1
    clean = 1 if (view["parser"] is not None and not view["parser"]["conflicts"]) else 0
    sf = fuels(view)[2]
    expect = [1, productive, 1, 1, 1, productive, productive, clean, len(marks)]
    for x, r in marks:
        expect += [x, r]
    inp = "(%s, %d, %d, %d, %d, %d)" % (_coq_lines(lines), slot, slot, eoi, sp, sf)
    return inp, "[" + "; ".join(str(n) for n in expect) + "]", dict(expect=expect, marks=marks, unproductive=unproductive)
