"""C12 generator: .emb modules from a random scope tree, with every reference's
intended target known BY CONSTRUCTION.

The generator first builds an abstract tree (modules, declared/inline/anonymous
types, fields with abbreviations, parameters, enum values, virtual fields,
imports with aliases), drawing names from small pools so that names are reused
across sibling and nested scopes.  References are then made target-first (pick a
definition, spell a path that designates it under the language's scoping rules)
or fault-first (a spelling that the rules say is undefined / ambiguous / not
allowed).  `Oracle` is an independent executable statement of the scoping rules
(own scope: every name; enclosing types, module, prelude: type names and import
aliases only; after a dot: members of the referenced definition; abbreviations
and `this` never from outside), used to label each emitted reference with its
intended target or intended error and each scope with its intended duplicate
errors.  Nothing here imports the compiler.

Hoisting rule taken from the implementation (module_ir._inline_type_field): the
type made by an inline `struct`/`bits`/`enum` field, and by an anonymous `bits`,
becomes a subtype of the nearest *declared* enclosing type.
"""

FIELD_NAMES = ["xa", "xb", "xc", "xd", "ya", "yb", "yc", "za"]
ABBRS = ["a", "b", "c", "xa", "xb", "q"]
TYPE_NAMES = ["Aa", "Bb", "Cc", "Xa", "Xb", "Ya"]
VALUE_NAMES = ["VA", "VB", "VC"]
ALIASES = ["ia", "ib", "xa"]
PRELUDE = ["UInt", "Int", "Bcd", "Flag", "Float"]


def camel(s):
    return "".join(p.capitalize() for p in s.split("_"))


class Mod:
    def __init__(self, file):
        self.file = file
        self.types = []          # declared top-level types, textual order
        self.imports = []        # (alias, Mod, line)
        self.attr_refs = []      # references in module-level attributes
        self.is_mod = True

    def path(self):
        return []

    def mod(self):
        return self


class Ty:
    def __init__(self, kind, name, lex_parent, inline=False, anon=False):
        self.kind = kind         # struct | bits | enum
        self.name = name
        self.lex_parent = lex_parent     # Ty or Mod where it is written
        self.inline, self.anon = inline, anon
        self.decl_parent = None          # Ty or Mod whose scope holds it (after hoisting)
        self.declared = []       # declared subtypes, textual order
        self.hoisted = []        # inline/anonymous types hoisted into this (declared) type, field order
        self.fields = []
        self.values = []         # (name, line, expr or None)
        self.params = []         # (name, type spelling or None, Ref)
        self.line = 0
        self.index = 0
        self.is_mod = False
        self.anon_rank = None
        self.attr_refs = []      # struct-level [requires] references

    def subtypes(self):
        return self.declared + self.hoisted

    def path(self):
        return self.decl_parent.path() + [self.name]

    def mod(self):
        return self.decl_parent.mod()

    def nearest_declared(self):
        t = self
        while not t.is_mod and (t.inline or t.anon):
            t = t.lex_parent
        return t


class Fd:
    def __init__(self, name, owner):
        self.name, self.owner = name, owner
        self.abbr = None
        self.line = 0
        self.kind = "scalar"     # scalar | typed | array | inline | anon | vconst | valias | vexpr
        self.typ = None          # Ty for typed/inline/anon; prelude name for scalar
        self.tref = None         # Ref of the type reference
        self.refs = []           # other references on the field's lines (expressions, attributes)
        self.expr = None         # text of a virtual field's expression
        self.alias_of = None     # Ref (field path) for valias
        self.attr = None         # (text, [Ref]) field-level attribute
        self.cond = None         # (text, [Ref]) existence condition
        self.hoisted_alias = False   # alias of an anonymous-bits subfield, made by the compiler
        self.alias_target = None
        self.typ_resolved = None


class Ref:
    """One emitted reference."""

    def __init__(self, kind, names, site, attr_field=None, local=False):
        self.kind = kind         # type | const | field
        self.names = names       # list of spelled components
        self.site = site         # Ty
        self.attr_field = attr_field     # Fd when inside a field-level attribute
        self.local = local
        self.line = 0
        self.intended = None     # filled by the Oracle: ("ok", file, path) | ("err", kind, name) | ("crash-param",)
        self.fault = None

    def text(self):
        return ".".join(self.names)


# ----------------------------------------------------------------------------
# Oracle: the scoping rules, executable
# ----------------------------------------------------------------------------

class Entry:
    def __init__(self, name, vis, kind, obj, line, phase, canon):
        self.name, self.vis, self.kind, self.obj, self.line, self.phase = name, vis, kind, obj, line, phase
        self.canon = canon       # (file, path) the name stands for


class Oracle:
    def __init__(self, mods, prelude_types):
        self.mods = mods
        self.prelude = prelude_types

    # the names a scope holds, in insertion order (types, values, fields, parameters)
    def entries(self, scope):
        out = []
        if scope == "prelude":
            return [Entry(n, "S", "ptype", n, 0, 1, ("", [n])) for n in self.prelude]
        if isinstance(scope, tuple):                     # ("field", Fd): only `this`
            fd = scope[1]
            return [Entry("this", "P", "this", fd, 0, 3, (fd.owner.mod().file, fd.owner.path() + [fd.name]))]
        f = scope.mod().file
        if scope.is_mod:
            for t in scope.types:
                out.append(Entry(t.name, "S", "type", t, t.line, 1, (f, [t.name])))
            for (alias, m, line) in scope.imports:
                out.append(Entry(alias, "S", "import", m, line, 5, (m.file, [])))
            return out
        p = scope.path()
        for t in scope.subtypes():
            out.append(Entry(t.name, "S", "type", t, t.line, 1, (f, p + [t.name])))
        for (n, line, _) in scope.values:
            out.append(Entry(n, "L", "value", (scope, n), line, 2, (f, p + [n])))
        for fd in self.fields_of(scope):
            out.append(Entry(fd.name, "L", "field", fd, fd.line, 3, (f, p + [fd.name])))
            if fd.abbr:
                out.append(Entry(fd.abbr, "P", "abbr", fd, fd.line, 3, (f, p + [fd.name])))
        for (n, _, r) in scope.params:
            out.append(Entry(n, "L", "param", (scope, n), scope.line, 4, (f, p + [n])))
        return out

    def fields_of(self, ty):
        """fields in the type's scope: its own, plus the compiler-made aliases of the
        subfields of its anonymous bits (right after the anonymous field)"""
        out = []
        for fd in ty.fields:
            out.append(fd)
            if fd.kind == "anon":
                for sub in fd.typ.fields:
                    al = Fd(sub.name, ty)
                    al.abbr, al.line, al.kind, al.hoisted_alias = sub.abbr, sub.line, "valias", True
                    al.alias_target = sub
                    out.append(al)
        return out

    def duplicates(self, scope):
        """intended duplicate-name errors of one scope: every later namesake"""
        seen, errs = {}, []
        for e in self.entries(scope):
            if e.name in seen:
                errs.append(("KDup", e.line, e.name))
            else:
                seen[e.name] = e
        return errs

    def chain(self, ref):
        t = ref.site
        ch = []
        if ref.attr_field is not None:
            ch.append(("field", ref.attr_field))
        while not t.is_mod:
            ch.append(t)
            t = t.decl_parent
        ch.append(t)
        ch.append("prelude")
        return ch

    def visible(self, ref, name):
        ch = self.chain(ref)
        out = []
        for i, s in enumerate(ch):
            for e in self.entries(s):
                if e.name == name and (i == 0 or e.vis == "S"):
                    out.append(e)
                    break        # one entry per scope (a second one is a duplicate error)
        return out

    def child(self, entry, name):
        """the definition called `name` inside the definition `entry` (any visibility: the
        dotted tail of a type/constant reference), or None"""
        if entry.kind in ("type", "import"):
            for e in self.entries(entry.obj):
                if e.name == name:
                    return e
        if entry.kind == "field" and name == "this":
            return None
        return None

    def type_of_field(self, fd):
        """('ty', Ty) | ('prelude', name) | ('array',) | ('virtual-other',) | ('alias', Fd...)"""
        if fd.hoisted_alias:
            return self.type_of_field(fd.alias_target)
        if fd.kind in ("typed", "inline", "anon"):
            return ("ty", fd.typ) if fd.typ_resolved is None else fd.typ_resolved
        if fd.kind == "scalar":
            return ("prelude", fd.typ)
        if fd.kind == "array":
            return ("array",)
        if fd.kind in ("vconst", "vexpr"):
            return ("virtual-other",)
        if fd.kind == "valias":
            return ("alias", fd.alias_of)
        raise AssertionError(fd.kind)

    def resolve_head(self, ref, name):
        vs = self.visible(ref, name)
        if not vs:
            return ("err", "KMissing", name)
        if ref.local:
            return ("entry", vs[0])
        if len(vs) > 1:
            return ("err", "KAmbig", name)
        return ("entry", vs[0])

    def resolve_static(self, ref):
        """type and constant references: head by visibility, tail by children"""
        h = self.resolve_head(ref, ref.names[0])
        if h[0] == "err":
            return h
        e = h[1]
        for n in ref.names[1:]:
            c = self.child(e, n)
            if c is None:
                return ("err", "KMissing", n)
            e = c
        if e.kind == "import":                      # a module by itself is not an object
            return ("err", "KModule", ref.names[-1])
        return ("ok", e.canon[0], e.canon[1], e)

    def member_of_type(self, tinfo, name):
        if tinfo[0] == "ty":
            ty = tinfo[1]
            for e in self.entries(ty):
                if e.name == name and e.kind in ("param",):
                    return e
            for e in self.entries(ty):
                if e.name == name and e.kind in ("field", "value"):
                    return e
            for e in self.entries(ty):
                if e.name == name and e.kind == "type":
                    return e
            return None
        return None

    def resolve_field_path(self, ref, depth=0):
        """field references: head by visibility, then members of the referenced field's type"""
        if depth > 50:
            return ("cycle",)
        h = self.resolve_head(ref, ref.names[0])
        if h[0] == "err":
            return h
        e = h[1]
        if e.kind == "import":                      # the head alone names an imported module
            return ("err", "KModule", ref.names[0])
        prev_name = ref.names[0]
        cur = e
        for n in ref.names[1:]:
            # strip aliases
            guard = 0
            while True:
                guard += 1
                if guard > 50:
                    return ("cycle",)
                if cur.kind == "param":                  # a parameter (named directly or through an alias) has no members
                    return ("err", "KNoncomposite", prev_name)
                if cur.kind in ("type", "ptype", "value"):
                    return ("crash-other",)
                fd = cur.obj
                ti = self.type_of_field(fd)
                if ti[0] == "alias":
                    sub = ti[1]
                    if isinstance(sub, Fd):     # compiler-made alias of an anonymous-bits subfield
                        own = sub.owner
                        cur = Entry(sub.name, "L", "field", sub, sub.line, 3, (own.mod().file, own.path() + [sub.name]))
                        continue
                    r = self.resolve_field_path(sub, depth + 1)
                    if r[0] != "ok":
                        return ("silent",)
                    cur = r[3]
                    continue
                break
            if ti[0] == "virtual-other":
                return ("err", "KNoncomposite", prev_name)
            if ti[0] == "array":
                return ("err", "KArray", prev_name)
            if ti[0] == "unresolved":
                return ("silent",)
            if ti[0] == "prelude":
                return ("err", "KMissing", n)
            m = self.member_of_type(ti, n)
            if m is None:
                return ("err", "KMissing", n)
            cur = m
            prev_name = n
        return ("ok", cur.canon[0], cur.canon[1], cur)

    def label(self, ref):
        if ref.kind in ("type", "const"):
            r = self.resolve_static(ref)
        else:
            r = self.resolve_field_path(ref)
        ref.intended = r
        return r


# ----------------------------------------------------------------------------
# Generator
# ----------------------------------------------------------------------------

FAULTS = ["undefined-head", "undefined-type", "undefined-member", "dup-field", "dup-type", "dup-value",
          "dup-param-field", "dup-abbr", "dup-import", "two-scopes-type", "two-scopes-prelude",
          "two-scopes-alias-field", "abbr-outside-nested", "abbr-outside-member", "abbr-outside-static",
          "member-of-array", "member-of-scalar", "member-of-virtual", "field-attr-other-field",
          "outer-field-from-nested", "param-member", "module-as-value", "module-attr-undefined",
          "inline-type-then-bare-name", "two-scopes-prelude-nested", "inline-type-prelude-name"]


class Gen:
    def __init__(self, rng, fault=None, big=False):
        self.r = rng
        self.fault = fault
        self.big = big
        self.counter = 0
        self.all_types = []
        self.refs = []
        self.fault_applied = False
        self.anon_count = {}
        self._fx = None
        self.main = Mod("m.emb")
        self.mods = [self.main]
        n_imp = rng.choice([0, 0, 1, 1, 2])
        if fault in ("dup-import", "two-scopes-alias-field", "module-as-value"):
            n_imp = max(n_imp, 2 if fault == "dup-import" else 1)
        used = []
        for k in range(n_imp):
            m = Mod("%s.emb" % "ab"[k])
            self.mods.append(m)
        # imported modules are built first so that the main module can use their types
        for m in self.mods[1:]:
            self.build_module(m, n_types=rng.randint(1, 3), depth=1)
        for m in self.mods[1:]:
            pool = [a for a in ALIASES if a not in used] or ALIASES
            alias = rng.choice(pool[:2]) if fault != "two-scopes-alias-field" else "xa"
            if fault == "dup-import" and used:
                alias = used[0]
                self.fault_applied = True
            used.append(alias)
            self.main.imports.append((alias, m, 0))
        self.build_module(self.main, n_types=rng.randint(2, 5 if big else 4), depth=3 if big else 2)
        self.oracle = Oracle(self.mods, PRELUDE)
        self.make_references()
        self.lines = {}
        self.texts = {m.file: self.emit(m) for m in self.mods}
        self.finish_labels()

    # -- tree -------------------------------------------------------------------
    def fresh(self, pool, taken, p_reuse=0.0):
        c = [n for n in pool if n not in taken]
        if not c:
            self.counter += 1
            return pool[0] + str(self.counter) if pool[0][0].islower() else pool[0] + "x" + "abcdefghij"[self.counter % 10]
        return self.r.choice(c)

    def build_module(self, m, n_types, depth):
        for _ in range(n_types):
            taken = [t.name for t in m.types]
            kind = self.r.choice(["struct", "struct", "bits", "enum"])
            t = Ty(kind, self.fresh(TYPE_NAMES, taken), m)
            t.decl_parent = m
            m.types.append(t)
            self.build_type(t, depth)
        if self.fault == "dup-type" and m is self.main and len(m.types) >= 2:
            m.types[-1].name = m.types[0].name
            self.fault_applied = True

    def earlier_types(self, t):
        """types that may be the type of a field of t (created before t; keeps containment acyclic)"""
        return [u for u in self.all_types if u.index < t.index and not u.anon]

    def build_type(self, t, depth):
        r = self.r
        if t.kind == "enum":
            t.index = len(self.all_types)
            self.all_types.append(t)
            for _ in range(r.randint(1, 3)):
                n = self.fresh(VALUE_NAMES, [v[0] for v in t.values])
                t.values.append((n, 0, None))
            if self.fault == "dup-value" and not self.fault_applied and len(t.values) >= 1 and t.mod() is self.main:
                t.values.append((t.values[0][0], 0, None))
                self.fault_applied = True
            return
        # declared subtypes first (they get smaller indices, so fields of t may use them)
        if depth > 0 and not t.inline and not t.anon:
            for _ in range(r.choice([0, 0, 1, 1, 2])):
                kind = r.choice(["struct", "bits", "enum", "enum"])
                s = Ty(kind, self.fresh(TYPE_NAMES, [u.name for u in t.declared], 0), t)
                s.decl_parent = t
                t.declared.append(s)
                self.build_type(s, depth - 1)
        if t.kind == "struct" and not t.inline and not t.anon and r.random() < 0.35:
            for _ in range(r.randint(1, 2)):
                n = self.fresh(["pa", "pb", "xa"], [p[0] for p in t.params])
                t.params.append((n, None, None))
        n_fields = r.randint(1, 5 if self.big else 4)
        for k in range(n_fields):
            self.build_field(t, depth)
        t.index = len(self.all_types)
        self.all_types.append(t)

    def build_field(self, t, depth):
        r = self.r
        host = t.nearest_declared()
        taken = [f.name for f in t.fields] + [p[0] for p in t.params]
        avoid = r.random() > 0.06            # mostly avoid accidental duplicates; some are wanted
        if avoid:
            taken += [f.abbr for f in t.fields if f.abbr]
            for f in t.fields:
                if f.kind == "anon":
                    taken += [g.name for g in f.typ.fields] + [g.abbr for g in f.typ.fields if g.abbr]
            if t.anon:
                up = t.lex_parent
                taken += [f.name for f in up.fields] + [f.abbr for f in up.fields if f.abbr] + [p[0] for p in up.params]
        name = self.fresh(FIELD_NAMES, taken)
        fd = Fd(name, t)
        if r.random() < 0.3:
            fd.abbr = self.fresh(ABBRS, taken + [name] + [f.abbr for f in t.fields if f.abbr])
        k = r.random()
        if avoid and 0.63 <= k < 0.80 and not host.is_mod and camel(name) in [u.name for u in host.subtypes()]:
            free = [n for n in FIELD_NAMES if n not in taken and camel(n) not in [u.name for u in host.subtypes()]]
            if free:
                name = r.choice(free)
                fd.name = name
            else:
                k = 0.0
        if k < 0.35:
            fd.kind, fd.typ = "scalar", r.choice(["UInt", "UInt", "Int", "Bcd"] if t.kind != "bits" else ["UInt", "Flag"])
        elif k < 0.55 and self.all_types:
            fd.kind = "typed"
            fd.typ = r.choice(self.all_types)       # final choice (visibility) is made in make_references
        elif k < 0.63:
            fd.kind, fd.typ = "array", "UInt"
        elif k < 0.80 and depth >= 0:
            fd.kind = "inline"
            kind = r.choice(["struct", "bits", "enum"] if t.kind == "struct" else ["bits", "enum"])
            s = Ty(kind, camel(name), t, inline=True)
            s.decl_parent = host
            host.hoisted.append(s)
            fd.typ = s
            self.build_type(s, depth - 1 if kind != "enum" else 0)
        elif k < 0.88 and t.kind == "struct" and not t.anon and not t.inline:
            fd.kind = "anon"
            fd.abbr = None
            mf = host.mod().file
            rank = self.anon_count.get(mf, 0)
            self.anon_count[mf] = rank + 1
            s = Ty("bits", "EmbossReservedAnonymousField#%d" % rank, t, anon=True)
            s.anon_rank = rank
            s.decl_parent = host
            host.hoisted.append(s)
            fd.typ = s
            fd.name = "emboss_reserved_anonymous_field_#%d" % rank
            # subfields: scalars and inline enums only
            for _ in range(r.randint(1, 3)):
                tk = [f.name for f in s.fields] + [f.name for f in t.fields if f.kind != "anon"] + taken
                sub = Fd(self.fresh(FIELD_NAMES, tk), s)
                if r.random() < 0.3:
                    sub.abbr = self.fresh(ABBRS, tk + [sub.name] + [f.abbr for f in t.fields + s.fields if f.abbr])
                if r.random() < 0.3 and (not avoid or camel(sub.name) not in [u.name for u in host.subtypes()]):
                    sub.kind = "inline"
                    e = Ty("enum", camel(sub.name), s, inline=True)
                    e.decl_parent = host
                    host.hoisted.append(e)
                    sub.typ = e
                    self.build_type(e, 0)
                else:
                    sub.kind, sub.typ = "scalar", r.choice(["UInt", "Flag"])
                s.fields.append(sub)
            s.index = len(self.all_types)
            self.all_types.append(s)
        elif k < 0.93:
            fd.kind, fd.expr = "vconst", str(r.randint(0, 9))
            fd.abbr = None
        else:
            fd.kind = "vexpr" if t.fields else "vconst"
            fd.expr = str(r.randint(0, 9))
            fd.abbr = None
        fd.typ_resolved = None
        t.fields.append(fd)

    # -- references --------------------------------------------------------------
    def new_ref(self, kind, names, site, attr_field=None, local=False):
        rf = Ref(kind, list(names), site, attr_field, local)
        self.refs.append(rf)
        return rf

    def spell_type(self, site, target):
        """a spelling of `target` (Ty) that starts at a name visible from `site`"""
        r = self.r
        tp = target.path()
        tm = target.mod()
        sm = site.mod()
        if tm is not sm:
            al = [a for (a, m, _) in sm.imports if m is tm]
            if not al:
                return None
            return [al[0]] + tp
        sp = site.path()
        opts = [tp]                                   # from the module scope
        for i in range(1, len(tp)):
            if tp[:i] == sp[:i] and len(sp) >= i:     # tp[i] lives in an enclosing type (or the own type)
                opts.append(tp[i:])
        if r.random() > 0.08:
            probe = Ref("type", ["?"], site)
            good = [o for o in opts if len(self.oracle.visible(probe, o[0])) == 1]
            if not good:
                return None
            return r.choice(good)
        return r.choice(opts)

    def make_references(self):
        r = self.r
        O = self.oracle
        for t in list(self.all_types):
            if t.kind == "enum":
                vals = []
                for i, (n, line, _) in enumerate(t.values):
                    e = None
                    if i > 0 and r.random() < 0.3:
                        rf = self.new_ref("const", [t.values[r.randrange(i)][0]], t)
                        e = rf
                    vals.append((n, line, e))
                t.values = vals
                continue
            # parameter types
            ps = []
            for (n, _, _) in t.params:
                enums = [u for u in self.all_types if u.kind == "enum" and u.index < t.index]
                if enums and r.random() < 0.4:
                    sp = self.spell_type(t, r.choice(enums))
                    if sp:
                        ps.append((n, None, self.new_ref("type", sp, t)))
                        continue
                ps.append((n, "UInt:8", self.new_ref("type", ["UInt"], t)))
            t.params = ps
            for fd in list(t.fields):
                self.field_refs(t, fd)
                if fd.kind == "anon":
                    for sub in fd.typ.fields:
                        self.field_refs(fd.typ, sub)
            if not t.anon and r.random() < 0.3:
                self.add_alias_chain(t)
        for m in self.mods:
            if r.random() < 0.25:                   # [foo: Enum.VALUE] before the first type
                c = self.random_constant(m)
                if c:
                    m.attr_refs.append(self.new_ref("const", c, m))
        self.apply_reference_faults()
        self.add_repeats()

    def scope_names(self, t):
        """every name the scope of t (and, for an anonymous bits, its parent's scope) is asked to hold"""
        names = [e.name for e in self.oracle.entries(t)]
        if t.anon:
            names += [e.name for e in self.oracle.entries(t.lex_parent)]
        return names

    def add_typed(self, t, names, front=False, typ=None):
        """a physical field whose type is spelled `names`, first or last in t"""
        fd = Fd(self.fresh(["ra", "rb", "rc", "rd", "re", "rg"], self.scope_names(t)), t)
        fd.kind, fd.typ, fd.typ_resolved = "typed", typ, None
        fd.tref = self.new_ref("type", list(names), t)
        if front:
            t.fields.insert(0, fd)
        else:
            t.fields.append(fd)
        return fd

    def add_repeats(self):
        """The verdict on a reference must not depend on what was looked up before it: repeat
        references (same spelling, same scope) before and after the existing ones -- in particular
        the bare name of an inline type after (and before) the inline field, whose own synthetic
        is_local_name reference is the one lookup that is resolved by precedence."""
        r = self.r
        pool = [rf for rf in self.refs if not rf.site.is_mod and rf.site.kind != "enum" and rf.attr_field is None
                and not any("#" in n for n in rf.names) and rf.site.mod() is self.main]
        if not pool:
            return
        picks = []
        faulty = [rf for rf in pool if rf.fault or rf.local]
        for _ in range(r.choice([0, 1, 1, 2, 3])):
            picks.append(r.choice(faulty if faulty and r.random() < 0.5 else pool))
        for rf in picks:
            t = rf.site
            for front in ([True, False] if r.random() < 0.4 else [r.random() < 0.5]):
                if rf.kind == "type":
                    self.add_typed(t, rf.names, front=front)
                elif not t.anon:
                    fd, _ = self.add_virtual(t, rf.kind, rf.names, "$present(%s)" if rf.kind == "field" and r.random() < 0.5 else "%s")
                    if front:
                        t.fields.remove(fd)
                        t.fields.insert(0, fd)

    def field_refs(self, t, fd):
        r = self.r
        if fd.kind == "scalar":
            fd.tref = self.new_ref("type", [fd.typ], t)
        elif fd.kind == "array":
            fd.tref = self.new_ref("type", ["UInt"], t)
        elif fd.kind == "typed":
            cands = [u for u in self.earlier_types(t) if u is not t and (u.kind != "enum" or r.random() < 0.3)]
            r.shuffle(cands)
            sp = None
            for u in cands:
                sp = self.spell_type(t, u)
                if sp:
                    fd.typ = u
                    break
            if not sp:
                fd.kind, fd.typ = "scalar", "UInt"
                fd.tref = self.new_ref("type", ["UInt"], t)
            else:
                fd.tref = self.new_ref("type", sp, t)
        elif fd.kind in ("inline", "anon"):
            nm = fd.typ.name if fd.typ.name else None
            fd.tref = self.new_ref("type", [nm], t, local=True)
        # conditions, attributes, virtual expressions
        if fd.kind in ("scalar", "typed", "array") and r.random() < 0.25:
            p = self.random_field_path(t, before=fd)
            if p:
                fd.cond = self.new_ref("field", p, t)
        if fd.kind == "scalar" and r.random() < 0.25:
            fd.attr = self.new_ref("field", ["this"], t, attr_field=fd)
        if fd.kind == "vexpr":
            k = r.random()
            p = self.random_field_path(t, before=fd)
            if p and k < 0.5:
                fd.kind = "valias"
                fd.alias_of = self.new_ref("field", p, t)
            elif p and k < 0.75:
                fd.refs = [self.new_ref("field", p, t)]
                fd.expr = "$present(%s)" % ".".join(p)
            else:
                c = self.random_constant(t)
                if c:
                    fd.refs = [self.new_ref("const", c, t)]
                    fd.expr = ".".join(c)
                else:
                    fd.kind = "vconst"

    def add_alias_chain(self, t):
        """let va = f.g ; let vb = va.h  -- members looked up through a virtual field that aliases a dotted path"""
        r, O = self.r, self.oracle
        c = []
        for f in t.fields:
            if f.kind in ("typed", "inline") and f.typ is not None and f.typ.kind != "enum":
                for g in O.fields_of(f.typ):
                    g0 = g.alias_target if g.hoisted_alias else g
                    if g.kind != "anon" and g0.kind in ("typed", "inline") and g0.typ is not None and g0.typ.kind != "enum":
                        hs = [h for h in O.fields_of(g0.typ) if h.kind != "anon"]
                        if hs:
                            c.append((f, g, hs))
        if not c:
            return
        f, g, hs = r.choice(c)
        fd, _ = self.add_virtual(t, "field", [f.name, g.name])
        self.add_virtual(t, "field", [fd.name, r.choice(hs).name])

    def random_field_path(self, t, before=None, maxlen=3):
        """a (usually valid) path of field names starting in t"""
        r = self.r
        O = self.oracle
        fields = []
        for f in O.fields_of(t):
            if f is before:
                break
            if f.kind != "anon":
                fields.append(f)
        names = [(f.name, f) for f in fields] + [(f.abbr, f) for f in fields if f.abbr]
        names += [(p[0], None) for p in t.params]
        if not names:
            return None
        n, f = r.choice(names)
        path = [n]
        while f is not None and len(path) < maxlen and r.random() < 0.6:
            f0 = f.alias_target if f.hoisted_alias else f
            hops = 0
            while f0 is not None and f0.kind == "valias" and f0.alias_of is not None and hops < 6:
                res = O.resolve_field_path(f0.alias_of)          # members through a virtual alias
                hops += 1
                if res[0] != "ok" or res[3].kind != "field":
                    f0 = None
                    break
                f0 = res[3].obj
                if f0.hoisted_alias:
                    f0 = f0.alias_target
            if f0 is None:
                break
            if f0.kind in ("typed", "inline") and f0.typ is not None and f0.typ.kind != "enum":
                sub = [g for g in O.fields_of(f0.typ) if g.kind != "anon"]
                if not sub:
                    break
                f = r.choice(sub)
                path.append(f.name)
            else:
                break
        return path

    def random_constant(self, t):
        r = self.r
        enums = [u for u in self.all_types if u.kind == "enum" and u.values]
        r.shuffle(enums)
        for u in enums:
            sp = self.spell_type(t, u)
            if sp:
                return sp + [r.choice(u.values)[0]]
        return None

    # -- faults ------------------------------------------------------------------
    def structs_main(self, need_fields=1):
        return [t for t in self.all_types if t.kind in ("struct", "bits") and t.mod() is self.main and not t.anon
                and len([f for f in t.fields if f.kind != "anon"]) >= need_fields]

    def add_virtual(self, t, ref_kind, names, expr_fmt="%s"):
        name = self.fresh(["va", "vb", "vc", "vd", "ve", "vf"], self.scope_names(t))
        fd = Fd(name, t)
        fd.typ_resolved = None
        rf = self.new_ref(ref_kind, names, t)
        if ref_kind == "field" and expr_fmt == "%s":
            fd.kind, fd.alias_of = "valias", rf
        else:
            fd.kind, fd.refs, fd.expr = "vexpr", [rf], expr_fmt % ".".join(names)
        t.fields.append(fd)
        return fd, rf

    def fixture(self):
        """a struct of known shape in the main module, for faults that need a particular context:

            struct Fx(pf: UInt:8):
              struct Fn:
                0 [+1]  UInt  na (nb)
              0 [+1]  UInt  fa (fb)
              1 [+1]  Fn  fc
              2 [+1]  UInt:8[1]  fd
              let fe = 7
        """
        if self._fx is not None:
            return self._fx
        m = self.main
        names = [t.name for t in m.types]
        nm = "Fx" if "Fx" not in names else "Fxx"
        t = Ty("struct", nm, m)
        t.decl_parent = m
        inner = Ty("struct", "Fn", t)
        inner.decl_parent = t
        f = Fd("na", inner)
        f.abbr, f.kind, f.typ = "nb", "scalar", "UInt"
        f.tref = self.new_ref("type", ["UInt"], inner)
        inner.fields.append(f)
        inner.index = len(self.all_types)
        self.all_types.append(inner)
        t.declared.append(inner)
        t.params = [("pf", "UInt:8", self.new_ref("type", ["UInt"], t))]
        fa = Fd("fa", t)
        fa.abbr, fa.kind, fa.typ = "fb", "scalar", "UInt"
        fa.tref = self.new_ref("type", ["UInt"], t)
        fc = Fd("fc", t)
        fc.kind, fc.typ = "typed", inner
        fc.tref = self.new_ref("type", ["Fn"], t)
        fd = Fd("fd", t)
        fd.kind, fd.typ = "array", "UInt"
        fd.tref = self.new_ref("type", ["UInt"], t)
        fe = Fd("fe", t)
        fe.kind, fe.expr = "vconst", "7"
        t.fields = [fa, fc, fd, fe]
        t.index = len(self.all_types)
        self.all_types.append(t)
        m.types.append(t)
        self._fx = t
        return t

    def apply_reference_faults(self):
        r = self.r
        f = self.fault
        if f is None or self.fault_applied:
            return
        ts = self.structs_main()
        use_fx = (not ts) or r.random() < 0.5
        t = self.fixture() if use_fx else r.choice(ts)
        named = [x for x in t.fields if x.kind != "anon"]
        if f == "undefined-head":
            self.add_virtual(t, "field", r.choice([["zz"], ["zz", "xa"], ["this"]]))
        elif f == "undefined-type":
            fd = Fd(self.fresh(FIELD_NAMES, [x.name for x in named] + [p[0] for p in t.params]), t)
            fd.kind, fd.typ, fd.typ_resolved = "typed", None, ("unresolved",)
            fd.tref = self.new_ref("type", r.choice([["Zz"], [t.name, "Zz"], ["Zz", "Aa"], ["ia", "Zz"]]), t)
            t.fields.append(fd)
        elif f == "undefined-member":
            c = [x for x in named if x.kind in ("typed", "inline") and x.typ.kind != "enum"]
            if not c:
                t = self.fixture()
                c = [x for x in t.fields if x.name == "fc"]
            self.add_virtual(t, "field", [r.choice(c).name, "zz"])
        elif f == "dup-field":
            fd = Fd(r.choice(named).name, t)
            fd.kind, fd.typ, fd.typ_resolved = "scalar", "UInt", None
            fd.tref = self.new_ref("type", ["UInt"], t)
            t.fields.append(fd)
        elif f == "dup-abbr":
            fd = Fd(self.fresh(FIELD_NAMES, [x.name for x in named] + [p[0] for p in t.params]), t)
            fd.kind, fd.typ, fd.typ_resolved = "scalar", "UInt", None
            fd.abbr = r.choice(named).name
            fd.tref = self.new_ref("type", ["UInt"], t)
            t.fields.append(fd)
        elif f == "dup-param-field":
            if t.kind != "struct" or t.inline:
                t = self.fixture()
            n = r.choice([x for x in t.fields if x.kind != "anon"]).name
            t.params.append((n, "UInt:8", self.new_ref("type", ["UInt"], t)))
        elif f == "two-scopes-type":
            # a type name visible from an enclosing type and from the module
            c = [u for u in self.all_types if u.mod() is self.main and not u.decl_parent.is_mod
                 and u.decl_parent.kind != "enum" and not u.anon]
            if not c:
                self.fixture()
                c = [u for u in self.all_types if u.name == "Fn"]
            u = r.choice(c)                    # nested type u; make a module-level namesake
            if u.name not in [x.name for x in self.main.types]:
                e = Ty("enum", u.name, self.main)
                e.decl_parent = self.main
                e.values = [("VA", 0, None)]
                e.index = len(self.all_types)
                self.all_types.append(e)
                self.main.types.append(e)
            host = u.decl_parent
            fd = Fd(self.fresh(FIELD_NAMES, [x.name for x in host.fields] + [p[0] for p in host.params]), host)
            fd.kind, fd.typ, fd.typ_resolved = "typed", u, None
            fd.tref = self.new_ref("type", [u.name], host)
            host.fields.append(fd)
        elif f == "two-scopes-prelude":
            e = Ty("enum", "UInt", self.main)
            e.decl_parent = self.main
            e.values = [("VA", 0, None)]
            e.index = len(self.all_types)
            self.all_types.append(e)
            self.main.types.append(e)
        elif f == "two-scopes-prelude-nested":
            # a type declared INSIDE a struct and named like a prelude type, spelled bare from that struct: visible
            # from the struct and from the prelude, whatever the module level holds
            t = self.fixture()
            nm = r.choice(["Int", "UInt", "Flag", "Bcd", "Float"])
            e = Ty("enum", nm, t)
            e.decl_parent = t
            e.values = [("VA", 0, None)]
            e.index = len(self.all_types)
            self.all_types.append(e)
            t.declared.append(e)
            self.add_typed(t, [nm], front=r.random() < 0.3, typ=e)
        elif f == "inline-type-prelude-name":
            # an inline enum on a field called flag / int / bcd / float / u_int: the hoisted type is called like a
            # prelude type; the field's own (is_local_name) reference is the inner type, no ambiguity
            t = self.fixture()
            taken = self.scope_names(t)
            free = [n for n in ["flag", "int", "bcd", "float", "u_int"] if n not in taken
                    and camel(n) not in [u.name for u in t.subtypes()] + [u.name for u in self.main.types]]
            if not free:
                return
            n = r.choice(free)
            fd = Fd(n, t)
            fd.kind = "inline"
            e = Ty("enum", camel(n), t, inline=True)
            e.decl_parent = t
            e.values = [("VA", 0, None)]
            e.index = len(self.all_types)
            self.all_types.append(e)
            t.hoisted.append(e)
            fd.typ = e
            fd.tref = self.new_ref("type", [e.name], t, local=True)
            if r.random() < 0.5:
                t.fields.insert(0, fd)
            else:
                t.fields.append(fd)
        elif f == "two-scopes-alias-field":
            # the import alias is called xa; a field xa is referenced inside its struct
            c = [u for u in ts if "xa" in [x.name for x in u.fields]]
            if c:
                t = r.choice(c)
            else:
                t = self.fixture()
                fd = Fd("xa", t)
                fd.kind, fd.typ, fd.typ_resolved = "scalar", "UInt", None
                fd.tref = self.new_ref("type", ["UInt"], t)
                t.fields.append(fd)
            self.add_virtual(t, "field", ["xa"])
        elif f in ("abbr-outside-nested", "outer-field-from-nested"):
            t = self.fixture()
            inner = t.declared[0]
            self.add_virtual(inner, "field", ["fb" if f == "abbr-outside-nested" else "fa"])
        elif f == "abbr-outside-member":
            c = []
            for u in ts:
                for x in u.fields:
                    if x.kind in ("typed", "inline") and x.typ is not None and x.typ.kind != "enum":
                        ab = [y.abbr for y in x.typ.fields if y.kind != "anon" and y.abbr]
                        ab = [a for a in ab if a not in [y.name for y in self.oracle.fields_of(x.typ)]
                              and a not in [p[0] for p in x.typ.params]]
                        if ab:
                            c.append((u, x, ab))
            if c and not use_fx:
                u, x, ab = r.choice(c)
                self.add_virtual(u, "field", [x.name, r.choice(ab)])
            else:
                self.add_virtual(self.fixture(), "field", ["fc", "nb"])
        elif f == "abbr-outside-static":
            t = self.fixture()
            fd, rf = self.add_virtual(t, "const", ["Fn", "nb"])
            rf.fault = "abbr-outside-static"
        elif f == "member-of-array":
            c = [x for x in named if x.kind == "array"]
            if not c:
                t = self.fixture()
                c = [x for x in t.fields if x.name == "fd"]
            self.add_virtual(t, "field", [r.choice(c).name, "xa"])
        elif f == "member-of-scalar":
            c = [x for x in named if x.kind == "scalar"]
            if not c:
                t = self.fixture()
                c = [x for x in t.fields if x.name == "fa"]
            self.add_virtual(t, "field", [r.choice(c).name, "xa"])
        elif f == "member-of-virtual":
            c = [x for x in named if x.kind == "vconst"]
            if not c:
                t = self.fixture()
                c = [x for x in t.fields if x.name == "fe"]
            self.add_virtual(t, "field", [r.choice(c).name, "xa"])
        elif f == "field-attr-other-field":
            c = [x for x in named if x.kind == "scalar" and x.attr is None]
            if not c or len(named) < 2:
                t = self.fixture()
                named = list(t.fields)
                c = [x for x in named if x.name == "fa"]
            x = r.choice(c)
            o = r.choice([y for y in named if y is not x])
            x.attr = self.new_ref("field", [o.name], t, attr_field=x)
        elif f == "inline-type-then-bare-name":
            # an inline enum whose type name is also a module-level type, then the bare name written out
            # in the same scope: the synthetic is_local_name reference binds to the inner type, the
            # written ones are ambiguous whatever was looked up before them
            host = t
            site = host
            if host.kind == "struct" and not host.inline and r.random() < 0.35:
                # ... inside an anonymous bits of the struct
                afd = [x for x in host.fields if x.kind == "anon"]
                if afd:
                    site = r.choice(afd).typ
            taken = self.scope_names(site) + self.scope_names(host)
            free = [n for n in ["ma", "mb", "mc", "md"] if n not in taken
                    and camel(n) not in [u.name for u in host.subtypes()] + [u.name for u in self.main.types]]
            if not free:
                return
            n = r.choice(free)
            fd = Fd(n, site)
            fd.kind = "inline"
            e = Ty("enum", camel(n), site, inline=True)
            e.decl_parent = host
            e.values = [("VA", 0, None)]
            e.index = len(self.all_types)
            self.all_types.append(e)
            host.hoisted.append(e)
            fd.typ = e
            fd.tref = self.new_ref("type", [e.name], site, local=True)
            site.fields.append(fd)
            outer = Ty("enum", camel(n), self.main)
            outer.decl_parent = self.main
            outer.values = [("VB", 0, None)]
            outer.index = len(self.all_types)
            self.all_types.append(outer)
            self.main.types.append(outer)
            self.add_typed(site, [e.name], front=False, typ=e).tref.fault = "inline-type-then-bare-name"
            if r.random() < 0.3:
                self.add_typed(site, [e.name], front=True, typ=e)
            if r.random() < 0.5 and site is not host:
                self.add_typed(host, [e.name], front=False, typ=e)
        elif f == "module-as-value":
            if not self.main.imports:
                return
            t = self.fixture()
            self.add_virtual(t, "field", [self.main.imports[0][0]] + (["xa"] if r.random() < 0.3 else []))
        elif f == "module-attr-undefined":
            self.main.attr_refs.append(self.new_ref("const", r.choice([["Zz", "VA"], ["VA"], ["Aa", "ZZ"]]), self.main))
        elif f == "param-member":
            c = [u for u in ts if u.params]
            t = r.choice(c) if c and not use_fx else self.fixture()
            self.add_virtual(t, "field", [t.params[0][0], "xa"])
        else:
            return
        self.fault_applied = True

    # -- text ----------------------------------------------------------------------
    def emit(self, m):
        self.out = []
        self.anon_seen = 0
        for i, (alias, im, _) in enumerate(m.imports):
            self.out.append('import "%s" as %s' % (im.file, alias))
            m.imports[i] = (alias, im, len(self.out))
        if m.imports:
            self.out.append("")
        for rf in m.attr_refs:
            self.out.append("[foo: %s]" % rf.text())
            rf.line = len(self.out)
        order = list(m.types)
        for t in order:
            self.emit_type(t, 0)
            self.out.append("")
        return "\n".join(self.out) + "\n"

    def ln(self, s, ind):
        self.out.append("  " * ind + s)
        return len(self.out)

    def place(self, rf, line):
        if rf is not None:
            rf.line = line

    def emit_type(self, t, ind, header=None):
        """declared type (header None) or the body of an inline/anonymous field"""
        if header is None:
            ps = ""
            if t.params:
                ps = "(" + ", ".join("%s: %s" % (n, sp if sp else rf.text()) for (n, sp, rf) in t.params) + ")"
            t.line = self.ln("%s %s%s:" % (t.kind, t.name, ps), ind)
            for (_, _, rf) in t.params:
                self.place(rf, t.line)
        if t.kind == "enum":
            vals = []
            for (n, _, e) in t.values:
                line = self.ln("%s = %s" % (n, e.text() if e else str(len(vals) + 1)), ind + 1)
                self.place(e, line)
                vals.append((n, line, e))
            t.values = vals
            return
        for s in t.declared:
            self.emit_type(s, ind + 1)
        offset = 0
        for fd in t.fields:
            extra = 0
            if fd.cond is not None:
                line = self.ln("if $present(%s):" % fd.cond.text(), ind + 1)
                self.place(fd.cond, line)
                extra = 1
            i2 = ind + 1 + extra
            loc = "%d [+1]" % offset
            if fd.kind == "scalar":
                fd.line = self.ln("%s  %s  %s%s" % (loc, fd.typ, fd.name, self.abbr(fd)), i2)
                self.place(fd.tref, fd.line)
            elif fd.kind == "array":
                fd.line = self.ln("%s  UInt:8[1]  %s%s" % (loc, fd.name, self.abbr(fd)), i2)
                self.place(fd.tref, fd.line)
            elif fd.kind == "typed":
                args = ""
                if fd.typ is not None and fd.typ.params:
                    args = "(" + ", ".join("1" for _ in fd.typ.params) + ")"
                fd.line = self.ln("%s  %s%s  %s%s" % (loc, fd.tref.text(), args, fd.name, self.abbr(fd)), i2)
                self.place(fd.tref, fd.line)
            elif fd.kind == "inline":
                fd.line = self.ln("%s  %s  %s%s:" % (loc, fd.typ.kind, fd.name, self.abbr(fd)), i2)
                fd.typ.line = fd.line
                self.place(fd.tref, fd.line)
                self.emit_type(fd.typ, i2, header=True)
            elif fd.kind == "anon":
                fd.line = self.ln("%s  bits:" % loc, i2)
                fd.typ.line = fd.line
                assert fd.typ.anon_rank == self.anon_seen, "anonymous bits are not emitted in creation order"
                self.anon_seen += 1
                self.place(fd.tref, fd.line)
                self.emit_type(fd.typ, i2, header=True)
            elif fd.kind in ("vconst", "vexpr"):
                fd.line = self.ln("let %s = %s" % (fd.name, fd.expr), ind + 1)
                for rf in fd.refs:
                    self.place(rf, fd.line)
            elif fd.kind == "valias":
                fd.line = self.ln("let %s = %s" % (fd.name, fd.alias_of.text()), ind + 1)
                self.place(fd.alias_of, fd.line)
            if fd.attr is not None:
                if fd.attr.names == ["this"]:
                    line = self.ln("[requires: this < 100]", i2 + 1)
                else:
                    line = self.ln("[requires: %s < 100]" % fd.attr.text(), i2 + 1)
                self.place(fd.attr, line)
            offset += 1

    def abbr(self, fd):
        return " (%s)" % fd.abbr if fd.abbr else ""

    # -- labels ---------------------------------------------------------------------
    def finish_labels(self):
        O = self.oracle
        # the resolved type of typed fields = what the rules say their type reference designates
        for rf in self.refs:
            pass
        for t in self.all_types:
            for fd in t.fields:
                if fd.kind == "typed" and fd.tref is not None:
                    res = O.resolve_static(fd.tref)
                    if res[0] == "ok" and res[3].kind == "type":
                        fd.typ_resolved = ("ty", res[3].obj)
                    elif res[0] == "ok" and res[3].kind == "ptype":
                        fd.typ_resolved = ("prelude", res[3].obj)
                    else:
                        fd.typ_resolved = ("unresolved",)
        self.expected_errors = set()
        self.expect_crash = False
        self.dup_errors = set()
        scopes = []
        for m in self.mods:
            scopes.append((m, m.file))
        for t in self.all_types:
            if not t.is_mod:
                scopes.append((t, t.mod().file))
        for (s, f) in scopes:
            for (k, line, n) in O.duplicates(s):
                self.dup_errors.add((k, f, line, n))
        for rf in self.refs:
            res = O.label(rf)
            f = rf.site.mod().file
            if res[0] == "err":
                self.expected_errors.add((res[1], f, rf.line, res[2]))
            elif res[0] == "crash-param":
                self.expect_crash = True
            elif res[0] in ("cycle", "crash-other"):
                self.expected_errors.add(("out-of-scope", f, rf.line, rf.text()))
        self.expected_errors |= self.dup_errors

    def registry(self):
        """{(file, line, text): Ref}"""
        reg = {}
        for rf in self.refs:
            key = (rf.site.mod().file, rf.line, rf.text())
            reg.setdefault(key, []).append(rf)
        return reg
