"""accessor_x.py -- the MemoryAccessor / ContiguousBuffer layer of runtime/cpp/emboss_memory_util.h against
Bits/Accessor.v (C02: reads, static alignment bookkeeping; C03: writes).

Two ties of the Gallina model to /repo:

 (1) `micro(ctx, mode)`: a C++ micro-driver that instantiates ::emboss::support::MemoryAccessor<CharT, A, K, kBits>
     directly for CharT in {char, unsigned char, std::byte (C++17)}, A in {1,2,4,8}, every K < A, kBits in {8,..,64},
     at two addresses that are K mod A, on edge and random byte patterns, in every build configuration that can be
     produced on this host (default GCC build; EMBOSS_NO_OPTIMIZATIONS; user-supplied endian macros without
     EMBOSS_BYTESWAPn = the portable ByteSwap overloads; endian macros without EMBOSS_ALIAS_SAFE_POINTER_CAST).
     Every observation is compared with the arithmetic reference (sum of byte_i * 256^i / its reverse; for writes the
     whole 32-byte memory image, so a byte touched outside [p, p + kBits/8) shows), and a sample (600; thorough: 6000)
     with Bits.ExecAccessor.run_acc_read / run_acc_write evaluated by vm_compute.  In read mode also:
     ContiguousBuffer<.., A, K>::OffsetStorageType<SA, SK> as the compiler computes it against
     Accessor.offset_storage_type, and `signed char` is observed to be rejected (IsAliasSafe).
 (1b) `generated_claims(ctx)` (read mode): a module with fields at constant and at n*m+b starts is compiled by the working tree's
     embossc; the <kSubAlignment, kSubOffset> arguments are read from the generated header, the field storages' static
     (alignment, offset) and real addresses are printed by a driver for several root alignments and values of n, and
     Bits.ExecAccessor.run_generated_claim checks sub_claim, offset_storage_type and the resulting claim on them.
 (2) `views(ctx, cases, mode)`: the observations the C02/C03 drivers already print for whole-container UInt fields
     through statically aligned views and views over char storage, against Bits.ExecAccessor.run_view_read /
     run_view_write (OffsetStorageType bookkeeping + checked buffer entry point + selected specialisation).
"""
import os

from harness import fw, cpp_build

COQ_HEADER = "Require Import EmbossV.Bits.Model EmbossV.Bits.Accessor EmbossV.Bits.ExecAccessor.\nOpen Scope Z_scope.\n"

MEM = 32          # bytes of memory image per case (alignas(64))
P0 = 8            # the pointer is at index P0 + K (+ A)

_ALIAS = ("#define EMBOSS_ALIAS_SAFE_POINTER_CAST(t, x) reinterpret_cast<t __attribute__((__may_alias__)) *>((x))\n")
_ENDIAN = ("#define EMBOSS_LITTLE_ENDIAN_TO_NATIVE(x) (x)\n#define EMBOSS_NATIVE_TO_LITTLE_ENDIAN(x) (x)\n"
           "#define EMBOSS_BIG_ENDIAN_TO_NATIVE(x) (::emboss::support::ByteSwap((x)))\n"
           "#define EMBOSS_NATIVE_TO_BIG_ENDIAN(x) (::emboss::support::ByteSwap((x)))\n")
_BSWAP = ("#define EMBOSS_BYTESWAP16(x) __builtin_bswap16((x))\n#define EMBOSS_BYTESWAP32(x) __builtin_bswap32((x))\n"
          "#define EMBOSS_BYTESWAP64(x) __builtin_bswap64((x))\n")
# name -> (text before the runtime headers, Coq configuration, what the build must look like (checked by #if/#error))
CONFIGS = {
    "gcc": ("", "cfg_gcc",
            "#if !defined(EMBOSS_ALIAS_SAFE_POINTER_CAST) || !defined(EMBOSS_BIG_ENDIAN_TO_NATIVE) || !defined(EMBOSS_BYTESWAP64)\n#error\n#endif\n"),
    "portable": ("#define EMBOSS_NO_OPTIMIZATIONS 1\n", "cfg_portable",
                 "#if defined(EMBOSS_ALIAS_SAFE_POINTER_CAST) || defined(EMBOSS_BIG_ENDIAN_TO_NATIVE) || defined(EMBOSS_BYTESWAP64)\n#error\n#endif\n"),
    "swap_portable": ("#define EMBOSS_NO_OPTIMIZATIONS 1\n" + _ALIAS + _ENDIAN, "cfg_swap_portable",
                      "#if !defined(EMBOSS_ALIAS_SAFE_POINTER_CAST) || defined(EMBOSS_BYTESWAP16) || defined(EMBOSS_BYTESWAP32) || defined(EMBOSS_BYTESWAP64)\n#error\n#endif\n"),
    "no_alias": ("#define EMBOSS_NO_OPTIMIZATIONS 1\n" + _ENDIAN + _BSWAP, "cfg_no_alias",
                 "#if defined(EMBOSS_ALIAS_SAFE_POINTER_CAST) || !defined(EMBOSS_BYTESWAP16)\n#error\n#endif\n"),
}
CHARTS = [("char", "CharPlain"), ("unsigned char", "CharUnsigned"), ("::std::byte", "CharStdByte")]
AKS = [(A, K) for A in (1, 2, 4, 8) for K in range(A)]
KBITS = list(range(8, 65, 8))

PRELUDE = r'''
%(defs)s
#include <cstdio>
#include <cstdint>
#include <cstring>
#include <cstddef>
#include "runtime/cpp/emboss_memory_util.h"
%(expect)s
namespace es = ::emboss::support;
alignas(64) static unsigned char raw[%(mem)d];
static const char *const PAT[] = {%(pats)s};
static const int NPAT = %(npat)d;
static const int NWPAT = %(nwpat)d;
static const unsigned long long VAL[8][%(nval)d] = {%(vals)s};
static void fill(int i) { for (int j = 0; j < %(mem)d; ++j) { unsigned v; sscanf(PAT[i] + 2 * j, "%%2x", &v); raw[j] = static_cast<unsigned char>(v); } }
static void dump() { for (int j = 0; j < %(mem)d; ++j) printf("%%02x", raw[j]); }
template <class CharT, size_t A, size_t K, size_t kBits> static void run(int c) {
  typedef es::MemoryAccessor<CharT, A, K, kBits> MA;
  typedef typename es::LeastWidthInteger<kBits>::Unsigned U;
  for (size_t p = %(p0)d + K; p <= %(p0)d + K + (A <= 4 ? A : 0); p += A) {
    if (reinterpret_cast< ::std::uintptr_t>(raw + p) %% A != K) { printf("BADADDR\n"); return; }
#if %(reads)d
    for (int i = 0; i < NPAT; ++i) {
      fill(i);
      const CharT *ptr = reinterpret_cast<const CharT *>(raw + p);
      unsigned long long le = MA::ReadLittleEndianUInt(ptr);
      unsigned long long be = MA::ReadBigEndianUInt(ptr);
      printf("R c=%%d A=%%d K=%%d kb=%%d p=%%d i=%%d le=%%llu be=%%llu sz=%%d\n", c, (int)A, (int)K, (int)kBits, (int)p, i, le, be,
             (int)sizeof(decltype(MA::ReadLittleEndianUInt(ptr))));
    }
#endif
#if %(writes)d
    for (int i = 0; i < NWPAT; ++i)
      for (int j = 0; j < %(nval)d; ++j) {
        CharT *ptr = reinterpret_cast<CharT *>(raw + p);
        fill(i);
        MA::WriteLittleEndianUInt(ptr, static_cast<U>(VAL[kBits / 8 - 1][j]));
        printf("W c=%%d A=%%d K=%%d kb=%%d p=%%d i=%%d j=%%d le=", c, (int)A, (int)K, (int)kBits, (int)p, i, j); dump();
        fill(i);
        MA::WriteBigEndianUInt(ptr, static_cast<U>(VAL[kBits / 8 - 1][j]));
        printf(" be="); dump(); printf("\n");
      }
#endif
  }
}
template <class B, size_t A, size_t K> static void show(int id, es::ContiguousBuffer<B, A, K>) { printf("T id=%%d A=%%d K=%%d\n", id, (int)A, (int)K); }
'''


def _patterns(rng, n_random):
    pats = [[0] * MEM, [0xFF] * MEM, [0x80] * MEM, [0x7F] * MEM,
            [(0x80 if j % 2 == 0 else 0x01) for j in range(MEM)], [(0x01 if j % 2 == 0 else 0x80) for j in range(MEM)],
            [(0x10 * (j % 16) + (j % 16)) & 0xFF for j in range(MEM)], [(0xF0 + j) & 0xFF for j in range(MEM)]]
    for _ in range(n_random):
        pats.append([rng.randrange(256) for _ in range(MEM)])
    return pats


def _values(rng, n_random):
    """per byte count 1..8: values of the accessor's Unsigned type (also beyond 2^kBits when it is wider)"""
    out = []
    for n in range(1, 9):
        kb = 8 * n
        lw = 8 if kb <= 8 else 16 if kb <= 16 else 32 if kb <= 32 else 64
        vs = [0, (1 << kb) - 1, 1 << (kb - 1), int.from_bytes(bytes(range(0x81, 0x81 + n)), "big"), (1 << lw) - 1,
              rng.randrange(1 << lw) | (1 << (lw - 1))]
        for _ in range(n_random):
            vs.append(rng.randrange(1 << kb))
        out.append(vs)
    return out


def _hex(bs):
    return "".join("%02x" % b for b in bs)


def driver(cfg, mode, pats, nwpat, vals, charts):
    defs, _, expect = CONFIGS[cfg]
    src = [PRELUDE % dict(defs=defs, expect=expect, mem=MEM, p0=P0, npat=len(pats), nwpat=nwpat, nval=len(vals[0]),
                          pats=", ".join('"%s"' % _hex(p) for p in pats),
                          vals=", ".join("{%s}" % ", ".join("%dULL" % v for v in vs) for vs in vals),
                          reads=1 if mode == "read" else 0, writes=1 if mode == "write" else 0)]
    calls = []
    for ci, (ct, _) in enumerate(CHARTS):
        if ct not in charts:
            continue
        for A, K in AKS:
            for kb in KBITS:
                calls.append("  run<%s, %d, %d, %d>(%d);" % (ct, A, K, kb, ci))
    parts = [calls[i:i + 60] for i in range(0, len(calls), 60)]
    for k, ch in enumerate(parts):
        src.append("static void part%d() {\n%s\n}" % (k, "\n".join(ch)))
    return "\n".join(src), ["  part%d();" % k for k in range(len(parts))]


def _grid(rng, n):
    """(A, K, SA, SK) for OffsetStorageType; SA = 0 is the `offset is exactly SK` sentinel"""
    g = set()
    for A in (1, 2, 4, 8, 16):
        for K in sorted({0, A - 1, A // 2}):
            for SA, SK in ((0, 0), (0, 3), (0, 13), (1, 0), (2, 1), (4, 0), (4, 2), (8, 4), (3, 2), (6, 4), (12, 8), (16, 8), (32, 20), (24, 16)):
                g.add((A, K, SA, SK))
    g = sorted(g)
    extra = set()
    while len(extra) < n:
        A = rng.choice((1, 2, 4, 8, 16, 32))
        SA = rng.choice((0, 0, 1, 2, 3, 4, 5, 6, 8, 10, 12, 16, 24, 32, 48, 64, 96, 1 << 20, 3 << 10))
        extra.add((A, rng.randrange(A), SA, rng.randrange(SA) if SA else rng.randrange(100)))
    return g + sorted(extra - set(g))


def _selects_whole(cfg, A, K, kb):
    """histogram only: the chain <A, K> -> <A/2, K mod A/2> reaches <kb/8, 0> iff kb/8 divides A and K"""
    return cfg in ("gcc", "swap_portable") and kb in (16, 32, 64) and A >= kb // 8 and K % (kb // 8) == 0


def _kv(line):
    return dict(x.split("=", 1) for x in line.split()[1:])


def _spec_write(mem, p, n, v, be):
    bs = list((v & ((1 << (8 * n)) - 1)).to_bytes(n, "big" if be else "little"))
    return mem[:p] + bs + mem[p + n:]


def _coq_cfg(cfg):
    return CONFIGS[cfg][1]


def _coq_list(bs):
    return "[" + ";".join(str(b) for b in bs) + "]"


def micro(ctx, mode):
    thorough = ctx.thorough()
    pats = _patterns(ctx.rng, 6 if thorough else 2)
    vals = _values(ctx.rng, 4 if thorough else 1)
    nwpat = 6 if thorough else 3          # write images: 0x00.., 0xFF.., 0x80.. (thorough: also 0x7F.., 0x80/0x01 alternating)
    wpat_idx = list(range(nwpat))
    jobs, grid = [], []
    for cfg in CONFIGS:
        cxx17 = cfg == "gcc"
        charts = [c for c, _ in CHARTS if cxx17 or c != "::std::byte"]
        src, calls = driver(cfg, mode, pats, nwpat, vals, charts)
        if cfg == "gcc" and mode == "read":
            grid = _grid(ctx.rng, 400 if thorough else 120)
            tl = ["  show(%d, es::ContiguousBuffer<unsigned char, %d, %d>::OffsetStorageType<%d, %d>());" % (i, A, K, SA, SK)
                  for i, (A, K, SA, SK) in enumerate(grid)]
            for k in range(0, len(tl), 80):
                src += "\nstatic void tpart%d() {\n%s\n}" % (k, "\n".join(tl[k:k + 80]))
                calls.append("  tpart%d();" % k)
        src += "\nint main() {\n%s\n  printf(\"END\\n\");\n  return 0;\n}\n" % "\n".join(calls)
        jobs.append(cpp_build.CppJob("acc_" + cfg, None, src, cxxflags=["-std=c++17" if cxx17 else "-std=c++14", "-O0"]))
    if mode == "read":
        # IsAliasSafe rejects signed char: the byte specialisation must not instantiate
        jobs.append(cpp_build.CppJob("acc_schar", None, '#include "runtime/cpp/emboss_memory_util.h"\n'
                                     "int main() { signed char b[1] = {1}; return (int)::emboss::support::MemoryAccessor<signed char, 1, 0, 8>::ReadLittleEndianUInt(b); }\n"))
        # the same with char compiles (so the failure above is the static_assert, not the driver)
        jobs.append(cpp_build.CppJob("acc_pchar", None, '#include "runtime/cpp/emboss_memory_util.h"\n'
                                     "int main() { char b[1] = {1}; return (int)::emboss::support::MemoryAccessor<char, 1, 0, 8>::ReadLittleEndianUInt(b) - 1; }\n"))
    results = cpp_build.run_jobs(os.path.join(ctx.bdir, "accessor_" + mode), jobs, parallel=6, timeout=900)
    tag = "accessor-micro-" + mode
    if mode == "read":
        rs, rp = results["acc_schar"], results["acc_pchar"]
        ok = (not rs.ok and rs.stage == "compile" and "MemoryAccessor can only be used on pointers to char types" in rs.log and rp.ok)
        ctx.obligation("accessor: MemoryAccessor<signed char, 1, 0, 8> is rejected by static_assert(IsAliasSafe) and <char, 1, 0, 8> "
                       "compiles (Accessor.alias_safe)", ok)
        if not ok:
            ctx.violation("accessor-model:alias-safe", "signed char / char instantiation did not behave as Accessor.alias_safe says: %s / %s"
                          % (rs, rp), dict(kind="correspondence", correspondence="Bits.Accessor.alias_safe vs IsAliasSafe", log=rs.log[-1500:]),
                          found_input=False)
    coq_cases, n_obs, n_bad = [], 0, 0
    for cfg in CONFIGS:
        r = results["acc_" + cfg]
        if not r.ok or not r.lines or r.lines[-1] != "END" or "BADADDR" in r.lines:
            ctx.violation("cpp-build:accessor:" + r.stage, "accessor micro-driver (%s): stage %s failed (rc=%s): %s"
                          % (cfg, r.stage, r.rc, r.log[-600:]), dict(kind="build", stage=r.stage, log=r.log[-3000:]), found_input=False)
            continue
        for line in r.lines:
            if line.startswith("T "):
                continue
            if not (line.startswith("R ") or line.startswith("W ")):
                continue
            d = _kv(line)
            c, A, K, kb, p, i = (int(d[x]) for x in ("c", "A", "K", "kb", "p", "i"))
            n = kb // 8
            n_obs += 1
            ctx.count("%s:config=%s" % (tag, cfg))
            ctx.count("%s:CharT=%s" % (tag, CHARTS[c][0].strip(":")))
            ctx.count("%s:A=%d" % (tag, A))
            ctx.count("%s:kBits=%d" % (tag, kb))
            spec_sel = "whole-object" if _selects_whole(cfg, A, K, kb) else "bytes"
            ctx.count("%s:specialisation=%s" % (tag, spec_sel))
            inp = "(%s, %s, (%d, %d, %d), %d%%nat, %s)" % (_coq_cfg(cfg), CHARTS[c][1], A, K, kb, p, _coq_list(pats[i]))
            if line.startswith("R "):
                le, be = int(d["le"]), int(d["be"])
                bs = pats[i][p:p + n]
                e_le, e_be = int.from_bytes(bytes(bs), "little"), int.from_bytes(bytes(bs), "big")
                lw = 8 if kb <= 8 else 16 if kb <= 16 else 32 if kb <= 32 else 64
                good = (le, be, int(d["sz"]) * 8) == (e_le, e_be, lw)
                ctx.case(("accR", cfg, c, A, K, kb, p, tuple(bs)), nontrivial=any(b >= 0x80 for b in bs) or n > 1,
                         sample=dict(accessor="MemoryAccessor<%s, %d, %d, %d>" % (CHARTS[c][0], A, K, kb), configuration=cfg,
                                     bytes=_hex(bs), cpp=line) if n_obs % 997 == 1 else None)
                if not good:
                    n_bad += 1
                    ctx.violation("accessor-read", "MemoryAccessor<%s, %d, %d, %d> (%s build) at an address %d mod %d on bytes %s: "
                                  "little-endian %d (expected %d), big-endian %d (expected %d)"
                                  % (CHARTS[c][0], A, K, kb, cfg, K, A, _hex(bs), le, e_le, be, e_be),
                                  dict(kind="memory-accessor", configuration=cfg, chart=CHARTS[c][0], A=A, K=K, kBits=kb, memory=_hex(pats[i]),
                                       index=p, observed=line), found_input=True)
                coq_cases.append((inp, "(Some %d, Some %d)" % (le, be), dict(line=line, cfg=cfg, good=good)))
            else:
                j = int(d["j"])
                v = vals[n - 1][j]
                m_le, m_be = list(bytes.fromhex(d["le"])), list(bytes.fromhex(d["be"]))
                e_le, e_be = _spec_write(pats[i], p, n, v, False), _spec_write(pats[i], p, n, v, True)
                good = (m_le, m_be) == (e_le, e_be)
                ctx.case(("accW", cfg, c, A, K, kb, p, i, v), nontrivial=True,
                         sample=dict(accessor="MemoryAccessor<%s, %d, %d, %d>" % (CHARTS[c][0], A, K, kb), configuration=cfg,
                                     value=v, cpp=line) if n_obs % 997 == 1 else None)
                if not good:
                    n_bad += 1
                    ctx.violation("accessor-write", "MemoryAccessor<%s, %d, %d, %d> (%s build) at an address %d mod %d, value %d: memory "
                                  "after the little-endian write %s (expected %s), after the big-endian write %s (expected %s)"
                                  % (CHARTS[c][0], A, K, kb, cfg, K, A, v, d["le"], _hex(e_le), d["be"], _hex(e_be)),
                                  dict(kind="memory-accessor", configuration=cfg, chart=CHARTS[c][0], A=A, K=K, kBits=kb, memory=_hex(pats[i]),
                                       index=p, value=v, observed=line), found_input=True)
                coq_cases.append(("(%s, %d)" % (inp, v), "(Some %s, Some %s)" % (_coq_list(m_le), _coq_list(m_be)),
                                  dict(line=line, cfg=cfg, good=good)))
    ctx.obligation("accessor: %d direct MemoryAccessor %s observations (4 build configurations x CharT x (A, K) x kBits x address x contents) "
                   "agree with the arithmetic reference%s" % (n_obs, mode, "" if not n_bad else " (%d contradict it)" % n_bad),
                   n_bad == 0 and n_obs > 0)
    ctx.extra["accessor_micro_%s_observations" % mode] = n_obs
    # the model on a sample
    n_vm = min(len(coq_cases), 6000 if thorough else 600)
    idxs = sorted(ctx.rng.sample(range(len(coq_cases)), n_vm))
    sample = [coq_cases[i] for i in idxs]
    try:
        if mode == "read":
            bad = fw.CoqCases(ctx, "acc_read", COQ_HEADER, "run_acc_read", "acc_read_eqb", "acc_read_in",
                              "(option Z * option Z)", shard=600).run(sample)
        else:
            bad = fw.CoqCases(ctx, "acc_write", COQ_HEADER, "run_acc_write", "acc_write_eqb", "(acc_read_in * Z)",
                              "(option (list Z) * option (list Z))", shard=600).run(sample)
        tbad = []
        if mode == "read" and results["acc_gcc"].ok:
            obs = {}
            for line in results["acc_gcc"].lines:
                if line.startswith("T "):
                    d = _kv(line)
                    obs[int(d["id"])] = (int(d["A"]), int(d["K"]))
            tcases = [("(%d, %d, %d, %d)" % g, "(Some (%d, %d))" % obs.get(i, (-1, -1)), g) for i, g in enumerate(grid)]
            for g in grid:
                ctx.count("offset-storage-type:SA=%s" % ("0 (exact)" if g[2] == 0 else "power of two" if g[2] & (g[2] - 1) == 0 else "other"))
                ctx.case(("ost", g), nontrivial=g[0] > 1)
            tbad = fw.CoqCases(ctx, "acc_ost", COQ_HEADER, "run_offset_storage_type", "zpair_opt_eqb", "(Z * Z * Z * Z)",
                               "(option (Z * Z))", shard=400).run(tcases)
            ctx.obligation("accessor: ContiguousBuffer<_, A, K>::OffsetStorageType<SA, SK> as instantiated by g++ equals "
                           "Accessor.offset_storage_type on %d (A, K, SA, SK)" % len(tcases), not tbad and len(obs) == len(grid))
            ctx.extra["offset_storage_type_cases"] = len(tcases)
            if tbad or len(obs) != len(grid):
                k = tbad[0][0] if tbad else 0
                ctx.violation("accessor-model:offset-storage-type", "OffsetStorageType%s: g++ says %s, the model differs (%d cases)"
                              % (tcases[k][2], tcases[k][1], len(tbad)),
                              dict(kind="correspondence", correspondence="Bits.Accessor.offset_storage_type vs ContiguousBuffer::OffsetStorageType",
                                   input=list(tcases[k][2]), cpp=tcases[k][1], model_outputs=(tbad[0][1][:800] if tbad else "")), found_input=False)
    except fw.CoqEvalError as ex:
        ctx.obligation("accessor: model evaluation", False)
        ctx.violation("model-eval", "Coq evaluation of the accessor cases failed: %s" % str(ex)[-500:],
                      dict(kind="correspondence", correspondence="Bits.ExecAccessor.run_acc_%s vs MemoryAccessor" % mode), found_input=False)
        return
    ctx.extra["accessor_micro_%s_cases_by_vm_compute" % mode] = len(sample)
    if mode == "read":
        try:
            generated_claims(ctx)
        except fw.CoqEvalError as ex:
            ctx.obligation("accessor: generated claims, model evaluation", False)
            ctx.violation("model-eval", "Coq evaluation of the generated-claim cases failed: %s" % str(ex)[-500:],
                          dict(kind="correspondence", correspondence="Bits.ExecAccessor.run_generated_claim vs generated C++"), found_input=False)
    # a disagreement on an observation that already contradicts the reference is reported there
    fresh = [(k, out) for k, out in bad if sample[k][2]["good"]]
    ctx.obligation("accessor: Bits.Accessor (vm_compute) and MemoryAccessor agree on %d %s cases" % (len(sample), mode), not bad)
    if fresh:
        k, out = fresh[0]
        ctx.violation("accessor-model:" + mode, "Bits.Accessor and the real MemoryAccessor disagree on %d cases although the C++ observation "
                      "matches the arithmetic reference, e.g. %s" % (len(fresh), sample[k][2]["line"]),
                      dict(kind="correspondence", correspondence="Bits.ExecAccessor.run_acc_%s vs MemoryAccessor" % mode,
                           coq_input=sample[k][0], cpp=sample[k][1], model_outputs=out[:1500]), found_input=False)


# ----------------------------------------------------------------------------------------------
# (1b) the <kSubAlignment, kSubOffset> the back end emits, on a real generated header
# ----------------------------------------------------------------------------------------------

CLAIM_EMB = """[$default byte_order: "LittleEndian"]
[(cpp) namespace: "al"]

struct Inner:
  0 [+2]  UInt  x

struct Top:
  0       [+1]  UInt   n
%s
"""
CLAIM_FIELDS = [("c1", "1"), ("c4", "4"), ("c6", "6"), ("c13", "13"), ("d4", "n*4+8"), ("d8", "n*8+16"), ("d6", "n*6+10"),
                ("d2", "n*2+9"), ("d12", "n*12+4"), ("d5", "n*5+3"), ("d16", "n*16+24")]
CLAIM_DRIVER = r"""
#include <cstdio>
#include <cstdint>
#include <cstring>
#include "acc_claims.emb.h"
namespace es = ::emboss::support;
alignas(64) static unsigned char raw[256];
template <class B, size_t A, size_t K> static void show(const char *f, int a, int k, int n, const unsigned char *root,
                                                        es::ContiguousBuffer<B, A, K> s) {
  printf("F f=%%s A=%%d K=%%d n=%%d A2=%%d K2=%%d off=%%ld addr0=%%lu ok=%%d\n", f, a, k, n, (int)A, (int)K, (long)(s.data() - root),
         (unsigned long)(reinterpret_cast< ::std::uintptr_t>(root) %% 64), (int)s.Ok());
}
template <size_t A, size_t K> static void run() {
  static const int NS[] = {0, 1, 2, 3, 5};
  for (int i = 0; i < 5; ++i) {
    memset(raw, 0, sizeof raw);
    unsigned char *root = raw + 16 + K;
    root[0] = static_cast<unsigned char>(NS[i]);
    auto v = al::GenericTopView<es::ContiguousBuffer<unsigned char, A, K>>(root, 160);
%(shows)s
  }
}
int main() {
%(runs)s
  printf("END\n");
  return 0;
}
"""
CLAIM_AKS = [(1, 0), (2, 1), (4, 0), (4, 3), (8, 0), (8, 5), (16, 6)]


def generated_claims(ctx):
    import re
    emb = CLAIM_EMB % "\n".join("  %-8s [+2]  Inner  %s" % (e, f) for f, e in CLAIM_FIELDS)
    drv = CLAIM_DRIVER % dict(shows="\n".join('    show("%s", %s, %s, NS[i], root, v.%s().BackingStorage());' % (f, "(int)A", "(int)K", f)
                                             for f, _ in CLAIM_FIELDS),
                              runs="\n".join("  run<%d, %d>();" % ak for ak in CLAIM_AKS))
    r = cpp_build.run_jobs(os.path.join(ctx.bdir, "accessor_claims"), [cpp_build.CppJob("acc_claims", emb, drv)], parallel=1,
                           timeout=600)["acc_claims"]
    if not r.ok or not r.lines or r.lines[-1] != "END":
        ctx.violation("cpp-build:accessor-claims:" + r.stage, "generated-claims driver: stage %s failed (rc=%s): %s" % (r.stage, r.rc, r.log[-600:]),
                      dict(kind="build", module=emb, stage=r.stage, log=r.log[-3000:]), found_input=False)
        return
    hdr = open(r.header).read()
    claims = {}
    for f, _ in CLAIM_FIELDS:
        m = re.search(r"GenericTopView<Storage>::%s\(\)\s*const \{.*?GetOffsetStorage<(\d+),\s*(\d+)>" % f, hdr, re.S)
        if m:
            claims[f] = (int(m.group(1)), int(m.group(2)))
    cases, n_bad = [], 0
    for line in r.lines:
        if not line.startswith("F "):
            continue
        d = _kv(line)
        f = d["f"]
        A, K, n, A2, K2, off, addr0 = (int(d[x]) for x in ("A", "K", "n", "A2", "K2", "off", "addr0"))
        if f not in claims or not int(d["ok"]):
            ctx.violation("accessor-model:generated-claims", "field %s: no GetOffsetStorage<..> found in the header or null storage" % f,
                          dict(kind="correspondence", correspondence="harness/accessor_x.generated_claims", module=emb, observed=line),
                          found_input=False)
            continue
        SA, SK = claims[f]
        expr = dict(CLAIM_FIELDS)[f]
        want_off = eval(expr, {"n": n})
        ctx.count("generated-claim:%s" % ("constant start" if SA == 0 else "start = %d (mod %d)" % (SK, SA)))
        ctx.case(("claim", f, A, K, n), nontrivial=True,
                 sample=dict(field="%s at %s" % (f, expr), claim=[SA, SK], view="ContiguousBuffer<unsigned char, %d, %d>" % (A, K), cpp=line)
                 if (f, A, n) in (("d6", 8, 3), ("c13", 4, 0)) else None)
        # on the real code: the offset is the field's start, and the result's static claim holds at its real address
        if off != want_off or (addr0 + off) % A2 != K2:
            n_bad += 1
            ctx.violation("alignment-claim", "field %s (start %s, n = %d) of a view over ContiguousBuffer<unsigned char, %d, %d>: storage type "
                          "claims address = %d mod %d but the address is %d mod %d (offset %d)" % (f, expr, n, A, K, K2, A2, (addr0 + off) % A2, A2, off),
                          dict(kind="alignment-claim", module=emb, field=f, n=n, view=[A, K], observed=line), found_input=True)
        cases.append(("(%d, %d, %d, %d, %d, %d)" % (A, K, SA, SK, off, addr0), "(Some (%d, %d), true, true)" % (A2, K2), line))
    bad = fw.CoqCases(ctx, "acc_claims", COQ_HEADER, "run_generated_claim", "generated_claim_eqb", "(Z * Z * Z * Z * Z * Z)",
                      "(option (Z * Z) * bool * bool)", shard=500).run(cases)
    ctx.extra["generated_claim_cases"] = len(cases)
    ctx.obligation("accessor: on a generated header, the <kSubAlignment, kSubOffset> of %d fields (constant and n*m+b starts) satisfy "
                   "Accessor.sub_claim at the observed offsets, the storage types are Accessor.offset_storage_type, and the resulting "
                   "claims hold at the observed addresses (%d observations over %d root alignments)"
                   % (len(claims), len(cases), len(CLAIM_AKS)), not bad and not n_bad and len(cases) == len(CLAIM_FIELDS) * 5 * len(CLAIM_AKS))
    if bad:
        k, out = bad[0]
        ctx.violation("accessor-model:generated-claims", "the back end's alignment arguments / OffsetStorageType / run-time addresses do not "
                      "fit Accessor's bookkeeping on %d observations, e.g. %s" % (len(bad), cases[k][2]),
                      dict(kind="correspondence", correspondence="Bits.ExecAccessor.run_generated_claim vs generated C++", module=emb,
                           coq_input=cases[k][0], cpp=cases[k][1], model_outputs=out[:1200]), found_input=False)


# ----------------------------------------------------------------------------------------------
# (2) observations of the generated views
# ----------------------------------------------------------------------------------------------

def views(ctx, cases, mode):
    """cases: the list c02.evaluate returns, with obj["var"] = None | (A, k) (A < 0: char storage) added by the runner.
    Whole-container UInt fields directly on a struct (Read() is the container's value)."""
    sel = []
    for _, _, obj in cases:
        acc, var = obj["acc"], obj.get("var")
        if acc.kind != "uint" or acc.path or acc.w != 8 * acc.c or acc.order not in ("LE", "BE") or obj.get("spec_bad"):
            continue
        sel.append(obj)
    coq, n = [], 0
    for obj in sel:
        acc, var, m, root = obj["acc"], obj.get("var"), obj["m"], obj["root"]
        A, k = (1, 0) if var is None else (abs(var[0]), var[1])
        chart = "CharPlain" if var is not None and var[0] < 0 else "CharUnsigned"
        cfg = "cfg_gcc" if m.opt else "cfg_portable"
        head = "(%s, %s, %s, (%d, %d, %d%%nat, %d%%nat), %s" % (cfg, chart, "true" if acc.order == "BE" else "false", A, k,
                                                              acc.boff, acc.c, _coq_list(root))
        if mode == "read" and "obs" in obj:
            o = obj["obs"]
            # Read() was only called when Ok(); a CHECK failure or an incomplete view has no value
            if o["chk"] or not o["ok"] or o["v"] is None:
                exp = "None"
                if not o["chk"] and len(root) >= acc.boff + acc.c:
                    continue
            else:
                exp = "(Some %d)" % o["v"]
            coq.append((head + ")", exp, obj))
            ctx.count("accessor-view-read:%s" % ("plain" if var is None else "char storage" if var[0] < 0 else "A=%d" % A))
        elif mode == "write" and "writes" in obj:
            for t, v, o in obj["writes"]:
                if not o["tw"] or o["chk"] or not (0 <= v < (1 << acc.w)):
                    continue
                coq.append(("%s, %d)" % (head, v), "(Some %s)" % _coq_list(o["buf"]), obj))
                ctx.count("accessor-view-write:%s" % ("plain" if var is None else "char storage" if var[0] < 0 else "A=%d" % A))
    cap = 3000 if ctx.thorough() else 500
    if len(coq) > cap:
        coq = [coq[i] for i in sorted(ctx.rng.sample(range(len(coq)), cap))]
    if not coq:
        ctx.note("accessor views: no whole-container UInt observation in this run")
        return
    try:
        if mode == "read":
            bad = fw.CoqCases(ctx, "acc_view_read", COQ_HEADER, "run_view_read", "(opt_eqb Z.eqb)",
                              "(config * chart * bool * (Z * Z * nat * nat) * list Z)", "(option Z)", shard=500).run(coq)
        else:
            bad = fw.CoqCases(ctx, "acc_view_write", COQ_HEADER, "run_view_write", "(opt_eqb zlist_eqb)",
                              "(config * chart * bool * (Z * Z * nat * nat) * list Z * Z)", "(option (list Z))", shard=500).run(coq)
    except fw.CoqEvalError as ex:
        ctx.obligation("accessor views: model evaluation", False)
        ctx.violation("model-eval", "Coq evaluation of the accessor view cases failed: %s" % str(ex)[-500:],
                      dict(kind="correspondence", correspondence="Bits.ExecAccessor.run_view_%s vs generated C++" % mode), found_input=False)
        return
    for _ in coq:
        ctx.case(("accV", mode, _[0], _[1]), nontrivial=True)
    ctx.extra["accessor_view_%s_cases_by_vm_compute" % mode] = len(coq)
    ctx.obligation("accessor views: OffsetStorageType bookkeeping + checked ContiguousBuffer entry point + selected MemoryAccessor "
                   "(Bits.ExecAccessor.run_view_%s) agree with %d observations of whole-container UInt fields through plain, statically "
                   "aligned and char-storage views" % (mode, len(coq)), not bad)
    if bad:
        k, out = bad[0]
        obj = coq[k][2]
        ctx.violation("accessor-model:view-" + mode, "Bits.Accessor's view-level composition and the generated C++ disagree on %d cases"
                      % len(bad), dict(kind="correspondence", correspondence="Bits.ExecAccessor.run_view_%s vs generated C++" % mode,
                                       module=obj["m"].text(), accessor=obj["acc"].describe(), coq_input=coq[k][0], cpp=coq[k][1],
                                       model_outputs=out[:1500]), found_input=False)
