"""C01 -- correspondence of the REFERENCE semantics (coq/theories/View/Ref.v) with the real generated C++.

For every (module, structure, parameters) whose structure lies in the decidable class `wf_ref` of the
agreement theorem (View/Properties_C01.v: gen_agrees_with_ref_partial, gen_observations_are_ref) the
reference's observation vector -- computed in Coq by `ref_solve`/`ref_observe`, with no storage clamp,
no Maybe<> environment and no evaluation order -- must EQUAL the observation vector the compiled
generated code printed for the same buffer: on complete buffers and on truncated ones.

The class was widened (coq/theories/View/RefNest.v, theorems gen_agrees_with_ref_nested,
gen_observations_are_ref_nested): bits blocks (named bits types and anonymous `bits:` with their hoisted aliases),
nested structures with and without parameters, structure-typed fields of dynamic size.  Structures in the widened
class `wf_ref_n` are compared through `ref_observe_n` (the tree-shaped reference); those that also lie in the flat
class are compared through the flat `ref_observe` as well.

Two sources of cases:
  * the (module, buffer) cases the C01 check already collected (gen_view modules and testdata structures);
    those outside the class are counted, not compared;
  * modules generated here for the class (RefModule): scalars of several kinds/widths/byte orders at static,
    dynamic and $next offsets, existence conditions over earlier and later fields (also over fields that are
    themselves absent), [requires], virtual fields, aliases, $present, $max, $size_in_bytes in expressions,
    an optional top-level parameter;
  * modules generated here for the widened class (NestModule): seed-independent shapes for every new feature in
    every run plus random combinations (bits types with conditional members, anonymous bits blocks, nested
    structures at static and dynamic offsets, two-level nesting, parameters whose arguments are earlier fields,
    `[+len]` sizes, virtual fields / aliases / conditions over members of nested views).
"""
import os

from harness import fw, view_x, cpp_build
from harness.irx import OutOfModel

HEADER = ("Require Import EmbossV.Bounds.Model EmbossV.View.Model EmbossV.View.Exec EmbossV.View.Ref EmbossV.View.RefExec.\n"
          "Open Scope Z_scope.\n")


def zlist(xs):
    return "[" + "; ".join(("(%d)" % x) if x < 0 else str(x) for x in xs) + "]"


class RefModule:
    """a module whose structure `Top` is meant to lie in the class wf_ref"""

    def __init__(self, rng):
        r = self.r = rng
        L = self.lines = []
        self.order = r.choice(["LittleEndian", "BigEndian"])
        L.append('[$default byte_order: "%s"]' % self.order)
        L.append('[(cpp) namespace: "m"]')
        L += ["enum Kind:", "  ZERO = 0", "  ONE = 1", "  TWO = 2", "  BIG = 200"]
        self.top_param = None
        if r.random() < 0.3:
            self.top_param = r.choice([0, 1, 2, 3, 5, 200])
            L.append("struct Top(tp: UInt:8):")
        else:
            L.append("struct Top:")
        self.max_len = 0
        self.fields()

    def fields(self):
        r, L = self.r, self.lines
        L.append("  0 [+1]  UInt  tag")
        L.append("  1 [+1]  UInt  len")
        small = ["tag", "len"]            # unconditional one-byte unsigned fields
        if self.top_param is not None:
            small.append("tp")
        ints = list(small)                # any integer field (possibly conditional, possibly wide or signed)
        enums = []
        names = ["tag", "len"]
        off = 2
        n = r.randint(2, 7)
        for i in range(n):
            name = "f%d" % i
            kind = r.choice(["UInt", "UInt", "UInt", "Int", "Bcd", "Kind"])
            size = r.choice([1, 1, 2, 2, 3, 4, 8]) if kind != "Kind" else r.choice([1, 2, 4])
            attrs = []
            if r.random() < 0.3:
                attrs.append('[byte_order: "%s"]' % r.choice(["LittleEndian", "BigEndian"]))
            if kind in ("UInt", "Int") and r.random() < 0.25:
                attrs.append("[requires: %s]" % r.choice(["this < 100", "this != 13", "this != 0 && this < 200", "this > 1"]))
            k = r.random()
            if k < 0.5:
                pos = str(off)
            elif k < 0.65 and i > 0:
                pos = "$next"
            elif k < 0.9:
                pos = "%s + %d" % (r.choice(small), r.choice([0, 1, 2, off]))
            else:
                a, b = r.choice(small), r.choice(small)
                pos = r.choice(["%s + %s" % (a, b), "%s * 2 + 2" % a, "(%s < 4 ? %d : %s)" % (a, off, b)])
            cond = None
            k = r.random()
            if k < 0.25:
                cond = "%s == %d" % (r.choice(small), r.choice([0, 1, 1, 2, 3]))
            elif k < 0.35:
                cond = r.choice(["tag > 2", "len != 0", "tag < 100 && len > 0", "tag == 1 || len == 7", "tag + len < 9"])
            elif k < 0.5 and len(ints) >= 3:
                a, b = r.sample(ints, 2)      # possibly conditional or not-yet-readable operands
                cond = "%s %s %d %s %s %s %d" % (a, r.choice(["==", "!=", "<"]), r.choice([0, 1, 2, 7]), r.choice(["&&", "||"]),
                                                 b, r.choice(["==", "!=", ">"]), r.choice([0, 1, 3, 7]))
            elif k < 0.58 and len(names) > 2:
                cond = "%s$present(%s)" % (r.choice(["", "!"]) if False else "", r.choice(names[2:]))
            elif k < 0.64 and enums:
                cond = "%s == Kind.%s" % (r.choice(enums), r.choice(["ONE", "TWO", "BIG"]))
            ind = "  "
            if cond:
                L.append("  if %s:" % cond)
                ind = "    "
            L.append("%s%s [+%d]  %s  %s" % (ind, pos, size, kind, name))
            for a in attrs:
                L.append("%s  %s" % (ind, a))
            names.append(name)
            if kind in ("UInt", "Int") and size <= 4:
                ints.append(name)
                if kind == "UInt" and size == 1 and not cond and not attrs:
                    small.append(name)
            if kind == "Kind":
                enums.append(name)
            off += size
        self.max_len = off + 12
        # virtual fields and aliases
        for j in range(r.randint(0, 6)):
            a, b = r.choice(ints), r.choice(ints)
            s = r.choice(small)
            expr = r.choice(["%s + %d" % (a, r.choice([1, 10, 100])),
                             "%s" % r.choice(names),                       # alias
                             "%s > 5 || %s == 0" % (a, b),
                             "%s > 3 && %s == 0" % (a, b),
                             "(%s == 0 ? %s : 5) + 1" % (s, a),
                             "$max(%s, %s, 3)" % (a, s),
                             "$size_in_bytes + %s" % s,
                             "$present(%s)" % r.choice(names),
                             "%s * 2 - %s" % (s, b),
                             "%s - %s" % (a, b)])
            L.append("  let v%d = %s" % (j, expr))
            if r.random() < 0.2 and not expr.startswith("$present") and "||" not in expr and "&&" not in expr and expr not in names:
                L.append("    [requires: this < 100]")
        if r.random() < 0.25:
            L.insert(L.index([x for x in L if x.startswith("struct Top")][0]) + 1, "  [requires: tag != 9 && len < 250]")

    def text(self):
        return "\n".join(self.lines) + "\n"


NEST_TYPES = """bits Flags:
  0 [+3]  UInt  lo
  3 [+1]  Flag  f
  4 [+4]  UInt  hi
  if lo == 1:
    8 [+8]  UInt  ext
  if f:
    8 [+4]  Int  sx
bits Nib:
  0 [+4]  UInt  n0
  4 [+4]  Bcd  n1
struct Leaf:
  0 [+1]  UInt  lx
  1 [+1]  Int  ly
    [requires: this != 5]
struct Inner:
  0 [+1]  UInt  x
  1 [+2]  UInt  y
  if x == 1:
    3 [+1]  UInt  z
  let s = x + 1
struct Deep:
  0 [+1]  UInt  k
  1 [+2]  Leaf  lf
  if k > 1:
    k [+2]  Leaf  lg
  3 [+1]  bits:
    0 [+2]  UInt  d0
    2 [+6]  UInt  d1
struct PInner(n: UInt:8):
  0 [+1]  UInt  px
  if n == 1:
    1 [+1]  UInt  py
  if n > 2:
    1 [+2]  UInt  pw
  let pp = n + px
struct PDeep(a: UInt:8, b: UInt:8):
  0 [+1]  UInt  q
  1 [+b]  PInner(a)  pi
  if a == b:
    0 [+2]  Flags  qf
"""

# seed-independent shapes: one per new feature (bodies of `struct Top`)
NEST_SHAPES = {
    "bits": ["  0 [+1]  UInt  tag", "  1 [+1]  UInt  len", "  2 [+2]  Flags  fl", "  4 [+1]  Nib  nb",
             "  5 [+1]  bits:", "    0 [+4]  UInt  a", "    4 [+4]  Int  b",
             "  if tag == 1:", "    6 [+2]  bits:", "      0 [+10]  UInt  c", "      10 [+6]  UInt  dd",
             "  if fl.lo == 2:", "    len [+2]  Flags  gl",
             "  let v = a + fl.hi", "  let u = fl.f"],
    "nested": ["  0 [+1]  UInt  tag", "  1 [+1]  UInt  len", "  2 [+4]  Inner  a",
               "  if tag == 2:", "    len [+4]  Inner  b", "  6 [+4]  Deep  dp",
               "  let s2 = a.y + 1", "  let al = a.x", "  if a.x == 1:", "    10 [+1]  UInt  trailer"],
    "params": ["  0 [+1]  UInt  tag", "  1 [+1]  UInt  len", "  2 [+3]  PInner(tag)  p",
               "  if tag != 0:", "    5 [+3]  PInner(len)  q", "  8 [+6]  PDeep(tag, len)  pd", "  let t = p.px + 1"],
    "dynsize": ["  0 [+1]  UInt  tag", "  1 [+1]  UInt  len", "  2 [+len]  Inner  a", "  tag [+len]  PInner(len)  p",
                "  $next [+tag]  Deep  dp", "  let e = a.x + len"],
}


class NestModule:
    """a module whose structure `Top` is meant to lie in the widened class wf_ref_n"""

    def __init__(self, rng, shape=None):
        r = self.r = rng
        self.order = r.choice(["LittleEndian", "BigEndian"]) if shape is None else "LittleEndian"
        L = self.lines = ['[$default byte_order: "%s"]' % self.order, '[(cpp) namespace: "m"]']
        L += NEST_TYPES.rstrip("\n").split("\n")
        L.append("struct Top:")
        self.top_param = None
        self.shape = shape or "random"
        if shape is not None:
            L += NEST_SHAPES[shape]
            self.max_len = 20
        else:
            self.random_top()

    def random_top(self):
        r, L = self.r, self.lines
        L.append("  0 [+1]  UInt  tag")
        L.append("  1 [+1]  UInt  len")
        off = 2
        ints = ["tag", "len"]          # integer expressions usable in virtual fields
        conds = ["tag == 1", "tag == 2", "len != 0", "tag > 2", "tag < 100 && len > 0"]
        aliasable = []
        for i in range(r.randint(2, 6)):
            kind = r.choice(["scalar", "flags", "nib", "anon", "inner", "inner", "leaf", "deep", "pinner", "pinner", "pdeep"])
            size = {"scalar": r.choice([1, 2, 4]), "flags": 2, "nib": 1, "anon": r.choice([1, 2]), "inner": 4, "leaf": 2,
                    "deep": 4, "pinner": 3, "pdeep": 5}[kind]
            k = r.random()
            pos = str(off) if k < 0.6 else r.choice(["len", "len + %d" % r.choice([1, 2, off]), "tag + 2", "$next"])
            sz = str(size)
            if kind in ("inner", "deep", "pinner", "pdeep", "leaf") and r.random() < 0.3:
                sz = r.choice(["len", "tag", "len + 1"])            # a structure-typed field of dynamic size
            ind = "  "
            if r.random() < 0.3:
                L.append("  if %s:" % r.choice(conds))
                ind = "    "
            nm = "%s%d" % (kind[0] if kind != "pdeep" else "w", i)
            arg = r.choice(["tag", "len"] + [x for x in ints if "." not in x and x.startswith("s")][:2])
            if kind == "scalar":
                L.append("%s%s [+%d]  %s  %s" % (ind, pos, size, r.choice(["UInt", "UInt", "Int"]), nm))
                if size == 1 and ind == "  ":
                    ints.append(nm)
            elif kind == "flags":
                L.append("%s%s [+2]  Flags  %s" % (ind, pos, nm))
                ints += [nm + ".lo", nm + ".hi"]
                conds += ["%s.f" % nm, "%s.lo == 1" % nm]
                aliasable.append(nm + ".hi")
            elif kind == "nib":
                L.append("%s%s [+1]  Nib  %s" % (ind, pos, nm))
                ints.append(nm + ".n0")
            elif kind == "anon":
                L.append("%s%s [+%d]  bits:" % (ind, pos, size))
                L.append("%s  0 [+3]  UInt  %sa" % (ind, nm))
                L.append("%s  3 [+%d]  %s  %sb" % (ind, 8 * size - 4, r.choice(["UInt", "Int"]), nm))
                L.append("%s  %d [+1]  Flag  %sc" % (ind, 8 * size - 1, nm))
                ints.append(nm + "a")
                conds.append(nm + "c")
            elif kind == "inner":
                L.append("%s%s [+%s]  Inner  %s" % (ind, pos, sz, nm))
                ints += [nm + ".x", nm + ".y"]
                conds.append("%s.x == 1" % nm)
                aliasable.append(nm + ".y")
            elif kind == "leaf":
                L.append("%s%s [+%s]  Leaf  %s" % (ind, pos, sz, nm))
                ints.append(nm + ".lx")
                aliasable.append(nm + ".ly")
            elif kind == "deep":
                L.append("%s%s [+%s]  Deep  %s" % (ind, pos, sz, nm))
                ints += [nm + ".k", nm + ".lf.lx", nm + ".d1"]
                aliasable.append(nm + ".lf.ly")
            elif kind == "pinner":
                L.append("%s%s [+%s]  PInner(%s)  %s" % (ind, pos, sz, arg, nm))
                ints.append(nm + ".px")
                conds.append("%s.px > 3" % nm)
            else:
                L.append("%s%s [+%s]  PDeep(%s, %s)  %s" % (ind, pos, sz, arg, r.choice(["tag", "len"]), nm))
                ints.append(nm + ".q")
            off += size
        self.max_len = off + 10
        for j in range(r.randint(0, 4)):
            a, b = r.choice(ints), r.choice(ints)
            expr = r.choice(["%s + %d" % (a, r.choice([1, 10])), "%s > 5 || %s == 0" % (a, b), "$max(%s, %s, 3)" % (a, b),
                             "$size_in_bytes + %s" % a, "%s - %s" % (a, b)] + ([r.choice(aliasable)] if aliasable else []))
            L.append("  let v%d = %s" % (j, expr))

    def text(self):
        return "\n".join(self.lines) + "\n"


def buffers(rng, max_len, count):
    out = [[], [1], [1, 2]]
    fills = [lambda i: 0, lambda i: 255, lambda i: 1, lambda i: rng.randrange(256),
             lambda i: rng.choice([0, 1, 2, 3, 4, 5, 7, 9, 0x13, 0x99, 128, 255]), lambda i: rng.randrange(8)]
    for _ in range(count):
        n = rng.choice(list(range(0, 14)) + [rng.randint(0, max_len)] * 6 + [max_len, max_len + 2])
        f = rng.choice(fills)
        b = [f(i) for i in range(n)]
        for j in (0, 1):
            if len(b) > j and rng.random() < 0.8:
                b[j] = rng.choice([0, 1, 2, 3, 4, 5, 7, 9, 200])
        out.append(b)
    return out


def own_cases(ctx, compile_ir, gens, n_buf, prefix, base=0):
    """modules generated for the class (`gens`: generator objects), through the real front end, back end and g++"""
    from compiler.back_end.cpp import header_generator
    jobs, infos = [], []
    for i, gm in enumerate(gens):
        text = gm.text()
        try:
            ir, errors = compile_ir(text)
        except Exception as ex:
            ctx.count("ref:compile-crash")
            ctx.note("compiler raised %r on reference-class module %d" % (ex, i))
            continue
        if errors:
            ctx.count("ref:compile-rejected")
            if ctx.histogram.get("ref:compile-rejected", 0) <= 3:
                from compiler.util import error
                ctx.note("rejected (reference-class generator): " + error.format_errors(errors, {"m.emb": text}).split("\n")[0])
            continue
        try:
            tr = view_x.ViewTranslator(ir)
            mod_term = tr.module()
            top = [k for k, t in enumerate(tr.types) if t.name.name.text == "Top"][0]
            header, herrs = header_generator.generate_header(ir)
            if herrs:
                ctx.count("ref:header-generation-rejected")
                continue
            bufs = buffers(ctx.rng, gm.max_len, n_buf)
            pvals = [gm.top_param] if gm.top_param is not None else []
            driver = tr.driver("/*INLINE*/\n" + header, top, pvals, bufs)
        except OutOfModel as ex:
            ctx.count("ref:out-of-model:" + str(ex).split(" ")[0])
            continue
        jobs.append(cpp_build.CppJob("%s%d" % (prefix, i), None, driver))
        infos.append(dict(i=i, text=text, mod=mod_term, top=top, bufs=bufs, pvals=pvals, shape=getattr(gm, "shape", "flat")))
    results = cpp_build.run_jobs(os.path.join(ctx.bdir, "cpp_ref_" + prefix), jobs, parallel=fw.NPROC)
    mods, cases, shapes = [], [], []
    for info in infos:
        res = results["%s%d" % (prefix, info["i"])]
        if not res.ok:
            ctx.count("ref:cpp-" + res.stage + "-failed")
            ctx.violation("cpp-build-failed:" + res.stage, "generated header/driver failed at stage %s: %s" % (res.stage, res.log[-600:]),
                          dict(kind="module", module=info["text"], stage=res.stage, log=res.log[-3000:]), found_input=True)
            continue
        k = base + len(mods)
        mods.append("(%s, %d%%nat, %s)" % (info["mod"], info["top"],
                                           "[" + "; ".join("Some (VInt %d)" % v for v in info["pvals"]) + "]" if info["pvals"] else "@nil (maybe value)"))
        shapes.append(info["shape"])
        lines = {l.split(" ", 1)[0]: l for l in res.lines if l.startswith("B")}
        for bi, b in enumerate(info["bufs"]):
            l = lines.get("B%d" % bi)
            if l is None:
                ctx.violation("cpp-driver-output-missing", "driver printed no line for buffer %d" % bi,
                              dict(kind="module", module=info["text"], buffer=b), found_input=False)
                continue
            obs = [int(x) for x in l.split()[1:]]
            cases.append(("(%d%%nat, %s)" % (k, zlist(b)), zlist(obs), dict(module=info["text"], buffer=b, cpp=obs)))
    return mods, cases, shapes


ARRAY_WITNESS = """[$default byte_order: "LittleEndian"]
[(cpp) namespace: "m"]
struct Top:
  0 [+1]  UInt  n
  1 [+n]  UInt:8[]  payload
"""


def array_probe(ctx, compile_ir):
    """the witness of RefNestProofs.gen_agrees_with_ref_refuted_array on the REAL generated code: the reference says an
    array has size/elem elements of its designated window and is readable when that window is in the message; the
    generated code agrees on messages that contain the whole array and reports the clamped count (Ok) on truncated
    ones (known finding F9, key prefix-instability:array)."""
    from compiler.back_end.cpp import header_generator
    ir, errors = compile_ir(ARRAY_WITNESS)
    if errors:
        ctx.obligation("reference: the array witness module compiles", False)
        return
    tr = view_x.ViewTranslator(ir)
    top = [k for k, t in enumerate(tr.types) if t.name.name.text == "Top"][0]
    header, _ = header_generator.generate_header(ir)
    bufs = [[3, 7], [3, 7, 8, 9], [3, 7, 8, 9, 10], [2, 7, 8], [2, 7], [0], [1], [5, 1, 2, 3], [4, 1, 2, 3, 4]]
    bufs += [[ctx.rng.randrange(0, 9)] + [ctx.rng.randrange(256) for _ in range(ctx.rng.randrange(0, 9))] for _ in range(12)]
    res = cpp_build.run_jobs(os.path.join(ctx.bdir, "cpp_ref_array"), [cpp_build.CppJob("a0", None, tr.driver("/*INLINE*/\n" + header, top, [], bufs))],
                             parallel=1)["a0"]
    if not res.ok:
        ctx.obligation("reference: the array witness builds", False)
        return
    lines = {l.split(" ", 1)[0]: l for l in res.lines if l.startswith("B")}
    cases = []
    for bi, b in enumerate(bufs):
        obs = [int(x) for x in lines["B%d" % bi].split()[1:]]
        idx = 5 if obs[3] == 1 else 4
        idx += 2 + (1 if obs[idx + 1] == 1 else 0)          # n: has, ok, value
        triple = obs[idx:idx + 3]                            # payload: has, ok, ElementCount
        cases.append(("(0%%nat, (1%%nat, %s))" % zlist(b), zlist(triple), dict(buffer=b, cpp=triple)))
    hdr = HEADER + "Definition mods : list (module * nat * list (maybe value)) := [(%s, %d%%nat, @nil (maybe value))].\n" % (tr.module(), top)
    bad = fw.CoqCases(ctx, "nrefarray", hdr, "run_nref_field_probe mods", "zlist_eqb", "(nat * (nat * list Z))", "(list Z)", shard=60).run(cases)
    differ = {idx for idx, _ in bad}
    whole = [i for i, c in enumerate(cases) if len(c[2]["buffer"]) >= 1 + c[2]["buffer"][0]] if cases else []
    whole = [i for i in whole if cases[i][2]["buffer"]]
    trunc = [i for i in range(len(cases)) if i not in whole]
    ctx.count("ref:array-witness-whole-array-agrees", len([i for i in whole if i not in differ]))
    ctx.count("ref:array-witness-truncated-clamped-count(F9)", len([i for i in trunc if i in differ]))
    for c in cases:
        ctx.case(("ref-array", tuple(c[2]["buffer"])), nontrivial=len(c[2]["buffer"]) > 0, sample=c[2])
    first = cases[0][2]["cpp"] if cases else None
    ctx.obligation("reference, arrays: on the %d messages that contain the whole array the generated C++ reports the reference's "
                   "element count and readability; the witness of gen_agrees_with_ref_refuted_array {3, 7} reads %s on the real code "
                   "(reference: present, not readable, 3 elements)" % (len(whole), first),
                   bool(whole) and not any(i in differ for i in whole))


FLAGS = ["flat-class", "nested-class", "bits", "nested-structure", "nested-with-arguments", "dynamic-size"]


def _compare(ctx, mods, cases, what_of):
    """mods: Coq terms (module, struct index, parameters); cases: ("(k, bytes)", C++ observation vector, object);
    what_of(k): the source of structure k ("collected", "generated", "nested").
    Returns (set of structure indices in the widened class, per-structure flags, number compared, mismatches)."""
    if not mods:
        return set(), {}, 0, []
    hdr = HEADER + "Definition mods : list (module * nat * list (maybe value)) := [\n" + ";\n".join(mods) + "\n].\n"
    # class membership and features of every structure, decided in Coq (wf_ref, wf_ref_n, features)
    cls = fw.CoqCases(ctx, "refclass", hdr, "ref_flag mods", "zlist_eqb", "(nat * nat)", "(list Z)", shard=60)
    probes = [(k, j) for k in range(len(mods)) for j in range(len(FLAGS))]
    out = cls.run([("(%d%%nat, %d%%nat)" % (k, j), "[1]", (k, j)) for k, j in probes])
    off = {probes[idx] for idx, _ in out}
    flags = {k: {FLAGS[j] for j in range(len(FLAGS)) if (k, j) not in off} for k in range(len(mods))}
    flat = {k for k in flags if "flat-class" in flags[k]}
    inside = {k for k in flags if "nested-class" in flags[k]}
    for k in range(len(mods)):
        what = what_of(k)
        ctx.count("ref:%s-structures-%s" % (what, "in-class" if k in inside else "outside-class"))
        if k in flat:
            ctx.count("ref:%s-structures-in-flat-class" % what)
        if k in inside:
            for fl in flags[k] - {"flat-class", "nested-class"}:
                ctx.count("ref:%s-structures-with-%s" % (what, fl))
    ctx.obligation("reference: every structure of the flat class wf_ref is in the widened class wf_ref_n (%d structures)" % len(flat),
                   flat <= inside)
    idx_of = lambda c: int(c[0].split("%")[0].strip("("))
    sel = [c for c in cases if idx_of(c) in inside]
    for c in cases:
        if idx_of(c) not in inside:
            ctx.count("ref:%s-cases-outside-class" % what_of(idx_of(c)))
    if not sel:
        return inside, flags, 0, []
    runner = fw.CoqCases(ctx, "nrefviews", hdr, "run_nref_case mods", "zlist_eqb", "(nat * list Z)", "(list Z)", shard=60)
    bad = [(sel[idx], out, "View.RefNest.ref_observe_n") for idx, out in runner.run(sel)]
    # the flat reference of View/Ref.v stays tied on the structures of its own class
    sel_flat = [c for c in sel if idx_of(c) in flat]
    if sel_flat:
        runner0 = fw.CoqCases(ctx, "refviews", hdr, "run_ref_case mods", "zlist_eqb", "(nat * list Z)", "(list Z)", shard=60)
        bad += [(sel_flat[idx], out, "View.Ref.ref_observe (ref_solve)") for idx, out in runner0.run(sel_flat)]
        ctx.count("ref:cases-also-through-flat-reference", len(sel_flat))
    for c in sel:
        obj = c[2]
        complete = len(obj["cpp"]) > 2 and obj["cpp"][2] == 1
        ctx.count("ref:%s-%s-buffer" % (what_of(idx_of(c)), "complete" if complete else "truncated"))
        for fl in flags[idx_of(c)] - {"flat-class", "nested-class"}:
            ctx.count("ref:cases-with-%s-%s" % (fl, "complete" if complete else "truncated"))
        ctx.case(("ref", obj["module"], tuple(obj["buffer"])), nontrivial=len(obj["buffer"]) > 0,
                 sample={"buffer": obj["buffer"], "reference_and_cpp_observations": obj["cpp"][:40], "module_head": obj["module"][:300]})
    return inside, flags, len(sel), bad


def run(ctx, compile_ir, mods, cases):
    """hook called by harness/props/c01.py after its own correspondence: `mods`/`cases` are the ones it compared
    with the generated-code model."""
    n_mod = 60 if ctx.thorough() else 8
    n_nest = 60 if ctx.thorough() else 10
    n_buf = 50 if ctx.thorough() else 22
    # generated for the flat class, then for the widened class: one fixed shape per new feature in every run,
    # then random combinations
    gens = [RefModule(ctx.rng) for _ in range(n_mod)]
    gens += [NestModule(ctx.rng, shape=sh) for sh in sorted(NEST_SHAPES)] + [NestModule(ctx.rng) for _ in range(n_nest)]
    base = len(mods)
    omods, ocases, shapes = own_cases(ctx, compile_ir, gens, n_buf, "g", base=base)

    def what_of(k):
        return "collected" if k < base else ("generated" if shapes[k - base] == "flat" else "nested")

    inside, flags, total_cmp, bad = _compare(ctx, list(mods) + omods, list(cases) + ocases, what_of)
    own_flat = [base + k for k, sh in enumerate(shapes) if sh == "flat"]
    own_nest = [base + k for k, sh in enumerate(shapes) if sh != "flat"]
    ctx.obligation("reference: the generator for the flat class produces structures inside the class (%d of %d)"
                   % (len([k for k in own_flat if "flat-class" in flags.get(k, ())]), len(own_flat)),
                   len(own_flat) > 0 and len([k for k in own_flat if "flat-class" in flags.get(k, ())]) * 2 >= len(own_flat))
    want = {"bits": "bits", "nested": "nested-structure", "params": "nested-with-arguments", "dynsize": "dynamic-size"}
    fixed_ok = all(sh in shapes and (base + shapes.index(sh)) in inside and want[sh] in flags[base + shapes.index(sh)]
                   for sh in NEST_SHAPES)
    ctx.obligation("reference: the seed-independent modules for bits blocks, nested structures, parameters and dynamic sizes "
                   "compile, lie in the widened class wf_ref_n and show their feature", fixed_ok)
    ctx.obligation("reference: the generator for the widened class produces structures inside the class (%d of %d)"
                   % (len([k for k in own_nest if k in inside]), len(own_nest)),
                   len(own_nest) > 0 and len([k for k in own_nest if k in inside]) * 2 >= len(own_nest))
    ctx.obligation("reference: %d (structure, buffer) observation vectors of the generated C++ equal the reference's "
                   "(View.RefNest.ref_observe_n, and View.Ref.ref_observe on the flat class; complete and truncated buffers; "
                   "%d structures in the class)" % (total_cmp, len(inside)),
                   total_cmp > 0 and not bad)
    array_probe(ctx, compile_ir)
    for (inp, exp, obj), out, which in bad[:6]:
        ctx.violation("view-ref-disagreement",
                      "the reference semantics and the generated C++ disagree on a buffer of length %d" % len(obj["buffer"]),
                      dict(kind="view", correspondence="%s vs generated C++ observations" % which,
                           module=obj["module"], buffer=obj["buffer"], cpp=obj["cpp"], reference=out[:4000]), found_input=True)
