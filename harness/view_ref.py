"""C01 -- correspondence of the REFERENCE semantics (coq/theories/View/Ref.v) with the real generated C++.

For every (module, structure, parameters) whose structure lies in the decidable class `wf_ref` of the
agreement theorem (View/Properties_C01.v: gen_agrees_with_ref_partial, gen_observations_are_ref) the
reference's observation vector -- computed in Coq by `ref_solve`/`ref_observe`, with no storage clamp,
no Maybe<> environment and no evaluation order -- must EQUAL the observation vector the compiled
generated code printed for the same buffer: on complete buffers and on truncated ones.

Two sources of cases:
  * the (module, buffer) cases the C01 check already collected (gen_view modules and testdata structures);
    those outside the class are counted, not compared;
  * modules generated here for the class (RefModule): scalars of several kinds/widths/byte orders at static,
    dynamic and $next offsets, existence conditions over earlier and later fields (also over fields that are
    themselves absent), [requires], virtual fields, aliases, $present, $max, $size_in_bytes in expressions,
    an optional top-level parameter.
"""
import os

from harness import fw, view_x, cpp_build
from harness.irx import OutOfModel

HEADER = ("Require Import EmbossV.Bounds.Model EmbossV.View.Model EmbossV.View.Exec EmbossV.View.Ref EmbossV.View.RefExec.\n"
          "Open Scope Z_scope.\n")


def zlist(xs):
    return "[" + "; ".join(("(%d)" % x) if x < 0 else str(x) for x in xs) + "]"


class RefModule:
    """a module whose structure `Top` is meant to lie in the class wf_ref"""

    def __init__(self, rng):
        r = self.r = rng
        L = self.lines = []
        self.order = r.choice(["LittleEndian", "BigEndian"])
        L.append('[$default byte_order: "%s"]' % self.order)
        L.append('[(cpp) namespace: "m"]')
        L += ["enum Kind:", "  ZERO = 0", "  ONE = 1", "  TWO = 2", "  BIG = 200"]
        self.top_param = None
        if r.random() < 0.3:
            self.top_param = r.choice([0, 1, 2, 3, 5, 200])
            L.append("struct Top(tp: UInt:8):")
        else:
            L.append("struct Top:")
        self.max_len = 0
        self.fields()

    def fields(self):
        r, L = self.r, self.lines
        L.append("  0 [+1]  UInt  tag")
        L.append("  1 [+1]  UInt  len")
        small = ["tag", "len"]            # unconditional one-byte unsigned fields
        if self.top_param is not None:
            small.append("tp")
        ints = list(small)                # any integer field (possibly conditional, possibly wide or signed)
        enums = []
        names = ["tag", "len"]
        off = 2
        n = r.randint(2, 7)
        for i in range(n):
            name = "f%d" % i
            kind = r.choice(["UInt", "UInt", "UInt", "Int", "Bcd", "Kind"])
            size = r.choice([1, 1, 2, 2, 3, 4, 8]) if kind != "Kind" else r.choice([1, 2, 4])
            attrs = []
            if r.random() < 0.3:
                attrs.append('[byte_order: "%s"]' % r.choice(["LittleEndian", "BigEndian"]))
            if kind in ("UInt", "Int") and r.random() < 0.25:
                attrs.append("[requires: %s]" % r.choice(["this < 100", "this != 13", "this != 0 && this < 200", "this > 1"]))
            k = r.random()
            if k < 0.5:
                pos = str(off)
            elif k < 0.65 and i > 0:
                pos = "$next"
            elif k < 0.9:
                pos = "%s + %d" % (r.choice(small), r.choice([0, 1, 2, off]))
            else:
                a, b = r.choice(small), r.choice(small)
                pos = r.choice(["%s + %s" % (a, b), "%s * 2 + 2" % a, "(%s < 4 ? %d : %s)" % (a, off, b)])
            cond = None
            k = r.random()
            if k < 0.25:
                cond = "%s == %d" % (r.choice(small), r.choice([0, 1, 1, 2, 3]))
            elif k < 0.35:
                cond = r.choice(["tag > 2", "len != 0", "tag < 100 && len > 0", "tag == 1 || len == 7", "tag + len < 9"])
            elif k < 0.5 and len(ints) >= 3:
                a, b = r.sample(ints, 2)      # possibly conditional or not-yet-readable operands
                cond = "%s %s %d %s %s %s %d" % (a, r.choice(["==", "!=", "<"]), r.choice([0, 1, 2, 7]), r.choice(["&&", "||"]),
                                                 b, r.choice(["==", "!=", ">"]), r.choice([0, 1, 3, 7]))
            elif k < 0.58 and len(names) > 2:
                cond = "%s$present(%s)" % (r.choice(["", "!"]) if False else "", r.choice(names[2:]))
            elif k < 0.64 and enums:
                cond = "%s == Kind.%s" % (r.choice(enums), r.choice(["ONE", "TWO", "BIG"]))
            ind = "  "
            if cond:
                L.append("  if %s:" % cond)
                ind = "    "
            L.append("%s%s [+%d]  %s  %s" % (ind, pos, size, kind, name))
            for a in attrs:
                L.append("%s  %s" % (ind, a))
            names.append(name)
            if kind in ("UInt", "Int") and size <= 4:
                ints.append(name)
                if kind == "UInt" and size == 1 and not cond and not attrs:
                    small.append(name)
            if kind == "Kind":
                enums.append(name)
            off += size
        self.max_len = off + 12
        # virtual fields and aliases
        for j in range(r.randint(0, 6)):
            a, b = r.choice(ints), r.choice(ints)
            s = r.choice(small)
            expr = r.choice(["%s + %d" % (a, r.choice([1, 10, 100])),
                             "%s" % r.choice(names),                       # alias
                             "%s > 5 || %s == 0" % (a, b),
                             "%s > 3 && %s == 0" % (a, b),
                             "(%s == 0 ? %s : 5) + 1" % (s, a),
                             "$max(%s, %s, 3)" % (a, s),
                             "$size_in_bytes + %s" % s,
                             "$present(%s)" % r.choice(names),
                             "%s * 2 - %s" % (s, b),
                             "%s - %s" % (a, b)])
            L.append("  let v%d = %s" % (j, expr))
            if r.random() < 0.2 and not expr.startswith("$present") and "||" not in expr and "&&" not in expr and expr not in names:
                L.append("    [requires: this < 100]")
        if r.random() < 0.25:
            L.insert(L.index([x for x in L if x.startswith("struct Top")][0]) + 1, "  [requires: tag != 9 && len < 250]")

    def text(self):
        return "\n".join(self.lines) + "\n"


def buffers(rng, max_len, count):
    out = [[], [1], [1, 2]]
    fills = [lambda i: 0, lambda i: 255, lambda i: 1, lambda i: rng.randrange(256),
             lambda i: rng.choice([0, 1, 2, 3, 4, 5, 7, 9, 0x13, 0x99, 128, 255]), lambda i: rng.randrange(8)]
    for _ in range(count):
        n = rng.choice(list(range(0, 14)) + [rng.randint(0, max_len)] * 6 + [max_len, max_len + 2])
        f = rng.choice(fills)
        b = [f(i) for i in range(n)]
        for j in (0, 1):
            if len(b) > j and rng.random() < 0.8:
                b[j] = rng.choice([0, 1, 2, 3, 4, 5, 7, 9, 200])
        out.append(b)
    return out


def own_cases(ctx, compile_ir, n_mod, n_buf):
    """modules generated for the class, through the real front end, back end and g++"""
    from compiler.back_end.cpp import header_generator
    jobs, infos = [], []
    for i in range(n_mod):
        gm = RefModule(ctx.rng)
        text = gm.text()
        try:
            ir, errors = compile_ir(text)
        except Exception as ex:
            ctx.count("ref:compile-crash")
            ctx.note("compiler raised %r on reference-class module %d" % (ex, i))
            continue
        if errors:
            ctx.count("ref:compile-rejected")
            if ctx.histogram.get("ref:compile-rejected", 0) <= 3:
                from compiler.util import error
                ctx.note("rejected (reference-class generator): " + error.format_errors(errors, {"m.emb": text}).split("\n")[0])
            continue
        try:
            tr = view_x.ViewTranslator(ir)
            mod_term = tr.module()
            top = [k for k, t in enumerate(tr.types) if t.name.name.text == "Top"][0]
            header, herrs = header_generator.generate_header(ir)
            if herrs:
                ctx.count("ref:header-generation-rejected")
                continue
            bufs = buffers(ctx.rng, gm.max_len, n_buf)
            pvals = [gm.top_param] if gm.top_param is not None else []
            driver = tr.driver("/*INLINE*/\n" + header, top, pvals, bufs)
        except OutOfModel as ex:
            ctx.count("ref:out-of-model:" + str(ex).split(" ")[0])
            continue
        jobs.append(cpp_build.CppJob("r%d" % i, None, driver))
        infos.append(dict(i=i, text=text, mod=mod_term, top=top, bufs=bufs, pvals=pvals))
    results = cpp_build.run_jobs(os.path.join(ctx.bdir, "cpp_ref"), jobs, parallel=fw.NPROC)
    mods, cases = [], []
    for info in infos:
        res = results["r%d" % info["i"]]
        if not res.ok:
            ctx.count("ref:cpp-" + res.stage + "-failed")
            ctx.violation("cpp-build-failed:" + res.stage, "generated header/driver failed at stage %s: %s" % (res.stage, res.log[-600:]),
                          dict(kind="module", module=info["text"], stage=res.stage, log=res.log[-3000:]), found_input=True)
            continue
        k = len(mods)
        mods.append("(%s, %d%%nat, %s)" % (info["mod"], info["top"],
                                           "[" + "; ".join("Some (VInt %d)" % v for v in info["pvals"]) + "]" if info["pvals"] else "@nil (maybe value)"))
        lines = {l.split(" ", 1)[0]: l for l in res.lines if l.startswith("B")}
        for bi, b in enumerate(info["bufs"]):
            l = lines.get("B%d" % bi)
            if l is None:
                ctx.violation("cpp-driver-output-missing", "driver printed no line for buffer %d" % bi,
                              dict(kind="module", module=info["text"], buffer=b), found_input=False)
                continue
            obs = [int(x) for x in l.split()[1:]]
            cases.append(("(%d%%nat, %s)" % (k, zlist(b)), zlist(obs), dict(module=info["text"], buffer=b, cpp=obs)))
    return mods, cases


def _compare(ctx, tag, mods, cases, what):
    """mods: Coq terms (module, struct index, parameters); cases: ("(k, bytes)", C++ observation vector, object).
    Returns (number of structures in the class, number compared, mismatches)."""
    if not mods:
        return 0, 0, []
    hdr = HEADER + "Definition mods : list (module * nat * list (maybe value)) := [\n" + ";\n".join(mods) + "\n].\n"
    cls = fw.CoqCases(ctx, "refclass_" + tag, hdr, "ref_in_class mods", "zlist_eqb", "nat", "(list Z)", shard=40)
    out = cls.run([("%d%%nat" % k, "[1]", k) for k in range(len(mods))])
    outside = {idx for idx, _ in out}
    inside = [k for k in range(len(mods)) if k not in outside]
    ctx.count("ref:%s-structures-in-class" % what, len(inside))
    ctx.count("ref:%s-structures-outside-class" % what, len(outside))
    sel = [c for c in cases if int(c[0].split("%")[0].strip("(")) in inside]
    ctx.count("ref:%s-cases-outside-class" % what, len(cases) - len(sel))
    if not sel:
        return len(inside), 0, []
    runner = fw.CoqCases(ctx, "refviews_" + tag, hdr, "run_ref_case mods", "zlist_eqb", "(nat * list Z)", "(list Z)", shard=60)
    bad = runner.run(sel)
    for a, b, obj in sel:
        complete = len(obj["cpp"]) > 2 and obj["cpp"][2] == 1
        ctx.count("ref:%s-%s-buffer" % (what, "complete" if complete else "truncated"))
        ctx.case(("ref", obj["module"], tuple(obj["buffer"])), nontrivial=len(obj["buffer"]) > 0,
                 sample={"buffer": obj["buffer"], "reference_and_cpp_observations": obj["cpp"][:40], "module_head": obj["module"][:300]})
    return len(inside), len(sel), [(sel[idx], out) for idx, out in bad]


def run(ctx, compile_ir, mods, cases):
    """hook called by harness/props/c01.py after its own correspondence: `mods`/`cases` are the ones it compared
    with the generated-code model."""
    n_mod = 60 if ctx.thorough() else 14
    n_buf = 50 if ctx.thorough() else 28
    total_in, total_cmp, bad = 0, 0, []
    a, b, c = _compare(ctx, "c01", mods, cases, "collected")
    total_in, total_cmp, bad = total_in + a, total_cmp + b, bad + c
    omods, ocases = own_cases(ctx, compile_ir, n_mod, n_buf)
    a2, b2, c2 = _compare(ctx, "own", omods, ocases, "generated")
    total_in, total_cmp, bad = total_in + a2, total_cmp + b2, bad + c2
    ctx.obligation("reference: the generator for the class produces structures inside wf_ref (%d of %d)" % (a2, len(omods)),
                   len(omods) > 0 and a2 * 2 >= len(omods))
    ctx.obligation("reference: %d (structure, buffer) observation vectors of the generated C++ equal View.Ref's "
                   "(complete and truncated buffers; %d structures in the class wf_ref)" % (total_cmp, total_in),
                   total_cmp > 0 and not bad)
    for (inp, exp, obj), out in bad[:6]:
        ctx.violation("view-ref-disagreement",
                      "the reference semantics and the generated C++ disagree on a buffer of length %d" % len(obj["buffer"]),
                      dict(kind="view", correspondence="View.Ref.ref_observe (ref_solve) vs generated C++ observations",
                           module=obj["module"], buffer=obj["buffer"], cpp=obj["cpp"], reference=out[:4000]), found_input=True)
