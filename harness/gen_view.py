"""Generator of .emb modules for the view-level checks (C01, C04, C20): structures
with scalars of many widths and byte orders, conditions (incl. the tag == CONST
switch pattern with repeated labels), dynamic offsets and sizes, bits blocks,
enums, virtual fields and aliases, nested structures, parameters, arrays, $next."""


class ViewModule:
    def __init__(self, rng, features=None):
        self.r = rng
        self.feat = features or {}
        self.lines = []
        self.structs = []          # names of top-level candidate structs (no parameters)
        # by-construction oracle, independent of the compiler: unconditional scalar fields of Top at static
        # offsets as (name, offset, size, kind, byte order that the language rules make effective, existence
        # condition text or None)
        self.oracle = []
        self.floats = []
        self.build()

    def f(self, name, p):
        """feature switch: explicit value or probability p"""
        if name in self.feat:
            return self.feat[name]
        return self.r.random() < p

    def build(self):
        r = self.r
        L = self.lines
        self.default_order = r.choice(["LittleEndian", "BigEndian"])
        L.append('[$default byte_order: "%s"]' % self.default_order)
        L.append('[(cpp) namespace: "m"]')
        L.append("enum Kind:")
        L.append("  ZERO = 0")
        L.append("  ONE = 1")
        L.append("  TWO = 2")
        L.append("  BIG = 200")
        # an imported module with a structure and an enum used by Top
        self.inc_text = None
        if self.f("import", 0.3):
            self.inc_text = ('[$default byte_order: "%s"]\n[(cpp) namespace: "inc_ns"]\nenum Shade:\n  DARK = 0\n  LIGHT = 1\n'
                             'struct Shared:\n  0 [+1]  UInt  count\n  1 [+1]  Shade  shade\n  if count > 1:\n    2 [+2]  UInt  more\n'
                             % r.choice(["LittleEndian", "BigEndian"]))
            L.insert(0, 'import "inc.emb" as inc')
        # a bits type used INSIDE another bits block at a non-zero bit offset (OffsetBitBlock of an OffsetBitBlock)
        self.has_nib = self.f("nested_bits", 0.6)
        if self.has_nib:
            L.append("bits Nib:")
            L.append("  0 [+2]  UInt  lo")
            L.append("  2 [+3]  UInt  mid")
            L.append("  5 [+1]  Flag  fl")
            if r.random() < 0.5:
                L.append("  if fl:")
                L.append("    3 [+2]  UInt  mid_hi")
        # a one-byte aggregate with uncovered bits, used as an array element (element-wise, logical comparison)
        self.has_cell = self.f("cell_array", 0.6)
        if self.has_cell:
            L.append("struct Cell:")
            L.append("  0 [+1]  bits:")
            L.append("    0 [+3]  UInt  ca")
            L.append("    4 [+1]  Flag  cf")
            if r.random() < 0.5:
                L.append("  if cf:")
                L.append("    0 [+1]  UInt  whole")
        self.has_inner = self.f("nested", 0.5)
        self.has_param = self.f("param", 0.35)
        if self.has_inner:
            L.append("struct Inner:")
            L.append("  0 [+1]  UInt  len")
            self.inner_size = r.choice([4, 6, 9])
            k = r.random()
            if k < 0.3:
                # wide scalars at offsets that are aligned RELATIVE to Inner; Top places Inner at an arbitrary offset
                self.inner_size = 20
                L.append("  8 [+8]  UInt  wide")
                L.append("  16 [+4]  UInt  mid")
            elif k < 0.65:
                L.append("  1 [+len]  UInt:8[]  data")
            else:
                self.inner_size = 4
                L.append("  1 [+2]  UInt  val")
                L.append("  if len > 3:")
                L.append("    3 [+1]  UInt  extra")
        if self.has_param:
            L.append("struct Par(n: UInt:8):")
            L.append("  0 [+1]  UInt  head")
            L.append("  1 [+n]  UInt:8[]  body")
            if r.random() < 0.5:
                L.append("  let total = n + head")
        if self.f("decoy", 0.5):
            # a structure-level $default that must stay inside its structure
            L.append("struct Decoy:")
            L.append('  [$default byte_order: "%s"]' % ("BigEndian" if self.default_order == "LittleEndian" else "LittleEndian"))
            L.append("  0 [+2]  UInt  dd")
            L.append("  2 [+4]  Int  ee")
        # the top-level structure may itself take a parameter (passed to Make...View)
        self.top_param = None
        if self.f("top_param", 0.3):
            self.top_param = r.choice([0, 1, 2, 3, 5, 200])
            L.append("struct Top(tp: UInt:8):")
        else:
            L.append("struct Top:")
        self.top_fields()
        self.structs.append("Top")

    def top_fields(self):
        r = self.r
        L = self.lines
        ints = []          # (name, max)  usable in expressions
        off = 0
        L.append("  0 [+1]  UInt  tag")
        self.oracle.append(("tag", 0, 1, "UInt", self.default_order, None))
        ints.append("tag")
        if self.top_param is not None:
            ints.append("tp")
        off = 1
        n = r.randint(1, 5)
        names = []
        dynamic_off = None
        for i in range(n):
            name = "f%d" % i
            kind = r.choice(["UInt", "UInt", "Int", "Bcd"])
            size = r.choice([1, 1, 2, 2, 3, 4, 8])
            bo = ""
            order = self.default_order
            if r.random() < 0.3:
                order = r.choice(["LittleEndian", "BigEndian"])
                bo = '\n    [byte_order: "%s"]' % order
            pos = "%d" % off if dynamic_off is None else "%s + %d" % (dynamic_off[0], off - dynamic_off[1])
            if self.f("next", 0.2) and i > 0:
                pos = "$next"
            cond = None
            k = r.random()
            if k < 0.35:
                cond = "tag == %d" % r.choice([0, 1, 1, 2, 3])
                if r.random() < 0.35:
                    cond = "%d == tag" % r.choice([0, 1, 1, 2, 3])     # constant on the left of ==: still a switch candidate
            elif k < 0.5:
                cond = r.choice(["tag > 2", "tag != 0", "tag < 100 && tag > 0", "tag == 1 || tag == 7"])
            elif k < 0.65 and len(ints) >= 2:
                # conjunction / disjunction over two DIFFERENT fields in either order: on a truncated buffer one
                # side is unreadable while the other already decides the result (symmetric short-circuit)
                a, b = r.sample(ints, 2)
                cond = "%s %s %d %s %s %s %d" % (a, r.choice(["==", "!=", "<"]), r.choice([0, 1, 2, 7]), r.choice(["&&", "||"]),
                                                 b, r.choice(["==", "!=", ">"]), r.choice([0, 1, 3, 7]))
            if cond:
                L.append("  if %s:" % cond)
                L.append("    %s [+%d]  %s  %s%s" % (pos, size, kind, name, bo.replace("\n    ", "\n      ")))
                if dynamic_off is None:
                    self.oracle.append((name, off, size, kind, order, cond))
            else:
                L.append("  %s [+%d]  %s  %s%s" % (pos, size, kind, name, bo))
                if dynamic_off is None:
                    self.oracle.append((name, off, size, kind, order, None))
                if size <= 2 and kind == "UInt":
                    ints.append(name)
            names.append(name)
            off += size
        # bits block
        if self.f("bits", 0.6):
            sz = r.choice([1, 2, 4])
            L.append("  %d [+%d]  bits:" % (off, sz))
            L.append("    0 [+1]  Flag  flag")
            L.append("    1 [+3]  UInt  small")
            L.append("    4 [+2]  Kind  kind")
            if sz > 1:
                L.append("    8 [+%d]  Int  sint" % r.choice([3, 5, 8]))
            if sz > 1 and self.has_nib:
                L.append("    %d [+6]  Nib  nib" % r.choice([9, 10]))
            if sz == 4 and r.random() < 0.7:
                L.append("    %d [+6]  UInt:2[3]  duo" % r.choice([17, 20, 26]))
            ints.append("small")
            off += sz
            if r.random() < 0.5:
                L.append("  if flag:")
                L.append("    %d [+1]  UInt  after_flag" % off)
                off += 1
            if r.random() < 0.4:
                L.append("  if %s:" % r.choice(["kind == Kind.TWO", "Kind.TWO == kind", "kind == Kind.ONE"]))
                L.append("    %d [+2]  UInt  if_two" % off)
                off += 2
        if self.has_cell:
            L.append("  %d [+3]  Cell[3]  cells" % off)
            off += 3
        # dynamic array
        if self.f("array", 0.5):
            cnt = r.choice(ints)
            es = r.choice([1, 1, 2])
            if es == 1:
                L.append("  %d [+%s]  UInt:8[]  payload" % (off, cnt))
            else:
                L.append("  %d [+%s*2]  UInt:16[]  payload" % (off, cnt))
            if r.random() < 0.5:
                L.append("  %d+%s%s [+1]  UInt  trailer" % (off, cnt, "*2" if es == 2 else ""))
        # nested
        if self.has_inner and r.random() < 0.8:
            L.append("  %d [+%d]  Inner  inner" % (off + 40, self.inner_size))
            if r.random() < 0.5:
                L.append("  let inner_len = inner.len")
        if self.has_param and r.random() < 0.8:
            arg = r.choice(ints + ["3"])
            L.append("  %d [+12]  Par(%s)  par" % (off + 50, arg))
        if self.inc_text is not None:
            L.append("  %d [+4]  inc.Shared  shared" % (off + 90))
            L.append("  let shared_count = shared.count")
            if r.random() < 0.5:
                L.append("  if shared.shade == inc.Shade.LIGHT:")
                L.append("    %d [+1]  UInt  when_light" % (off + 94))
        # virtual fields
        if self.f("virtual", 0.7):
            a = r.choice(ints)
            L.append("  let v_sum = %s + %d" % (a, r.choice([1, 10, 100])))
            L.append("  let v_alias = %s" % a)
            L.append("  let v_bool = %s > 5 || tag == 0" % a)
            if len(ints) >= 2:
                b1, b2 = r.sample(ints, 2)
                L.append("  let v_and = %s > 3 && %s == 0" % (b1, b2))
                L.append("  let v_or = %s == 1 || %s != 2" % (b1, b2))
                L.append("  let v_pick = (%s == 0 ? %s : 5) + 1" % (b2, b1))
            if r.random() < 0.5:
                L.append("  let v_req = %s * 2" % a)
                L.append("    [requires: this < 100]")
        # virtual fields whose inferred bounds sit exactly on a C++ type boundary (2^31, 2^32, 2^63, 2^64)
        if self.f("edge_virtual", 0.6):
            L.append("  %d [+2]  UInt  e16" % (off + 72))
            L.append("  %d [+4]  Int  e32s" % (off + 74))
            L.append("  %d [+4]  UInt  e32u" % (off + 78))
            for tmpl in r.sample(["(e16 + 1) * 32768", "e32s + 1", "0 - e32s", "e32u + 1", "(e32u + 1) * 2147483648",
                                  "e32s * 2 + 1", "(e16 + 1) * 65536 - 1", "e32u * 4294967297",
                                  "e32u - e16", "$max(e32s, e32u)", "(e32s < 0 ? 0 - e32s : e32s)"], r.randint(2, 5)):
                L.append("  let ev%d = %s" % (len(L), tmpl))
            # always present: operations MIXING an operand that needs uint32 with one that can be negative (the common
            # C++ type of the operation is int64, not the wider-ranked of the operands' own types)
            for tmpl in ("$max(e32s, e32u)", "(e32u > e32s ? 1 : 0)", "(e32s < e16 ? 3 : 4)", "(e32s == e32u ? 5 : 6)"):
                L.append("  let ev%d = %s" % (len(L), tmpl))
        # operands at LOW offsets (inside almost every buffer; they overlap the first fields, which the language allows)
        # whose comparison / $max needs a C++ type wider than either operand's own: a uint32 against a value that can be
        # negative.  With bytes >= 0x80 the signed operand is negative at run time.
        if self.f("mixed_sign", 1.0):
            L.append("  1 [+4]  UInt  mxu")
            L.append("  5 [+1]  Int  mxs")
            L.append("  let mx_max = $max(mxu, mxs)")
            L.append("  let mx_gt = (mxu > mxs ? 1 : 0)")
            L.append("  let mx_eq = (mxs == mxu ? 5 : 6)")
            L.append("  let mx_le = mxs <= mxu")
        if self.f("requires", 0.3):
            L.append("  %d [+1]  UInt  checked" % (off + 70))
            L.append("    [requires: this != 13 && this < 250]")
        # a Bcd field whose [requires] arithmetic fits its C++ type only for decimal digits (99 * 20_000_000 < 2^31, but
        # the value a non-decimal nibble converts to does not): the validator may only see values of an Ok() field
        if self.f("bcd_requires", 0.4):
            L.append("  %d [+1]  Bcd  bcd_checked" % (off + 71))
            L.append("    [requires: this * 20_000_000 <= 1_900_000_000]")
        # Float fields (compared by value: +0 == -0, NaN != NaN); drawn last so that the random stream of the
        # other features is unchanged.  They may overlap the dynamic array, which the language allows.
        self.floats = []       # (name, offset, size in bytes, effective byte order)
        if self.f("float", 0.5):
            for nm, o, sz in (("fl32", off + 20, 4), ("fl64", off + 24, 8)):
                order = self.default_order
                bo = ""
                if r.random() < 0.3:
                    order = r.choice(["LittleEndian", "BigEndian"])
                    bo = '\n    [byte_order: "%s"]' % order
                if r.random() < 0.25:
                    L.append("  if tag != 3:")
                    L.append("    %d [+%d]  Float  %s%s" % (o, sz, nm, bo.replace("\n    ", "\n      ")))
                else:
                    L.append("  %d [+%d]  Float  %s%s" % (o, sz, nm, bo))
                self.floats.append((nm, o, sz, order))

    def text(self):
        return "\n".join(self.lines) + "\n"


def buffers_for(rng, max_len, count):
    """Buffers of every small length plus random longer ones, with varied contents."""
    out = []
    fills = [lambda i: 0, lambda i: 255, lambda i: 1, lambda i: rng.randrange(256), lambda i: rng.choice([0, 1, 2, 3, 7, 128, 255])]
    for _ in range(count):
        n = rng.choice(list(range(0, 12)) + [rng.randint(0, max_len)] * 4 + [max_len, max_len + 2])
        f = rng.choice(fills)
        b = [f(i) for i in range(n)]
        if b and rng.random() < 0.7:
            b[0] = rng.choice([0, 1, 2, 3, 4, 7, 200])
        out.append(b)
    return out
