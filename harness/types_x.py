"""C13 / C14 translators (fail-closed).

* probe_sig_table(): executes type_check.py on probe expressions (one per operator x
  argument-kind vector, built at IR level from real leaf expressions) and on small
  probe modules, and derives the `sig_table` of EmbossV.Types.Model.
* ModuleTranslator: front-end IR (stopped before annotate_types) -> leaf type lists +
  `list item` of EmbossV.Types.Model, with a source line per item.
* compiler verdicts bracketed by pass (stop_before_step).
"""
import itertools
import os
import traceback

from compiler.front_end import glue
from compiler.front_end import type_check
from compiler.util import ir_data
from compiler.util import ir_data_utils
from compiler.util import ir_util
from compiler.util import parser_types

FM = ir_data.FunctionMapping


class OutOfModel(Exception):
    pass


class TranslatorError(Exception):
    """Something the translator does not understand: the tie is broken."""


# ----------------------------------------------------------------------------
# compiling
# ----------------------------------------------------------------------------

def make_reader(files, repo=None):
    def reader(fn):
        if fn in files:
            return files[fn], None
        if repo:
            p = os.path.join(repo, fn)
            if os.path.exists(p):
                return open(p).read(), None
        return None, ["file not found: " + fn]
    return reader


def compile_emb(text, stop=None, name="m.emb", extra=None, repo=None):
    """Returns ("ok", ir) | ("errors", [[messages]]) | ("crash", (exc, file, line, func))."""
    files = {name: text}
    if extra:
        files.update(extra)
    try:
        ir, _, errors = glue.parse_emboss_file(name, make_reader(files, repo), stop_before_step=stop)
    except Exception as ex:   # the property says: never
        tb = traceback.extract_tb(ex.__traceback__)
        fr = tb[-1]
        return "crash", (repr(ex), os.path.basename(fr.filename), fr.lineno, fr.name,
                         [os.path.basename(f.filename) + ":" + f.name for f in tb[-6:]])
    if errors:
        return "errors", errors
    return "ok", ir


def error_lines(errors, only_file="m.emb"):
    """[(line, synthetic?, message)] of the primary message of every error."""
    out = []
    for e in errors:
        m = e[0]
        loc = m.location
        line = loc.start.line if loc else 0
        sf = m.source_file if isinstance(m.source_file, str) else "<not-a-string:%s>" % type(m.source_file).__name__
        out.append((int(line), bool(loc.is_synthetic) if loc else True, str(m.message), sf))
    return out


# ----------------------------------------------------------------------------
# kinds
# ----------------------------------------------------------------------------
KINDS = ["KInt", "KBool", "KEnum", "KOpaque"]
_WT2KIND = {"integer": "KInt", "boolean": "KBool", "enumeration": "KEnum", "opaque": "KOpaque"}

FN = {
    FM.ADDITION: "FAdd", FM.SUBTRACTION: "FSub", FM.MULTIPLICATION: "FMul",
    FM.EQUALITY: "FEq", FM.INEQUALITY: "FNe", FM.LESS: "FLt", FM.LESS_OR_EQUAL: "FLe",
    FM.GREATER: "FGt", FM.GREATER_OR_EQUAL: "FGe", FM.AND: "FAnd", FM.OR: "FOr",
    FM.CHOICE: "FChoice", FM.MAXIMUM: "FMax", FM.PRESENCE: "FPresent",
    FM.UPPER_BOUND: "FUpper", FM.LOWER_BOUND: "FLower",
}
FN_TEXT = {
    FM.ADDITION: "+", FM.SUBTRACTION: "-", FM.MULTIPLICATION: "*", FM.EQUALITY: "==",
    FM.INEQUALITY: "!=", FM.LESS: "<", FM.LESS_OR_EQUAL: "<=", FM.GREATER: ">",
    FM.GREATER_OR_EQUAL: ">=", FM.AND: "&&", FM.OR: "||", FM.CHOICE: "?:",
    FM.MAXIMUM: "$max", FM.PRESENCE: "$present", FM.UPPER_BOUND: "$upper_bound",
    FM.LOWER_BOUND: "$lower_bound",
}


def check_function_mapping_complete():
    known = set(FN)
    actual = {f for f in FM if f != FM.UNKNOWN}
    if known != actual:
        raise TranslatorError("FunctionMapping changed: %s" % sorted(x.name for x in known ^ actual))


# ----------------------------------------------------------------------------
# probes
# ----------------------------------------------------------------------------
PROBE_BASE = """enum Aa:
  AX = 1
enum Bb:
  BX = 2
struct Inner:
  0 [+1]  UInt  q
struct Probe(pi: UInt:8, pe: Aa):
  0 [+1]  UInt  xi
  1 [+1]  Aa  xe
  2 [+1]  Bb  xf
  3 [+1]  Inner  xo
  4 [+1]  bits:
    0 [+1]  Flag  xb
  let l_fi = xi
  let l_fb = xb
  let l_fe = xe
  let l_ff = xf
  let l_fo = xo
  let l_ci = 7
  let l_cb = true
  let l_ce = Aa.AX
  let l_cf = Bb.BX
  let l_pi = pi
  let l_pe = pe
"""
# leaf name -> (shape, coq type)
LEAVES = {
    "fi": ("ShField", "TInt"), "fb": ("ShField", "TBool"), "fe": ("ShField", "(TEnum 0)"),
    "ff": ("ShField", "(TEnum 1)"), "fo": ("ShField", "TOpaque"),
    "ci": ("ShOther", "TInt"), "cb": ("ShOther", "TBool"), "ce": ("ShOther", "(TEnum 0)"),
    "cf": ("ShOther", "(TEnum 1)"),
    "pi": ("ShParam", "TInt"), "pe": ("ShParam", "(TEnum 0)"),
}
FIELD_LEAVES = ["fi", "fb", "fe", "ff", "fo"]


class Prober:
    def __init__(self):
        st, ir = compile_emb(PROBE_BASE, stop="annotate_types")
        if st != "ok":
            raise TranslatorError("probe base module does not compile: %r" % (ir,))
        self.ir = ir
        probe = [t for t in ir.module[0].type if t.name.name.text == "Probe"][0]
        self.leaf = {}
        for f in probe.structure.field:
            n = f.name.name.text
            if n.startswith("l_"):
                self.leaf[n[2:]] = f.read_transform
        if set(self.leaf) != set(LEAVES):
            raise TranslatorError("probe leaves missing")
        self._line = 1000
        self.enum_ids = {("Aa",): 0, ("Bb",): 1}

    def _loc(self):
        self._line += 1
        return parser_types.SourceLocation((self._line, 1), (self._line, 2))

    def build(self, fn, leaf_names):
        args = []
        for n in leaf_names:
            a = ir_data_utils.copy(self.leaf[n])
            a.source_location = self._loc()
            args.append(a)
        e = ir_data.Expression(
            function=ir_data.Function(function=fn, args=args,
                                      function_name=ir_data.Word(text=FN_TEXT[fn]),
                                      source_location=None),
            source_location=self._loc())
        return e

    def coq_type_of(self, e):
        t = e.type
        w = t.which_type
        if w == "integer":
            return "TInt"
        if w == "boolean":
            return "TBool"
        if w == "opaque":
            return "TOpaque"
        if w == "enumeration":
            key = tuple(t.enumeration.name.canonical_name.object_path)
            return "(TEnum %d)" % self.enum_ids[key]
        raise TranslatorError("probe result without type")

    def run(self, fn, leaf_names):
        """-> coq tres term, or 'CRASH:<exc>'"""
        e = self.build(fn, leaf_names)
        errors = []
        try:
            type_check._type_check_expression(e, "m.emb", self.ir, errors)
        except Exception as ex:
            return "CRASH:" + type(ex).__name__
        if not errors:
            return "(TOk %s)" % self.coq_type_of(e)
        loc = errors[0][0].location
        if loc == e.source_location:
            return "(TErr [])"
        for i, a in enumerate(e.function.args):
            if loc == a.source_location:
                return "(TErr [%d])" % i
        raise TranslatorError("probe error location not understood: %s" % errors[0][0].message)


CMP = [FM.EQUALITY, FM.INEQUALITY, FM.LESS, FM.LESS_OR_EQUAL, FM.GREATER, FM.GREATER_OR_EQUAL]
MONO = [FM.ADDITION, FM.SUBTRACTION, FM.MULTIPLICATION, FM.AND, FM.OR, FM.MAXIMUM, FM.PRESENCE,
        FM.UPPER_BOUND, FM.LOWER_BOUND]


def raw_probes(pr):
    """[(fn, leaf names, result)] — one probe per operator x argument-kind vector."""
    out = []
    for fn in CMP:
        for a, b in itertools.product(FIELD_LEAVES, repeat=2):
            out.append((fn, (a, b)))
        out.append((fn, ("ci", "cb")))
        out.append((fn, ("ce", "fe")))
    for c, t, f in itertools.product(FIELD_LEAVES, repeat=3):
        out.append((FM.CHOICE, (c, t, f)))
    out.append((FM.CHOICE, ("cb", "ce", "cf")))
    for fn in MONO:
        for n in range(0, 4):
            names = FIELD_LEAVES + (["ci", "cb", "ce", "pi", "pe"] if n == 1 else [])
            for v in itertools.product(names, repeat=n):
                out.append((fn, tuple(v)))
        out.append((fn, ("fi", "fi", "ci")))
        out.append((fn, ("ci", "fi", "fi")))
        out.append((fn, ("fi", "ci", "fi")))
    res = []
    for fn, names in out:
        res.append((fn, names, pr.run(fn, names)))
    return res


def _kind_of_leaf(n):
    t = LEAVES[n][1]
    return {"TInt": "KInt", "TBool": "KBool", "TOpaque": "KOpaque"}.get(t, "KEnum")


def derive_table(pr, probes, module_probe):
    """Derive the sig_table record (as a dict of python values) from probe outcomes; fail closed."""
    R = {(fn, names): r for fn, names, r in probes}
    for k, r in R.items():
        if r.startswith("CRASH"):
            raise TranslatorError("type_check crashed on probe %s%r: %s" % (k[0].name, k[1], r))
    T = {}
    mono = []
    for fn in MONO:
        ok1 = [n for n in FIELD_LEAVES + ["ci", "cb", "ce", "pi", "pe"] if R[(fn, (n,))].startswith("(TOk") or
               R[(fn, (n,))] == "(TErr [])"]   # argument itself not complained about
        kinds = {_kind_of_leaf(n) for n in ok1}
        by_shape = {LEAVES[n][0] for n in ok1}
        if len(kinds) == 1 and {"ShField", "ShOther"} <= by_shape:
            arg = "(AKind %s)" % kinds.pop()
            good = {"KInt": "fi", "KBool": "fb"}[arg[7:-1]]
        elif kinds == set(KINDS) or kinds == {"KInt", "KBool", "KEnum", "KOpaque"}:
            if "ShOther" in by_shape:
                raise TranslatorError("monomorphic %s accepts every argument" % fn.name)
            arg = "(ARef %s)" % ("true" if "ShParam" in by_shape else "false")
            good = "fi"
        else:
            raise TranslatorError("cannot describe argument requirement of %s: %s" % (fn.name, sorted(ok1)))
        arities = [n for n in range(0, 4) if R[(fn, (good,) * n)].startswith("(TOk")]
        if not arities or arities != list(range(arities[0], arities[-1] + 1)):
            raise TranslatorError("arity set of %s not an interval: %s" % (fn.name, arities))
        res = R[(fn, (good,) * arities[0])][5:-1]
        mx = "None" if arities[-1] == 3 else "(Some %d)" % arities[-1]
        # how many leading arguments are inspected at all
        bad = {"fi": "fb" if arg.startswith("(AKind") else "ci", "fb": "fi"}[good]
        inspected = []
        for i in range(3):
            v = [good] * 3
            v[i] = bad
            inspected.append(R[(fn, tuple(v))] == "(TErr [%d])" % i)
        if inspected == [True, True, True]:
            chk = "None"
        elif inspected == [True, True, False]:
            chk = "(Some 2)"
        elif inspected == [True, False, False]:
            chk = "(Some 1)"
        else:
            raise TranslatorError("inspected-argument pattern of %s: %s" % (fn.name, inspected))
        mono.append("(%s, mk_msig %s %s %s %d %s)" % (FN[fn], res, arg, chk, arities[0], mx))
    T["mono"] = "[" + "; ".join(mono) + "]"
    kleaf = {"KInt": "fi", "KBool": "fb", "KEnum": "fe", "KOpaque": "fo"}

    def same_for(fns, f):
        vals = {f(fn) for fn in fns}
        if len(vals) != 1:
            raise TranslatorError("operators %s disagree" % [x.name for x in fns])
        return vals.pop()

    def cmp_kinds(fn):
        return tuple(k for k in KINDS if R[(fn, (kleaf[k], kleaf[k]))] != "(TErr [0])")
    T["eq_kinds"] = same_for(CMP[:2], cmp_kinds)
    T["ord_kinds"] = same_for(CMP[2:], cmp_kinds)
    # compat check: two acceptable but different kinds
    def compat_checked(fn):
        ks = cmp_kinds(fn)
        if len(ks) < 2:
            return True
        return R[(fn, (kleaf[ks[0]], kleaf[ks[1]]))] == "(TErr [])"
    T["cmp_compat"] = same_for(CMP, compat_checked)
    T["choice_cond"] = R[(FM.CHOICE, ("fi", "fi", "fi"))] == "(TErr [0])"
    T["choice_kinds"] = tuple(k for k in KINDS if R[(FM.CHOICE, ("fb", kleaf[k], kleaf[k]))] != "(TErr [1])")
    T["choice_compat"] = R[(FM.CHOICE, ("fb", "fi", "fb"))] == "(TErr [])"
    e1 = R[(FM.EQUALITY, ("fe", "ff"))] == "(TErr [])"
    e2 = R[(FM.CHOICE, ("fb", "fe", "ff"))] == "(TErr [])"
    if T["cmp_compat"] and T["choice_compat"] and e1 != e2:
        raise TranslatorError("== and ?: disagree on enum compatibility")
    T["compat_enum_by_name"] = e1 if T["cmp_compat"] else e2
    T.update(module_probe)
    return T


def coq_kinds(ks):
    return "[" + "; ".join(ks) + "]"


def coq_table(T):
    b = lambda x: "true" if x else "false"
    return ("(mk_sig %s %s %s %s %s %s %s %s %s %s %s %s %s %s %s)" % (
        T["mono"], coq_kinds(T["eq_kinds"]), coq_kinds(T["ord_kinds"]), b(T["cmp_compat"]),
        b(T["choice_cond"]), coq_kinds(T["choice_kinds"]), b(T["choice_compat"]),
        b(T["compat_enum_by_name"]),
        "[" + "; ".join("(%s, %s)" % pk for pk in T["pos_req"]) + "]",
        coq_kinds(T["param_decl_kinds"]), b(T["pass_arity"]), b(T["pass_kind"]),
        b(T["pass_enum_by_name"]), coq_kinds(T["pass_checked_kinds"]), coq_kinds(T["pass_assert_kinds"])))


# ---- module-level probes ----------------------------------------------------
_POS_TEMPLATES = {
    "PStart": "struct Ss:\n  0 [+1]  UInt  xi\n  1 [+1]  Aa  xe\n  2 [+1]  bits:\n    0 [+1]  Flag  xb\n  %s [+1]  UInt  yy\n",
    "PSize": "struct Ss:\n  0 [+1]  UInt  xi\n  1 [+1]  Aa  xe\n  2 [+1]  bits:\n    0 [+1]  Flag  xb\n  3 [+%s]  UInt:8[]  yy\n",
    "PArrayLen": "struct Ss:\n  0 [+1]  UInt  xi\n  1 [+1]  Aa  xe\n  2 [+1]  bits:\n    0 [+1]  Flag  xb\n  3 [+4]  UInt:8[%s]  yy\n",
    "PCond": "struct Ss:\n  0 [+1]  UInt  xi\n  1 [+1]  Aa  xe\n  2 [+1]  bits:\n    0 [+1]  Flag  xb\n  if %s:\n    3 [+1]  UInt  yy\n",
    "PRequires": "struct Ss:\n  [requires: %s]\n  0 [+1]  UInt  xi\n  1 [+1]  Aa  xe\n  2 [+1]  bits:\n    0 [+1]  Flag  xb\n  3 [+1]  UInt  yy\n",
    "PEnumValue": "enum Zz:\n  ZA = %s\n",
}
_POS_VALUES = {
    "PStart": {"KInt": "xi", "KBool": "xb", "KEnum": "xe"},
    "PSize": {"KInt": "xi", "KBool": "xb", "KEnum": "xe"},
    "PArrayLen": {"KInt": "4", "KBool": "true", "KEnum": "Aa.AX"},
    "PCond": {"KInt": "xi", "KBool": "xb", "KEnum": "xe"},
    "PRequires": {"KInt": "xi", "KBool": "xb", "KEnum": "xe"},
    "PEnumValue": {"KInt": "3", "KBool": "true", "KEnum": "Aa.AX"},
}
_HEAD = "enum Aa:\n  AX = 1\nenum Bb:\n  BX = 2\n"


def probe_modules():
    """Positional requirements and parameter rules from small probe modules."""
    out = {}
    pos_req = []
    log = []
    for pos, tmpl in _POS_TEMPLATES.items():
        accepted = []
        for k, v in _POS_VALUES[pos].items():
            st, r = compile_emb(_HEAD + tmpl % v, stop="check_constraints")
            log.append((pos, k, st))
            if st == "crash":
                raise TranslatorError("compiler crashed on positional probe %s/%s: %r" % (pos, k, r))
            if st == "ok":
                accepted.append(k)
        if len(accepted) == 3:
            pass
        elif accepted:
            pos_req.append((pos, "[" + "; ".join(accepted) + "]"))
        else:
            raise TranslatorError("position %s accepts no kind" % pos)
    out["pos_req"] = pos_req
    # parameter declarations
    decl = []
    for k, ty in (("KInt", "UInt:8"), ("KBool", "Flag"), ("KEnum", "Aa"), ("KOpaque", "Inner")):
        text = _HEAD + "struct Inner:\n  0 [+1]  UInt  q\nstruct Ss(p: %s):\n  0 [+1]  UInt  xi\n" % ty
        st, r = compile_emb(text, stop="check_early_constraints")
        if st == "crash":
            raise TranslatorError("compiler crashed on parameter declaration probe %s" % k)
        if st == "ok":
            decl.append(k)
    out["param_decl_kinds"] = tuple(decl)
    # passed parameters: call _type_check_passed_parameters on the real IR
    formals = {"KInt": "UInt:8", "KBool": "Flag", "KEnum": "Aa", "KOpaque": "Inner"}
    actuals = {"KInt": "xi", "KBool": "xb", "KEnum": "xe", "KEnum2": "xf", "KOpaque": "xo"}

    def run_pass(formal_list, actual_list):
        text = (_HEAD + "struct Inner:\n  0 [+1]  UInt  q\nstruct Callee%s:\n  0 [+1]  UInt  q\n"
                "struct Ss:\n  0 [+1]  UInt  xi\n  1 [+1]  Aa  xe\n  2 [+1]  Bb  xf\n  3 [+1]  Inner  xo\n"
                "  4 [+1]  bits:\n    0 [+1]  Flag  xb\n  5 [+1]  Callee%s  yy\n") % (
            "(" + ", ".join("p%d: %s" % (i, formals[f]) for i, f in enumerate(formal_list)) + ")" if formal_list else "",
            "(" + ", ".join(actuals[a] for a in actual_list) + ")" if actual_list else "")
        st, ir = compile_emb(text, stop="check_types")
        if st != "ok":
            raise TranslatorError("parameter probe does not reach check_types: %r" % (ir,))
        ss = [t for t in ir.module[0].type if t.name.name.text == "Ss"][0]
        yy = [f for f in ss.structure.field if f.name.name.text == "yy"][0]
        errors = []
        try:
            type_check._type_check_passed_parameters(yy.type.atomic_type, ir, "m.emb", errors)
        except AssertionError:
            return "crash"
        return "err" if errors else "ok"

    out["pass_arity"] = (run_pass(["KInt"], []) == "err" and run_pass(["KInt"], ["KInt", "KInt"]) == "err"
                         and run_pass([], ["KInt"]) == "err")
    if run_pass(["KInt"], ["KInt"]) != "ok" or run_pass(["KEnum"], ["KEnum"]) != "ok":
        raise TranslatorError("matching parameter rejected")
    out["pass_kind"] = run_pass(["KInt"], ["KEnum"]) == "err" and run_pass(["KEnum"], ["KInt"]) == "err"
    out["pass_enum_by_name"] = run_pass(["KEnum"], ["KEnum2"]) == "err"
    checked, asserts = [], set()
    for f in KINDS:
        others = [a for a in KINDS if a != f]
        rs = {a: run_pass([f], [a]) for a in others}
        if all(r == "ok" for r in rs.values()):
            continue
        if any(r == "ok" for r in rs.values()):
            raise TranslatorError("formal kind %s: mixed outcome %s" % (f, rs))
        checked.append(f)
        for a, r in rs.items():
            if r == "crash":
                asserts.add(("f", f, a))
    # asserting kinds: the smallest set S with crash <-> f in S or a in S
    cand = [k for k in KINDS]
    best = None
    for n in range(0, 5):
        for S in itertools.combinations(cand, n):
            okS = True
            for f in checked:
                for a in KINDS:
                    if a == f:
                        continue
                    crash = ("f", f, a) in asserts
                    if crash != (f in S or a in S):
                        okS = False
            if okS:
                best = S
                break
        if best is not None:
            break
    if best is None:
        raise TranslatorError("crash pattern of _type_name_for_error_messages not describable")
    out["pass_checked_kinds"] = tuple(checked)
    out["pass_assert_kinds"] = tuple(best)
    return out


def probe_sig_table():
    check_function_mapping_complete()
    pr = Prober()
    probes = raw_probes(pr)
    T = derive_table(pr, probes, probe_modules())
    return T, probes


def probe_case(fn, names, result):
    """Coq case for run_probe."""
    args = "; ".join("(%s, %s)" % LEAVES[n] for n in names)
    return "(%s, [%s])" % (FN[fn], args), result


# ----------------------------------------------------------------------------
# module translator
# ----------------------------------------------------------------------------
def _z(n):
    n = int(n)
    return "(%d)" % n if n < 0 else "%d" % n


class ModuleTranslator:
    """IR stopped before annotate_types -> (field types, param types, items)."""

    def __init__(self, ir, module_index=0):
        self.ir = ir
        self.mod = ir.module[module_index]
        self.fields = {}      # canonical key -> index
        self.ftypes = []
        self.params = {}
        self.ptypes = []
        self.enums = {}
        self.items = []       # (coq term, line, synthetic, description)
        self.emitted = set()
        self.stack = []
        self.leaf_mismatch = []   # (type name, documented value type, implementation's value type)

    # -- types of leaves (observed from the front end's own function) ----------
    def enum_id(self, canonical_name):
        key = (canonical_name.module_file, tuple(canonical_name.object_path))
        return self.enums.setdefault(key, len(self.enums))

    def ty_of_typedef(self, td):
        """The documented value type of a field of type td, computed HERE (not by the implementation):
        externals marked [is_integer: true] are integers, the prelude's Flag is boolean, an enum has
        its own enum type, everything else (struct, bits, other externals) has no value.  The
        implementation's answer is compared with it and any difference is reported by the caller."""
        cn = td.name.canonical_name
        is_int = False
        for a in td.attribute:
            if (a.name.text == "is_integer" and not a.is_default and not (a.back_end is not None and a.back_end.text)
                    and a.value.has_field("expression") and a.value.expression.which_expression == "boolean_constant"):
                is_int = bool(a.value.expression.boolean_constant.value)
        if td.has_field("external") and is_int:
            mine = "TInt"
        elif td.has_field("external") and cn.module_file == "" and list(cn.object_path) == ["Flag"]:
            mine = "TBool"
        elif td.has_field("enumeration"):
            mine = "(TEnum %d)" % self.enum_id(cn)
        else:
            mine = "TOpaque"
        et = type_check.unbounded_expression_type_for_physical_type(td)
        w = et.which_type
        impl = {"integer": "TInt", "boolean": "TBool", "opaque": "TOpaque"}.get(w)
        if w == "enumeration":
            impl = "(TEnum %d)" % self.enum_id(et.enumeration.name.canonical_name)
        if impl is None:
            raise TranslatorError("unknown expression type %r" % w)
        if impl != mine:
            m = ((cn.module_file or "<prelude>") + ":" + ".".join(cn.object_path), mine, impl)
            if m not in self.leaf_mismatch:
                self.leaf_mismatch.append(m)
        return mine

    def ty_of_physical(self, type_ir):
        if not type_ir.has_field("atomic_type"):
            return "TOpaque"
        td = ir_util.find_object(type_ir.atomic_type.reference, self.ir)
        if td is None:
            raise TranslatorError("unresolved type reference")
        return self.ty_of_typedef(td)

    def _key(self, canonical_name):
        return (canonical_name.module_file, tuple(canonical_name.object_path))

    def field_index(self, ref):
        key = self._key(ref.canonical_name)
        if key in self.fields:
            return self.fields[key]
        obj = ir_util.find_object(ref.canonical_name, self.ir)
        if not isinstance(obj, ir_data.Field):
            raise TranslatorError("reference to %s" % type(obj).__name__)
        idx = len(self.ftypes)
        self.fields[key] = idx
        if ir_util.field_is_virtual(obj):
            self.ftypes.append("TOpaque")    # bound by its ILet
        else:
            self.ftypes.append(self.ty_of_physical(obj.type))
        return idx

    def param_index(self, ref, obj):
        key = self._key(ref.canonical_name)
        if key in self.params:
            return self.params[key]
        idx = len(self.ptypes)
        self.params[key] = idx
        self.ptypes.append(self.param_type(obj))
        return idx

    def param_type(self, p):
        if p.physical_type_alias.which_type != "atomic_type":
            raise OutOfModel("array-parameter")
        return self.ty_of_physical(p.physical_type_alias)

    # -- expressions -----------------------------------------------------------
    def ensure_virtual(self, ref, obj):
        key = self._key(ref.canonical_name)
        if key in self.emitted:
            return
        if key in self.stack:
            raise OutOfModel("cyclic-virtual")
        self.stack.append(key)
        try:
            idx = self.field_index(ref)
            term = self.expr(obj.read_transform)
        finally:
            self.stack.pop()
        self.emitted.add(key)
        loc = obj.read_transform.source_location
        self.items.append(("ILet %d %s" % (idx, term), loc.start.line if loc else 0,
                           bool(loc.is_synthetic) if loc else True, "let " + ".".join(key[1])))

    def expr(self, e):
        w = e.which_expression
        if w == "constant":
            return "(XConst %s)" % _z(e.constant.value)
        if w == "boolean_constant":
            return "(XBool %s)" % ("true" if e.boolean_constant.value else "false")
        if w == "constant_reference":
            obj = ir_util.find_object(e.constant_reference.canonical_name, self.ir)
            if isinstance(obj, ir_data.EnumValue):
                cn = e.constant_reference.canonical_name
                parent = ir_data.CanonicalName(module_file=cn.module_file, object_path=list(cn.object_path[:-1]))
                enum_td = ir_util.find_object(parent, self.ir)
                pos = [v.name.name.text for v in enum_td.enumeration.value].index(cn.object_path[-1])
                return "(XEnum %d %d)" % (self.enum_id(parent), pos)
            if isinstance(obj, ir_data.Field):
                if not ir_util.field_is_virtual(obj):
                    raise OutOfModel("static-reference-to-physical-field")
                self.ensure_virtual(e.constant_reference, obj)
                return "(XStatic %d)" % self.field_index(e.constant_reference)
            raise TranslatorError("constant_reference to %s" % type(obj).__name__)
        if w == "field_reference":
            last = e.field_reference.path[-1]
            obj = ir_util.find_object(last, self.ir)
            if isinstance(obj, ir_data.RuntimeParameter):
                return "(XParam %d)" % self.param_index(last, obj)
            if isinstance(obj, ir_data.Field):
                if ir_util.field_is_virtual(obj):
                    self.ensure_virtual(last, obj)
                return "(XField %d)" % self.field_index(last)
            raise TranslatorError("field_reference to %s" % type(obj).__name__)
        if w == "builtin_reference":
            raise OutOfModel("builtin-reference")
        if w == "function":
            f = e.function.function
            if f not in FN:
                raise TranslatorError("function %s" % f)
            return "(XFn %s [%s])" % (FN[f], "; ".join(self.expr(a) for a in e.function.args))
        raise TranslatorError("expression kind %r" % w)

    # -- items -------------------------------------------------------------------
    def _emit(self, term, loc, what):
        self.items.append((term, loc.start.line if loc else 0, bool(loc.is_synthetic) if loc else True, what))

    def pos_item(self, pos, e, what):
        term = self.expr(e)
        self._emit("IPos %s %s" % (pos, term), e.source_location, what)

    def walk_type(self, type_ir, what):
        if type_ir.has_field("array_type"):
            at = type_ir.array_type
            self.walk_type(at.base_type, what)
            if at.which_size == "element_count":
                self.pos_item("PArrayLen", at.element_count, what + " array length")
            return
        if type_ir.has_field("size_in_bits") and type_ir.size_in_bits is not None:
            self.pos_item("PAny", type_ir.size_in_bits, what + " type size")
        at = type_ir.atomic_type
        td = ir_util.find_object(at.reference.canonical_name, self.ir)
        if td is None:
            raise TranslatorError("unresolved type")
        formals = [self.param_type(p) for p in td.runtime_parameter]
        if formals or at.runtime_parameter:
            acts = [self.expr(a) for a in at.runtime_parameter]
            self._emit("IPass [%s] [%s]" % ("; ".join(formals), "; ".join(acts)), at.source_location,
                       what + " parameters")

    def attributes(self, attrs, what):
        for a in attrs:
            if a.value.has_field("expression"):
                front = not (a.back_end is not None and a.back_end.text)
                pos = "PRequires" if (front and a.name.text == "requires") else "PAny"
                self.pos_item(pos, a.value.expression, what + " [" + a.name.text + "]")

    def type_definition(self, td):
        name = ".".join(td.name.canonical_name.object_path)
        for p in td.runtime_parameter:
            ref = ir_data.Reference(canonical_name=p.name.canonical_name)
            self.param_index(ref, p)
            self._emit("IParamDecl %s" % self.param_type(p), p.physical_type_alias.source_location,
                       name + " parameter " + p.name.name.text)
            if p.physical_type_alias.has_field("size_in_bits") and p.physical_type_alias.size_in_bits is not None:
                self.pos_item("PAny", p.physical_type_alias.size_in_bits, name + " parameter size")
        self.attributes(td.attribute, name)
        if td.has_field("enumeration"):
            for v in td.enumeration.value:
                self.pos_item("PEnumValue", v.value, name + "." + v.name.name.text)
                self.attributes(v.attribute, name + "." + v.name.name.text)
        elif td.has_field("structure"):
            for f in td.structure.field:
                fname = name + "." + f.name.name.text
                ref = ir_data.Reference(canonical_name=f.name.canonical_name)
                if ir_util.field_is_virtual(f):
                    if not (f.read_transform.source_location and f.read_transform.source_location.is_synthetic):
                        self.ensure_virtual(ref, f)
                else:
                    self.field_index(ref)
                    self.pos_item("PStart", f.location.start, fname + " start")
                    self.pos_item("PSize", f.location.size, fname + " size")
                    self.walk_type(f.type, fname)
                if f.has_field("existence_condition"):
                    self.pos_item("PCond", f.existence_condition, fname + " condition")
                self.attributes(f.attribute, fname)
        for sub in td.subtype:
            self.type_definition(sub)

    def translate(self):
        self.attributes(self.mod.attribute, "module")
        for td in self.mod.type:
            self.type_definition(td)
        return self

    def coq_input(self):
        return "([%s], [%s], [%s])" % ("; ".join(self.ftypes), "; ".join(self.ptypes),
                                       ";\n ".join(t for t, _, _, _ in self.items))


# ----------------------------------------------------------------------------
# compiler's typing verdict (bracketed by pass)
# ----------------------------------------------------------------------------
def requires_message():
    from compiler.util import attribute_util
    return attribute_util._BAD_TYPE_MESSAGE.format(name="requires", type="a boolean")


def typing_verdict(text, extra=None, repo=None, name="m.emb"):
    """-> (class, lines, detail): class in accept / reject / crash / other-crash / early-reject."""
    st0, r0 = compile_emb(text, stop="annotate_types", extra=extra, repo=repo, name=name)
    if st0 != "ok":
        return "early-" + ("crash" if st0 == "crash" else "reject"), [], r0
    st1, r1 = compile_emb(text, stop="check_early_constraints", extra=extra, repo=repo, name=name)
    if st1 == "crash":
        where = r1[4]
        if any(w.startswith("type_check.py") for w in where):
            return "crash", [], r1
        return "other-crash", [], r1
    if st1 == "errors":
        return "reject", error_lines(r1), r1
    st2, r2 = compile_emb(text, stop="check_constraints", extra=extra, repo=repo, name=name)
    if st2 == "crash":
        return "other-crash", [], r2
    if st2 == "errors":
        msg = requires_message()
        lines = [l for l in error_lines(r2) if l[2] == msg]
        if lines:
            return "reject", lines, r2
    return "accept", [], None


# ----------------------------------------------------------------------------
# one-stop analysis of a module text (runs in worker processes; returns plain data)
# ----------------------------------------------------------------------------
def _crash_plain(r):
    return {"exception": r[0], "file": r[1], "line": r[2], "function": r[3], "stack": r[4]}


def analyse_c13(args):
    try:
        return _analyse_c13(args)
    except Exception as ex:     # never let a non-picklable exception travel through the pool
        return {"oom": "TRANSLATOR:harness exception " + traceback.format_exc()[-1500:], "coq": None, "items": [],
                "full": ("ok", None), "typing": ("accept", [], None), "harness_error": True}


def _analyse_c13(args):
    text, name, extra, repo = args
    out = {"oom": None, "coq": None, "items": []}
    st, r = compile_emb(text, name=name, extra=extra, repo=repo)
    if st == "ok":
        out["full"] = ("ok", None)
    elif st == "errors":
        out["full"] = ("errors", error_lines(r))
    else:
        out["full"] = ("crash", _crash_plain(r))
    st0, ir = compile_emb(text, stop="annotate_types", name=name, extra=extra, repo=repo)
    if st == "ok" and st0 == "ok":
        v, lines, detail = "accept", [], None      # accepted by every pass: no need to bracket
    else:
        v, lines, detail = typing_verdict(text, extra=extra, repo=repo, name=name)
    out["typing"] = (v, lines, _crash_plain(detail) if v in ("crash", "other-crash") else None)
    if v.startswith("early-"):
        out["oom"] = "rejected-before-type-check"
        return out
    try:
        mt = ModuleTranslator(ir).translate()
        out["coq"] = mt.coq_input()
        out["items"] = [(l, s, w) for _, l, s, w in mt.items]
        out["leaf_mismatch"] = list(mt.leaf_mismatch)
    except OutOfModel as ex:
        out["oom"] = str(ex)
    except TranslatorError as ex:
        out["oom"] = "TRANSLATOR:" + str(ex)
    return out


# ============================================================================
# C14: tables, layout translator
# ============================================================================
def coq_str(s):
    for ch in s:
        if not (32 <= ord(ch) < 127):
            raise OutOfModel("non-printable-character-in-name")
    return '"' + s.replace('"', '""') + '"'


PRELUDE = {"UInt": "PUInt", "Int": "PInt", "Bcd": "PBcd", "Flag": "PFlag", "Float": "PFloat"}
_SCOPE_VARS = {
    "_MODULE_ATTRIBUTES": "ScModule", "_STRUCT_ATTRIBUTES": "ScStruct", "_BITS_ATTRIBUTES": "ScBits",
    "_ENUM_ATTRIBUTES": "ScEnum", "_EXTERNAL_ATTRIBUTES": "ScExternal",
    "_STRUCT_PHYSICAL_FIELD_ATTRIBUTES": "ScPhysField", "_STRUCT_VIRTUAL_FIELD_ATTRIBUTES": "ScVirtField",
}


# the regular expression Layout.ModelExt2.back_ends_okb was written against (fail closed when it changes)
BACK_ENDS_RE = r'r"(?:\s*[a-z][a-z0-9_]*\s*(?:,\s*[a-z][a-z0-9_]*\s*)*,?)?\s*"'


def attribute_tables():
    """Attribute type/scope tables by import + introspection of attribute_checker (fail closed)."""
    from compiler.front_end import attribute_checker as ac
    from compiler.util import attribute_util as au
    types = []
    for name, checker in sorted(ac._ATTRIBUTE_TYPES.items()):
        if checker is au.INTEGER_CONSTANT:
            q = "QIntConst"
        elif checker is au.BOOLEAN_CONSTANT:
            q = "QBoolConst"
        elif checker is au.BOOLEAN:
            q = "QBool"
        elif checker is au.STRING:
            q = "QString"
        elif getattr(checker, "__name__", "") == "_string_from_list" and checker.__closure__:
            vals = None
            for c in checker.__closure__:
                if isinstance(c.cell_contents, (set, frozenset, list, tuple)):
                    vals = sorted(c.cell_contents)
            if vals is None:
                raise TranslatorError("string_from_list closure of %s not understood" % name)
            q = "(QOneOf [%s])" % "; ".join(coq_str(v) for v in vals)
        elif checker is ac._valid_back_ends:
            # a string (else an error), then the regular expression the scanner back_ends_okb mirrors
            import inspect as _inspect
            vsrc = _inspect.getsource(ac._valid_back_ends)
            if 'has_field("string_constant")' not in vsrc or BACK_ENDS_RE not in vsrc or vsrc.count("re.fullmatch") != 1:
                raise TranslatorError("attribute_checker._valid_back_ends changed (Layout.ModelExt2.back_ends_okb mirrors %r)" % BACK_ENDS_RE)
            q = "QString"
        else:
            raise TranslatorError("attribute type checker of %r not understood: %r" % (name, checker))
        types.append("(%s, %s)" % (coq_str(name), q))
    scopes = []
    seen_vars = set()
    for var, sc in _SCOPE_VARS.items():
        if not hasattr(ac, var):
            raise TranslatorError("attribute_checker.%s missing" % var)
        spec = getattr(ac, var)
        seen_vars.add(var)
        scopes.append("(%s, [%s])" % (sc, "; ".join("(%s, %s)" % (coq_str(n), "true" if d else "false")
                                                   for n, d in sorted(spec))))
    others = [v for v in dir(ac) if v.endswith("_ATTRIBUTES") and v not in seen_vars]
    if others:
        raise TranslatorError("unknown attribute scope tables: %s" % others)
    # how normalize_and_verify wires them: enum values get no table
    import inspect
    src = inspect.getsource(ac.normalize_and_verify)
    for var in _SCOPE_VARS:
        if var not in src:
            raise TranslatorError("%s not passed to check_attributes_in_ir" % var)
    if "enum_value_attributes" in src:
        raise TranslatorError("enum value attributes are now checked by the front end (model has none)")
    return "(mk_tabs [%s] [%s])" % ("; ".join(types), "; ".join(scopes))


def reserved_words(repo):
    words = []
    path = os.path.join(repo, "compiler", "front_end", "reserved_words")
    for line in open(path).read().splitlines():
        s = line.partition("#")[0].strip()
        if not s or s.startswith("--"):
            continue
        if s not in words:
            words.append(s)
    from compiler.front_end import constraints
    if set(words) != set(constraints.get_reserved_word_list()):
        raise TranslatorError("reserved_words file and constraints.get_reserved_word_list() disagree")
    return words


_CMPOP = {FM.EQUALITY: "CEq", FM.INEQUALITY: "CNe", FM.LESS: "CLt", FM.LESS_OR_EQUAL: "CLe",
          FM.GREATER: "CGt", FM.GREATER_OR_EQUAL: "CGe"}


def req_expr(e, user=False):
    """static_requirements expression -> Bounds.Model.expr with (EVar 0) = $static_size_in_bits.
    user=True (user-defined externals): also boolean ==/!=, ?:, $max."""
    w = e.which_expression
    if w == "constant":
        return "(EConst %s)" % _z(e.constant.value)
    if w == "boolean_constant":
        return "(EBool %s)" % ("true" if e.boolean_constant.value else "false")
    if w == "builtin_reference":
        n = e.builtin_reference.canonical_name.object_path[0]
        if n == "$static_size_in_bits":
            return "(EVar 0)"
        if n == "$is_statically_sized":
            return "(EBVar 0)"
        raise TranslatorError("builtin %s" % n)
    if w == "function":
        f = e.function.function
        a = [req_expr(x, user) for x in e.function.args]
        if user and f in (FM.EQUALITY, FM.INEQUALITY) and len(a) == 2:
            kinds = set(x.type.which_type for x in e.function.args)
            if kinds == {"boolean"}:
                return "(EBop %s %s %s)" % ("BEq" if f == FM.EQUALITY else "BNe", a[0], a[1])
            if kinds != {"integer"}:
                raise TranslatorError("comparison of %s in static_requirements" % sorted(kinds))
        if user and f == FM.CHOICE and len(a) == 3:
            return "(EChoice %s %s %s)" % tuple(a)
        if user and f == FM.MAXIMUM:
            return "(EMax [%s])" % "; ".join(a)
        if f in _CMPOP and len(a) == 2:
            return "(ECmp %s %s %s)" % (_CMPOP[f], a[0], a[1])
        if f in (FM.AND, FM.OR) and len(a) == 2:
            return "(EBop %s %s %s)" % ("BAnd" if f == FM.AND else "BOr", a[0], a[1])
        if f == FM.ADDITION:
            return "(EAdd %s %s)" % tuple(a)
        if f == FM.SUBTRACTION:
            return "(ESub %s %s)" % tuple(a)
        if f == FM.MULTIPLICATION:
            return "(EMul %s %s)" % tuple(a)
        raise TranslatorError("function %s in static_requirements" % f)
    raise TranslatorError("expression %s in static_requirements" % w)


def prelude_table():
    """(req function term, fixed function term) regenerated from prelude.emb through the real front end."""
    st, ir = compile_emb("struct Zz:\n  0 [+1]  UInt  q\n")
    if st != "ok":
        raise TranslatorError("trivial module does not compile")
    pre = [m for m in ir.module if m.source_file_name == ""]
    if len(pre) != 1:
        raise TranslatorError("prelude module not found")
    found = {}
    for td in pre[0].type:
        name = td.name.name.text
        if not td.has_field("external"):
            raise TranslatorError("prelude type %s is not external" % name)
        if name not in PRELUDE:
            raise TranslatorError("unknown prelude type %s" % name)
        req = ir_util.get_attribute(td.attribute, "static_requirements")
        fixed = ir_util.get_integer_attribute(td.attribute, "fixed_size_in_bits")
        unit = ir_util.get_integer_attribute(td.attribute, "addressable_unit_size")
        if unit != 1:
            raise TranslatorError("prelude type %s has addressable unit %r" % (name, unit))
        if req is None:
            raise TranslatorError("prelude type %s has no static_requirements" % name)
        found[name] = (req_expr(req.expression), fixed)
    if set(found) != set(PRELUDE):
        raise TranslatorError("prelude types changed: %s" % sorted(found))
    reqf = "(fun p => match p with %s end)" % " | ".join("%s => %s" % (PRELUDE[n], found[n][0]) for n in sorted(found))
    fixf = "(fun p => match p with %s end)" % " | ".join(
        "%s => %s" % (PRELUDE[n], "None" if found[n][1] is None else "Some %s" % _z(found[n][1])) for n in sorted(found))
    return reqf, fixf


_BORDER = {"LittleEndian": "BLittle", "BigEndian": "BBig", "Null": "BNull"}


class LayoutTranslator:
    """IR stopped before normalize_and_verify -> EmbossV.Layout.Model.module term."""

    def __init__(self, ir, module_index=0):
        self.ir = ir
        self.mod = ir.module[module_index]
        self.enum_idx, self.struct_idx, self.ext_idx = {}, {}, {}
        self.enums, self.structs = [], []   # (typedef, defaults path)
        self.externals = []                 # user-defined externals of every module but the prelude

    def collect(self, td, path):
        own = self.default_border(td.attribute)
        p = path + [own]
        key = (td.name.canonical_name.module_file,) + tuple(td.name.canonical_name.object_path)
        if td.has_field("enumeration"):
            self.enum_idx[key] = len(self.enums)
            self.enums.append(td)
        elif td.has_field("structure"):
            self.struct_idx[key] = len(self.structs)
            self.structs.append((td, p))
        elif td.has_field("external"):
            self.ext_idx[key] = len(self.externals)
            self.externals.append(td)
        for sub in td.subtype:
            self.collect(sub, p)

    def default_border(self, attrs):
        for a in attrs:
            if a.is_default and a.name.text == "byte_order" and not (a.back_end is not None and a.back_end.text):
                if a.value.has_field("string_constant"):
                    return _BORDER.get(a.value.string_constant.text, "BNull")
        return None

    def attrs(self, attrs):
        out = []
        for a in attrs:
            if a.back_end is not None and a.back_end.text:
                continue     # other back ends are skipped by the front end's check
            v = a.value
            if v.has_field("string_constant"):
                val = "(AVString %s)" % coq_str(v.string_constant.text)
            elif v.has_field("expression"):
                t = v.expression.type
                w = t.which_type if t is not None else None
                if w == "integer":
                    val = "(AVInt %s)" % ("true" if ir_util.is_constant(v.expression) else "false")
                elif w == "boolean":
                    val = "(AVBool %s)" % ("true" if t.boolean.has_field("value") else "false")
                else:
                    val = "AVExpr"
            else:
                raise TranslatorError("attribute value kind")
            out.append("(mk_attr %s %s %s)" % (coq_str(a.name.text), "true" if a.is_default else "false", val))
        return "[" + "; ".join(out) + "]"

    def tref(self, ref):
        cn = ref.canonical_name
        key = tuple(cn.object_path)
        if cn.module_file == "":
            if len(key) == 1 and key[0] in PRELUDE:
                return "(RPre %s)" % PRELUDE[key[0]]
            raise OutOfModel("prelude-type-" + ".".join(key))
        key = (cn.module_file,) + key
        if key in self.enum_idx:
            return "(REnum %d)" % self.enum_idx[key]
        if key in self.struct_idx:
            return "(RStruct %d)" % self.struct_idx[key]
        if key in self.ext_idx:
            return "(RExt %d)" % self.ext_idx[key]
        raise OutOfModel("type-reference-" + ".".join(key[1:]))

    def ftype(self, t):
        dims = []
        while t.has_field("array_type"):
            at = t.array_type
            if at.which_size == "automatic":
                dims.append("LAuto")
            else:
                c = ir_util.constant_value(at.element_count)
                dims.append("LDynamic" if c is None else "(LConst %s)" % _z(c))
            t = at.base_type
        dims.reverse()    # innermost first = source order
        bits = None
        if t.has_field("size_in_bits") and t.size_in_bits is not None:
            bits = ir_util.constant_value(t.size_in_bits)
            if bits is None:
                raise OutOfModel("non-constant-explicit-size")
        return "(mk_ftype %s %s [%s])" % (self.tref(t.atomic_type.reference),
                                         "None" if bits is None else "(Some %s)" % _z(bits), "; ".join(dims)), t

    def explicit(self, attrs, name):
        for a in attrs:
            if not a.is_default and a.name.text == name and not (a.back_end is not None and a.back_end.text):
                return a
        return None

    def field(self, f):
        name = coq_str(f.name.name.text)
        at = self.attrs(f.attribute)
        if ir_util.field_is_virtual(f):
            return "(mk_field %s true None None 0 0 (mk_ftype (RPre PUInt) None []) None %s)" % (name, at)
        st = ir_util.constant_value(f.location.start)
        sz = ir_util.constant_value(f.location.size)
        it = f.location.size.type.integer
        if it.minimum_value in ("-infinity", "infinity", None, "") or it.maximum_value in ("-infinity", "infinity", None, ""):
            raise OutOfModel("unbounded-field-size")
        ft, _ = self.ftype(f.type)
        bo = self.explicit(f.attribute, "byte_order")
        bot = "None"
        if bo is not None and bo.value.has_field("string_constant"):
            bot = "(Some %s)" % _BORDER.get(bo.value.string_constant.text, "BNull")
        elif bo is not None:
            bot = "(Some BNull)"
        o = lambda v: "None" if v is None else "(Some %s)" % _z(v)
        return "(mk_field %s false %s %s %s %s %s %s %s)" % (name, o(st), o(sz), _z(it.minimum_value), _z(it.maximum_value), ft, bot, at)

    def collect_all(self):
        """Type tables over ALL modules of the IR (the passes traverse every module): the main module first."""
        for m in self.ir.module:
            if m.source_file_name == "":
                continue
            mod_default = self.default_border(m.attribute)
            for td in m.type:
                self.collect(td, [mod_default])
        return self

    def field_borders(self):
        """Per structure, per field: the (non-default) byte_order attribute present on the field."""
        out = []
        for td, _ in self.structs:
            row = []
            for f in td.structure.field:
                a = self.explicit(f.attribute, "byte_order")
                if a is None:
                    row.append("None")
                elif a.value.has_field("string_constant") and a.value.string_constant.text in _BORDER:
                    row.append("Some %s" % _BORDER[a.value.string_constant.text])
                else:
                    raise OutOfModel("byte-order-value")
            out.append("[" + "; ".join(row) + "]")
        return "[" + "; ".join(out) + "]"

    def back_ends(self):
        """(declared, used): [expected_back_ends] (default "cpp") and every qualifier on an attribute of module 0."""
        declared = "cpp"
        self.declared_raw = None
        for a in self.mod.attribute:
            if a.name.text == "expected_back_ends" and not a.is_default and not (a.back_end is not None and a.back_end.text):
                # _gather_expected_back_ends: a non-string value (reported by _valid_back_ends) reads as ""
                declared = a.value.string_constant.text if a.value.has_field("string_constant") else ""
                self.declared_raw = declared if a.value.has_field("string_constant") else None
        declared = [x.strip() for x in declared.split(",") if x.strip()]
        used = []

        def visit(attrs):
            for a in attrs:
                if a.back_end is not None and a.back_end.text and a.back_end.text not in used:
                    used.append(a.back_end.text)

        def walk(td):
            visit(td.attribute)
            if td.has_field("enumeration"):
                for v in td.enumeration.value:
                    visit(v.attribute)
            if td.has_field("structure"):
                for f in td.structure.field:
                    visit(f.attribute)
            for sub in td.subtype:
                walk(sub)
        visit(self.mod.attribute)
        for td in self.mod.type:
            walk(td)
        return declared, used

    def effective(self):
        """From a NORMALISED IR: (byte orders per field, (maximum_bits, is_signed) per enum, fixed size per structure),
        reading only unqualified, non-default attributes."""
        en = []
        for td in self.enums:
            mb = self.explicit(td.attribute, "maximum_bits")
            sg = self.explicit(td.attribute, "is_signed")
            if mb is None or sg is None:
                raise OutOfModel("enum-not-normalised")
            mbv = ir_util.constant_value(mb.value.expression)
            sgv = ir_util.constant_value(sg.value.expression)
            if not isinstance(sgv, bool) or isinstance(mbv, bool) or mbv is None:
                raise OutOfModel("enum-attribute-value")
            en.append("(%s, %s)" % (_z(mbv), "true" if sgv else "false"))
        st = []
        for td, _ in self.structs:
            fx = self.explicit(td.attribute, "fixed_size_in_bits")
            v = ir_util.constant_value(fx.value.expression) if fx is not None and fx.value.has_field("expression") else None
            st.append("None" if v is None or isinstance(v, bool) else "Some %s" % _z(v))
        return "(%s, [%s], [%s])" % (self.field_borders(), "; ".join(en), "; ".join(st))

    def translate(self):
        self.collect_all()
        enums = []
        for td in self.enums:
            mb = self.explicit(td.attribute, "maximum_bits")
            sg = self.explicit(td.attribute, "is_signed")
            mbv = ir_util.constant_value(mb.value.expression) if mb is not None and mb.value.has_field("expression") else None
            if isinstance(mbv, bool):
                mbv = None
            sgv = None
            if sg is not None and sg.value.has_field("expression") and sg.value.expression.which_expression == "boolean_constant":
                sgv = bool(sg.value.expression.boolean_constant.value)
            elif sg is not None and sg.value.has_field("expression"):
                c = ir_util.constant_value(sg.value.expression)
                sgv = c if isinstance(c, bool) else None
            vals = []
            for v in td.enumeration.value:
                c = ir_util.constant_value(v.value)
                if c is None:
                    # not constant (a static reference to something that is not): skipped by
                    # _check_that_enum_values_are_representable and by the is_signed default, reported as a static reference
                    continue
                if isinstance(c, bool):
                    raise OutOfModel("enum-value-not-an-integer-constant")
                vals.append("(%s, %s)" % (coq_str(v.name.name.text), _z(c)))
            enums.append("(mk_enum %s %s %s [%s] %s [%s])" % (
                coq_str(td.name.name.text), "None" if mbv is None else "(Some %s)" % _z(mbv),
                "None" if sgv is None else "(Some %s)" % ("true" if sgv else "false"),
                "; ".join(vals), self.attrs(td.attribute),
                "; ".join(self.attrs(v.attribute) for v in td.enumeration.value)))
        structs = []
        for td, path in self.structs:
            fx = self.explicit(td.attribute, "fixed_size_in_bits")
            fxv = ir_util.constant_value(fx.value.expression) if fx is not None and fx.value.has_field("expression") else None
            if isinstance(fxv, bool):
                fxv = None
            params = []
            for p in td.runtime_parameter:
                pt = p.physical_type_alias
                if pt.which_type != "atomic_type":
                    raise OutOfModel("array-parameter")
                b = ir_util.constant_value(pt.size_in_bits) if pt.has_field("size_in_bits") else None
                pkey = (pt.atomic_type.reference.canonical_name.module_file,) + tuple(pt.atomic_type.reference.canonical_name.object_path)
                if pkey in self.ext_idx:
                    # with an explicit width expression_bounds raises 'Unknown integral type'; without one the early check rejects
                    raise OutOfModel("parameter-of-user-defined-external-type")
                params.append("(%s, %s)" % (self.tref(pt.atomic_type.reference), "None" if b is None else "Some %s" % _z(b)))
            unit = int(td.addressable_unit)
            if unit not in (1, 8):
                raise TranslatorError("addressable unit %r" % unit)
            structs.append("(mk_struct %s %s %s [%s] %s\n   [%s]\n   %s [%s])" % (
                coq_str(td.name.name.text), "true" if td.name.is_anonymous else "false", unit,
                "; ".join("None" if b is None else "Some %s" % b for b in path),
                "None" if fxv is None else "(Some %s)" % _z(fxv),
                ";\n    ".join(self.field(f) for f in td.structure.field),
                self.attrs(td.attribute), "; ".join(params)))
        declared, used = self.back_ends()
        return "(mk_module %s\n [%s]\n [%s]\n [%s] [%s]\n [%s])" % (
            self.attrs(self.mod.attribute), ";\n  ".join(enums), ";\n  ".join(structs),
            "; ".join(coq_str(x) for x in declared), "; ".join(coq_str(x) for x in used),
            ";\n  ".join(self.external(td) for td in self.externals))

    def int_attr(self, attrs, name):
        """The value ir_util.get_integer_attribute would read (first unqualified non-default attribute of that name)."""
        a = self.explicit(attrs, name)
        if a is None or not a.value.has_field("expression"):
            return None
        v = ir_util.constant_value(a.value.expression)
        return None if v is None or isinstance(v, bool) else v

    def external(self, td):
        """mk_extdef: what [addressable_unit_size] / [fixed_size_in_bits] / [static_requirements] of a user-defined external say."""
        self.n_ext_defs = getattr(self, "n_ext_defs", 0) + 1
        o = lambda v: "None" if v is None else "(Some %s)" % _z(v)
        req = self.explicit(td.attribute, "static_requirements")
        rq = "None"
        if req is not None and req.value.has_field("expression") and req.value.expression.type.which_type == "boolean":
            try:
                rq = "(Some %s)" % req_expr(req.value.expression, user=True)
            except TranslatorError as ex:
                raise OutOfModel("static_requirements-expression:" + str(ex).split(" ")[0])
        return "(mk_extdef %s %s %s %s %s)" % (
            coq_str(td.name.name.text), o(self.int_attr(td.attribute, "addressable_unit_size")),
            o(self.int_attr(td.attribute, "fixed_size_in_bits")), rq, self.attrs(td.attribute))


# ----------------------------------------------------------------------------
# C14 extension: (cpp) back-end attribute tables and string validators, further front-end rules
# ----------------------------------------------------------------------------
def coq_bytes(s):
    """Any str whose characters are < 128 as a Coq string term (control characters spelled by code)."""
    if all(32 <= ord(ch) < 127 for ch in s):
        return coq_str(s)
    for ch in s:
        if ord(ch) >= 128:
            raise OutOfModel("non-ascii-character-in-string")
    return "(string_of_list_ascii (map (fun n => ascii_of_N n) [%s]%%N))" % "; ".join(str(ord(ch)) for ch in s)


# the regular expressions the Coq scanner [parse_ns] was written against (fail closed when they change)
_NS_EXPECTED = {
    "_NS_COMPONENT_RE": r"(?:^\s*|::)\s*([a-zA-Z_][a-zA-Z0-9_]*)\s*(?=\s*$|::)",
    "_NS_RE": r"^\s*(?:(?:^\s*|::)\s*([a-zA-Z_][a-zA-Z0-9_]*)\s*(?=\s*$|::))+\s*$",
    "_NS_EMPTY_RE": r"^\s*$",
    "_NS_GLOBAL_RE": r"^\s*::\s*$",
}
_CPP_SCOPE_ARGS = {
    "module_attributes": ("MODULE", "ScModule"), "struct_attributes": ("STRUCT", "ScStruct"),
    "bits_attributes": ("BITS", "ScBits"), "enum_attributes": ("ENUM", "ScEnum"),
    "enum_value_attributes": ("ENUM_VALUE", "ScEnumValue"),
}


def cpp_tables():
    """(mk_ctabs ...) regenerated from back_end/cpp/attributes.py and header_generator.py (fail closed)."""
    import inspect
    import re
    from compiler.back_end.cpp import attributes as ca
    from compiler.back_end.cpp import header_generator as hg
    from compiler.util import attribute_util as au
    for k, v in _NS_EXPECTED.items():
        if getattr(hg, k, None) != v:
            raise TranslatorError("header_generator.%s changed: %r" % (k, getattr(hg, k, None)))
    types = []
    for name, checker in sorted((str(k.value), v) for k, v in ca.TYPES.items()):
        if checker is not au.STRING:
            raise TranslatorError("(cpp) attribute %s: type checker not understood" % name)
        types.append("(%s, QString)" % coq_str(name))
    if sorted(str(k.value) for k in ca.TYPES) != ["enum_case", "namespace"]:
        raise TranslatorError("(cpp) attributes changed: %s" % sorted(str(k.value) for k in ca.TYPES))
    src = inspect.getsource(hg._propagate_defaults_and_verify_attributes)
    call = re.search(r"check_attributes_in_ir\((.*?)\n    \):", src, re.S)
    if not call or 'back_end="cpp"' not in call.group(1) or "types=attributes.TYPES" not in call.group(1):
        raise TranslatorError("check_attributes_in_ir call of the C++ back end not understood")
    wired = dict(re.findall(r"(\w+_attributes)=attributes\.Scope\.(\w+)", call.group(1)))
    if wired != {k: v[0] for k, v in _CPP_SCOPE_ARGS.items()}:
        raise TranslatorError("(cpp) scope wiring changed: %s" % wired)
    if sorted(ca.Scope.__members__) != sorted(v[0] for v in _CPP_SCOPE_ARGS.values()):
        raise TranslatorError("(cpp) scopes changed: %s" % sorted(ca.Scope.__members__))
    scopes = []
    for arg, (member, sc) in sorted(_CPP_SCOPE_ARGS.items()):
        spec = set(getattr(ca.Scope, member))
        items = []
        for n, d in sorted((str(getattr(n, "value", n)), bool(d)) for n, d in spec):
            items.append("(%s, %s)" % (coq_str(n), "true" if d else "false"))
        scopes.append("(%s, [%s])" % (sc, "; ".join(items)))
    if "_verify_attribute_values(ir)" not in src:
        raise TranslatorError("_verify_attribute_values no longer called")
    vsrc = inspect.getsource(hg._verify_attribute_values)
    if "_verify_namespace_attribute" not in vsrc or "_verify_enum_case_attribute" not in vsrc:
        raise TranslatorError("_verify_attribute_values changed")
    words = sorted(hg._CPP_RESERVED_WORDS)
    cases = list(hg._SUPPORTED_ENUM_CASES)
    for w in words + cases:
        if not isinstance(w, str):
            raise TranslatorError("reserved word / case is not a string")
    return ("(mk_ctabs (mk_tabs [%s] [%s]) [%s] [%s])" % (
        "; ".join(types), "; ".join(scopes), "; ".join(coq_str(w) for w in words), "; ".join(coq_str(c) for c in cases)),
        len(words), cases)


def _fake_cpp_attr(name, text):
    loc = parser_types.SourceLocation(parser_types.SourcePosition(1, 1), parser_types.SourcePosition(1, 2 + len(text)))
    return ir_data.Attribute(
        name=ir_data.Word(text=name, source_location=loc), back_end=ir_data.Word(text="cpp", source_location=loc),
        value=ir_data.AttributeValue(string_constant=ir_data.String(text=text, source_location=loc), source_location=loc),
        source_location=loc)


def real_namespace_verdict(text):
    """(class, components-or-None) from header_generator._verify_namespace_attribute / _get_namespace_components."""
    from compiler.back_end.cpp import header_generator as hg
    errs = []
    hg._verify_namespace_attribute(_fake_cpp_attr("namespace", text), "m.emb", errs)
    if not errs:
        return "NsOk", list(hg._get_namespace_components(text))
    m = errs[0][0].message
    if m.startswith("Empty namespace"):
        return "NsEmpty", None
    if m.startswith("Global namespace"):
        return "NsGlobal", None
    if m.startswith("Invalid namespace"):
        return "NsInvalid", None
    if m.startswith("Reserved word"):
        return "NsReserved", list(hg._get_namespace_components(text))
    raise TranslatorError("namespace error message not understood: %r" % m)


def real_enum_case_verdict(text):
    """(accepted?, cases) from header_generator._verify_enum_case_attribute / _split_enum_case_values."""
    from compiler.back_end.cpp import header_generator as hg
    errs = []
    hg._verify_enum_case_attribute(_fake_cpp_attr("enum_case", text), "m.emb", errs)
    return (not errs), list(hg._split_enum_case_values(text))


def _is_qual(a, q):
    return a.back_end is not None and (a.back_end.text or "") == q


def _gate_attr_action(a):
    return {"in_attribute": a}


def _gate_collect(expression, in_attribute, roots):
    # as constraints._check_bounds_on_runtime_integer_expressions
    if in_attribute is not None and in_attribute.name.text == "static_requirements":
        return
    roots.append(expression)


class ExtTranslator:
    """IR (after compute_constants, before normalize_and_verify) -> Layout.ModelExt.ext_info term."""

    def __init__(self, ir, lt):
        self.ir, self.lt = ir, lt

    # ---- (cpp) attribute nodes of every module ----
    def cpp_attr_list(self, attrs):
        out = []
        for a in attrs:
            if not _is_qual(a, "cpp"):
                continue
            v = a.value
            if v.has_field("string_constant"):
                val = "(AVString %s)" % coq_bytes(v.string_constant.text)
            elif v.has_field("expression"):
                t = v.expression.type
                w = t.which_type if t is not None else None
                if w == "integer":
                    val = "(AVInt %s)" % ("true" if ir_util.is_constant(v.expression) else "false")
                elif w == "boolean":
                    val = "(AVBool %s)" % ("true" if t.boolean.has_field("value") else "false")
                else:
                    val = "AVExpr"
            else:
                raise TranslatorError("attribute value kind")
            out.append("(mk_attr %s %s %s)" % (coq_str(a.name.text), "true" if a.is_default else "false", val))
        return out

    def cpp_nodes(self):
        nodes = []
        count = [0]

        def node(sc, attrs):
            l = self.cpp_attr_list(attrs)
            count[0] += len(l)
            if l:
                nodes.append("(%s, [%s])" % (sc, "; ".join(l)))

        def walk(td):
            if td.has_field("structure"):
                unit = int(td.addressable_unit)
                node("ScBits" if unit == 1 else "ScStruct", td.attribute)
                for f in td.structure.field:
                    node("ScVirtField" if ir_util.field_is_virtual(f) else "ScPhysField", f.attribute)
            elif td.has_field("enumeration"):
                node("ScEnum", td.attribute)
                for v in td.enumeration.value:
                    node("ScEnumValue", v.attribute)
            elif td.has_field("external"):
                node("ScExternal", td.attribute)
            for sub in td.subtype:
                walk(sub)
        for m in self.ir.module:
            node("ScModule", m.attribute)
            for td in m.type:
                walk(td)
        return "[" + ";\n   ".join(nodes) + "]", count[0]

    # ---- [requires] sites ----
    def req_sites(self):
        out = []

        def walk(td):
            if td.has_field("structure"):
                for f in td.structure.field:
                    if not any(a.name.text == "requires" and not a.is_default and not (a.back_end is not None and a.back_end.text)
                               for a in f.attribute):
                        continue
                    if ir_util.field_is_virtual(f):
                        arr, t = False, f.read_transform.type
                    elif not f.type.has_field("atomic_type"):
                        arr, t = True, None
                    else:
                        ft = ir_util.find_object(f.type.atomic_type.reference, self.ir)
                        arr, t = False, type_check.unbounded_expression_type_for_physical_type(ft)
                    k = {"integer": "VkInt", "boolean": "VkBool", "enumeration": "VkEnum"}.get(t.which_type if t is not None else None, "VkOpaque")
                    out.append("(mk_req %s %s)" % ("true" if arr else "false", k))
            for sub in td.subtype:
                walk(sub)
        for m in self.ir.module:
            if m.source_file_name == "":
                continue
            for td in m.type:
                walk(td)
        return "[" + "; ".join(out) + "]", len(out)

    # ---- 64-bit gate ----
    def _ext(self, v):
        if v in (None, ""):
            raise OutOfModel("integer-expression-without-bounds")
        if v == "infinity":
            return "PosInf"
        if v == "-infinity":
            return "NegInf"
        return "(Fin %s)" % _z(int(v))

    def btree(self, e):
        fn = e.which_expression == "function" and not ir_util.is_constant_type(e.type)
        ib = "None"
        if e.type.which_type == "integer":
            ib = "(Some (%s, %s))" % (self._ext(e.type.integer.minimum_value), self._ext(e.type.integer.maximum_value))
        args = [self.btree(a) for a in e.function.args] if fn else []
        self.nodes += 1
        return "(BT %s %s [%s])" % ("true" if fn else "false", ib, "; ".join(args))

    def exprs(self):
        from compiler.util import traverse_ir
        roots = []
        traverse_ir.fast_traverse_ir_top_down(
            self.ir, [ir_data.Expression], _gate_collect,
            incidental_actions={ir_data.Attribute: _gate_attr_action},
            skip_descendants_of={ir_data.EnumValue, ir_data.Expression},
            parameters={"in_attribute": None, "roots": roots})
        self.nodes = 0
        out = []
        seen = set()
        for e in roots:
            t = self.btree(e)
            if t not in seen:       # the verdict is a conjunction: equal trees once
                seen.add(t)
                out.append(t)
        if self.nodes > 6000:
            raise OutOfModel("too-many-expression-nodes")
        return "[" + ";\n   ".join(out) + "]", len(roots)

    def imports(self):
        out = []
        for k, m in enumerate(self.ir.module):
            if k == 0 or m.source_file_name == "":
                continue
            lt = LayoutTranslator(self.ir, module_index=k)
            declared, used = lt.back_ends()
            out.append("(mk_import %s [%s] [%s])" % (lt.attrs(m.attribute), "; ".join(coq_str(x) for x in declared),
                                                    "; ".join(coq_str(x) for x in used)))
        return "[" + "; ".join(out) + "]", len(out)

    def param_names(self):
        names = []

        def walk(td):
            for p in td.runtime_parameter:
                names.append(p.name.name.text)
            for sub in td.subtype:
                walk(sub)
        for m in self.ir.module:
            for td in m.type:
                walk(td)
        return names

    def translate(self):
        cpp, ncpp = self.cpp_nodes()
        req, nreq = self.req_sites()
        ex, nex = self.exprs()
        imp, nimp = self.imports()
        names = self.param_names()
        term = "(mk_ext %s\n  %s\n  %s\n  %s [%s])" % (cpp, req, ex, imp, "; ".join(coq_str(n) for n in names))
        return term, dict(cpp_attrs=ncpp, req_sites=nreq, exprs=nex, imports=nimp, params=len(names))


def _sref_collect(expression, out):
    # as constraints._check_constancy_of_constant_references
    if expression.which_expression == "constant_reference":
        out.append(expression)


class Ext2Translator:
    """IR (after compute_constants, before normalize_and_verify) -> Layout.ModelExt2.ext_info2 term."""

    def __init__(self, ir):
        self.ir = ir

    def srefs(self):
        from compiler.util import traverse_ir
        sites = []
        traverse_ir.fast_traverse_ir_top_down(self.ir, [ir_data.Expression], _sref_collect, parameters={"out": sites})
        out = []
        for e in sites:
            obj = ir_util.find_object(e.constant_reference.canonical_name, self.ir)
            if isinstance(obj, ir_data.EnumValue):
                out.append("(TgEnumValue %s)" % ("true" if ir_util.is_constant(obj.value) else "false"))
            elif isinstance(obj, ir_data.Field) and ir_util.field_is_virtual(obj):
                out.append("(TgVirtual %s)" % ("true" if ir_util.is_constant_type(obj.read_transform.type) else "false"))
            else:
                raise OutOfModel("static-reference-target-" + type(obj).__name__)
        n = len(out)
        uniq = []
        for t in out:                # the verdict is a conjunction: equal entries once
            if t not in uniq:
                uniq.append(t)
        return "[" + "; ".join(uniq) + "]", n

    def decls(self):
        out = []
        for k, m in enumerate(self.ir.module):
            lt = LayoutTranslator(self.ir, module_index=k)
            _, used = lt.back_ends()
            raw = lt.declared_raw
            has_attr = any(a.name.text == "expected_back_ends" and not a.is_default and not (a.back_end is not None and a.back_end.text)
                           for a in m.attribute)
            if has_attr and raw is None:
                raw = ""             # non-string value: rejected by the attribute table (QString); reads as ""
            out.append("(mk_be_decl %s [%s])" % ("None" if raw is None else "(Some %s)" % coq_bytes(raw),
                                                "; ".join(coq_str(x) for x in used)))
        return "[" + "; ".join(out) + "]"

    def translate(self):
        sr, n = self.srefs()
        return "(mk_ext2 %s\n  %s)" % (sr, self.decls()), dict(static_refs=n)


def real_back_ends_verdict(text):
    """(accepted?, expected qualifiers in split order) from attribute_checker._valid_back_ends / _gather_expected_back_ends."""
    from compiler.front_end import attribute_checker as ac
    loc = parser_types.SourceLocation(parser_types.SourcePosition(1, 1), parser_types.SourcePosition(1, 2 + len(text)))
    attr = ir_data.Attribute(
        name=ir_data.Word(text="expected_back_ends", source_location=loc),
        value=ir_data.AttributeValue(string_constant=ir_data.String(text=text, source_location=loc), source_location=loc),
        source_location=loc)
    errs = ac._valid_back_ends(attr, "m.emb")
    got = ac._gather_expected_back_ends(ir_data.Module(attribute=[attr]))["expected_back_ends"]
    return (not errs), got


# messages of checks inside normalize_and_verify / check_constraints that the Layout model does not mirror
UNMODELLED_PREFIXES = ()


def analyse_c14(args):
    try:
        return _analyse_c14(args)
    except Exception:
        return {"oom": "TRANSLATOR:harness exception " + traceback.format_exc()[-1500:], "coq": None,
                "full": ("ok", None), "layout": ("accept", []), "harness_error": True}


def _backend_verdict(ir, full_header):
    """The C++ back end's attribute verification on an IR the front end accepted."""
    from compiler.back_end.cpp import header_generator as hg
    try:
        if full_header:
            header, errs = hg.generate_header(ir)
            if not errs and not header:
                return ("crash", {"exception": "no header and no errors", "function": "generate_header", "file": "header_generator.py"})
        else:
            errs = hg._propagate_defaults_and_verify_attributes(ir)
    except Exception as ex:
        tb = traceback.extract_tb(ex.__traceback__)
        return ("crash", {"exception": repr(ex), "function": tb[-1].name, "file": os.path.basename(tb[-1].filename)})
    if errs:
        return ("errors", error_lines(errs))
    return ("ok", None)


def _analyse_c14(args):
    text, name, extra, repo = args
    out = {"oom": None, "coq": None, "backend": None, "ext": None}
    st, r = compile_emb(text, name=name, extra=extra, repo=repo)
    out["full"] = ("ok", None) if st == "ok" else ("errors", error_lines(r)) if st == "errors" else ("crash", _crash_plain(r))
    if st == "ok":
        out["backend"] = _backend_verdict(r, "(cpp)" in text or any("(cpp)" in v for v in (extra or {}).values()))
    # the IR the model is built from: every pass up to compute_constants, whatever check_early_constraints says
    st0, ir = compile_emb(text, stop="check_early_constraints", name=name, extra=extra, repo=repo)
    if st0 != "ok":
        out["layout"] = ("early", [])
        out["oom"] = "rejected-before-attribute-checks" if st0 == "errors" else "crash-before-attribute-checks"
        return out
    from compiler.front_end import constraints, expression_bounds
    from compiler.util import error as error_mod
    try:
        early, _ = error_mod.split_errors(constraints.check_early_constraints(ir))
        cc, _ = error_mod.split_errors(expression_bounds.compute_constants(ir))
    except Exception:
        out["layout"] = ("early", [])
        out["oom"] = "crash-before-attribute-checks"
        return out
    if cc:
        out["layout"] = ("early", [])
        out["oom"] = "rejected-before-attribute-checks"
        return out
    if st == "ok":
        st1, r1 = "ok", None                       # accepted by every pass
    else:
        st1, r1 = compile_emb(text, stop="set_write_methods", name=name, extra=extra, repo=repo)
    if st1 == "crash":
        out["layout"] = ("crash", _crash_plain(r1))
    elif st1 == "errors":
        lines = error_lines(r1)
        modelled = [l for l in lines if not (UNMODELLED_PREFIXES and l[2].startswith(UNMODELLED_PREFIXES))]
        out["layout"] = ("reject", modelled) if modelled else ("unmodelled-reject", lines)
    else:
        out["layout"] = ("accept", [])
    out["early"] = bool(early)
    try:
        lt = LayoutTranslator(ir)
        out["coq"] = lt.translate()
        out["ext"], out["ext_counts"] = ExtTranslator(ir, lt).translate()
        out["ext2"], c2 = Ext2Translator(ir).translate()
        out["ext_counts"].update(c2)
        out["ext_counts"]["user_externals"] = len(lt.externals)
        # the byte orders the front end's own normalisation leaves on the fields (also when it then
        # reports errors): run the pass on a fresh IR and read the attributes back
        out["borders"] = None
        st2, ir2 = compile_emb(text, stop="normalize_and_verify", name=name, extra=extra, repo=repo)
        if st2 == "ok":
            from compiler.front_end import attribute_checker
            try:
                attribute_checker.normalize_and_verify(ir2)
                # normalisation ran iff check_attributes_in_ir found nothing: the prelude (which declares no
                # expected_back_ends of its own) then carries the synthesized attribute
                normalised = any(a.name.text == "expected_back_ends" for m in ir2.module if m.source_file_name == ""
                                 for a in m.attribute)
            except Exception:
                normalised = False
            if normalised:
                out["borders"] = LayoutTranslator(ir2).collect_all().effective()
    except OutOfModel as ex:
        out["oom"] = str(ex)
    except TranslatorError as ex:
        out["oom"] = "TRANSLATOR:" + str(ex)
    return out
