"""Fail-closed translator: compiler/front_end/format_emb.py -> the handler DSL of Lex/FmtModel.v.

Regenerated on every run from the working tree of /repo:
  * the registrations  @_formats("lhs -> rhs...") / @_formats_with_config(...)  of every handler function
    (read from the decorators; cross-checked against format_emb._formatters and module_ir.PRODUCTIONS);
  * the body of every handler function, translated statement by statement into an `expr` term.  Calls of
    module-level helper functions that are not primitives (_concatenate_with, _concatenate_with_spaces, ...)
    are inlined; local variables are substituted.
The shared combinators are primitives of the model and are NOT translated (their Gallina versions are written
by hand in FmtModel.v and compared with the implementation by the correspondence part of the C11 check):
  _Row _Block _InlineBitsBodyType _indent_rows _indent_blocks _intersperse _should_add_blank_lines _columnize
  _strip_empty_leading_trailing_comment_lines _indent_blanks_and_comments _add_blank_rows_on_dedent
  _render_rows_to_text
Anything the translator does not recognise raises Unsupported (the check then fails closed).

DSL terms are python tuples mirroring FmtModel.expr / FmtModel.cond:
  ('EArg', i) ('EArgs',) ('ELit', s) ('ENil',) ('ECons', a, l) ('EAdd', a, b) ('EJoin', sep, l) ('EFilterTruthy', l)
  ('EMapPrefix', s, l) ('ERstrip', e) ('EFst', i) ('ESnd', i) ('EBodyHdr', i) ('EBodyBlocks', i) ('EBodyMk', h, b)
  ('ERow', name, cols) ('EBlock', p, h, b) ('EIndentRows', e) ('EIndentBlocks', e) ('EIntersperse', sep, secs)
  ('EColumnize', e, ic) ('EStripComments', e) ('EPrependFirst', rows, blocks) ('EIf', c, a, b) ('EAssert', c, e)
  ('EIndentBlanks', e) ('EDedentBlanks', e) ('ERender', e)
  ('CTruthy', i) ('CNot', c) ('CAnd', a, b) ('CStrEq', i, s) ('CStartsWith', i, s) ('CShouldBlank', i)
"""
import ast
import os


class Unsupported(Exception):
    pass


PRIMITIVES = {"_Row", "_Block", "_InlineBitsBodyType", "_indent_rows", "_indent_blocks", "_intersperse",
              "_should_add_blank_lines", "_columnize", "_strip_empty_leading_trailing_comment_lines",
              "_indent_blanks_and_comments", "_add_blank_rows_on_dedent", "_render_rows_to_text"}
UNARY_PRIMS = {"_indent_rows": "EIndentRows", "_indent_blocks": "EIndentBlocks",
               "_strip_empty_leading_trailing_comment_lines": "EStripComments",
               "_indent_blanks_and_comments": "EIndentBlanks", "_add_blank_rows_on_dedent": "EDedentBlanks"}


def _fail(node, why):
    raise Unsupported("format_emb.py line %s: %s [%s]" % (getattr(node, "lineno", "?"), why,
                                                          ast.dump(node)[:160] if isinstance(node, ast.AST) else node))


class Env:
    """name -> ('arg', i) | ('expr', term) | ('const', value) | ('varargs', term) | ('config',)"""

    def __init__(self, d=None):
        self.d = dict(d or {})
        self.asserted = set()        # local list variables under `assert v`
        self.consumed = set()        # ... that reached EPrependFirst (which fails on an empty list)


class Translator:
    def __init__(self, src):
        self.mod = ast.parse(src)
        self.funcs = {}
        for st in self.mod.body:
            if isinstance(st, ast.FunctionDef):
                if st.name in self.funcs:
                    _fail(st, "function defined twice")
                self.funcs[st.name] = st
        self.depth = 0

    # ---- registrations -------------------------------------------------------------------------
    def registrations(self):
        """-> list of (production_text, function name, with_config)"""
        out = []
        for fn in self.funcs.values():
            for dec in fn.decorator_list:
                if not (isinstance(dec, ast.Call) and isinstance(dec.func, ast.Name) and dec.func.id in ("_formats", "_formats_with_config")):
                    _fail(dec, "decorator not understood on %s" % fn.name)
                if len(dec.args) != 1 or dec.keywords or not (isinstance(dec.args[0], ast.Constant) and isinstance(dec.args[0].value, str)):
                    _fail(dec, "decorator argument is not one string constant")
                out.append((dec.args[0].value, fn.name, dec.func.id == "_formats_with_config"))
        return out

    # ---- handler functions ---------------------------------------------------------------------
    def handler(self, name, with_config):
        """-> (term, arity or None for *args)"""
        fn = self.funcs[name]
        a = fn.args
        if a.kwonlyargs or a.kwarg or a.defaults or a.kw_defaults or a.posonlyargs:
            _fail(fn, "handler signature not understood")
        env = Env()
        params = [p.arg for p in a.args]
        if a.vararg is not None:
            if params or with_config:
                _fail(fn, "*args handler with further parameters")
            env.d[a.vararg.arg] = ("varargs", ("EArgs",))
            arity = None
        else:
            if with_config:
                if not params or params[-1] != "config":
                    _fail(fn, "handler registered with config has no trailing `config` parameter")
                env.d["config"] = ("config",)
                params = params[:-1]
            for i, p in enumerate(params):
                env.d[p] = ("arg", i)
            arity = len(params)
        term = self.block(fn.body, env, fn)
        missing = env.asserted - env.consumed
        if missing:
            _fail(fn, "assert on local %s is not covered by the model" % sorted(missing))
        return term, arity

    def block(self, stmts, env, where):
        if not stmts:
            _fail(where, "control reaches the end of the function without return")
        st, rest = stmts[0], stmts[1:]
        if isinstance(st, ast.Expr) and isinstance(st.value, ast.Constant) and isinstance(st.value.value, str):
            return self.block(rest, env, where)            # docstring
        if isinstance(st, ast.Delete):
            for t in st.targets:
                if not (isinstance(t, ast.Name) and env.d.get(t.id, ("",))[0] == "arg"):
                    _fail(st, "del of something that is not a parameter")
            return self.block(rest, env, where)
        if isinstance(st, ast.Assign):
            if len(st.targets) != 1 or not isinstance(st.targets[0], ast.Name):
                _fail(st, "assignment target")
            val = self.expr(st.value, env)
            env2 = Env(env.d)
            env2.asserted, env2.consumed = env.asserted, env.consumed
            env2.d[st.targets[0].id] = ("expr", val)
            return self.block(rest, env2, where)
        if isinstance(st, ast.Assert):
            t = st.test
            if isinstance(t, ast.Name) and env.d.get(t.id, ("",))[0] == "expr":
                env.asserted.add(t.id)
                return self.block(rest, env, where)
            return ("EAssert", self.cond(t, env), self.block(rest, env, where))
        if isinstance(st, ast.Return):
            if st.value is None:
                _fail(st, "return without value")
            return self.expr(st.value, env)
        if isinstance(st, ast.If):
            c = self.cond(st.test, env)
            return ("EIf", c, self.block(st.body, env, st), self.block(list(st.orelse) + list(rest), env, st))
        _fail(st, "statement not understood")

    # ---- conditions ----------------------------------------------------------------------------------
    def argindex(self, node, env):
        if isinstance(node, ast.Name) and env.d.get(node.id, ("",))[0] == "arg":
            return env.d[node.id][1]
        _fail(node, "expected a handler parameter")

    def cond(self, node, env):
        if isinstance(node, ast.Name):
            return ("CTruthy", self.argindex(node, env))
        if isinstance(node, ast.UnaryOp) and isinstance(node.op, ast.Not):
            return ("CNot", self.cond(node.operand, env))
        if isinstance(node, ast.BoolOp) and isinstance(node.op, ast.And):
            cs = [self.cond(v, env) for v in node.values]
            r = cs[-1]
            for c in reversed(cs[:-1]):
                r = ("CAnd", c, r)
            return r
        if isinstance(node, ast.Compare) and len(node.ops) == 1 and isinstance(node.ops[0], ast.Eq) and \
                isinstance(node.comparators[0], ast.Constant) and isinstance(node.comparators[0].value, str):
            return ("CStrEq", self.argindex(node.left, env), node.comparators[0].value)
        if isinstance(node, ast.Call) and isinstance(node.func, ast.Attribute) and node.func.attr == "startswith" and \
                len(node.args) == 1 and not node.keywords and isinstance(node.args[0], ast.Constant) and isinstance(node.args[0].value, str):
            return ("CStartsWith", self.argindex(node.func.value, env), node.args[0].value)
        if isinstance(node, ast.Call) and isinstance(node.func, ast.Name) and node.func.id == "_should_add_blank_lines" and \
                len(node.args) == 1 and not node.keywords:
            return ("CShouldBlank", self.argindex(node.args[0], env))
        _fail(node, "condition not understood")

    # ---- expressions ---------------------------------------------------------------------------------
    def const(self, node, env, ty):
        if isinstance(node, ast.Constant) and type(node.value) is ty:
            return node.value
        if isinstance(node, ast.Name) and env.d.get(node.id, ("",))[0] == "const" and type(env.d[node.id][1]) is ty:
            return env.d[node.id][1]
        _fail(node, "expected a %s constant" % ty.__name__)

    def is_config_attr(self, node, env, attr):
        return isinstance(node, ast.Attribute) and node.attr == attr and isinstance(node.value, ast.Name) and \
            env.d.get(node.value.id, ("",))[0] == "config"

    def listexpr(self, elts, env):
        r = ("ENil",)
        for e in reversed(elts):
            r = ("ECons", self.expr(e, env), r)
        return r

    def prepend_first(self, node, env):
        """[_Block(X + v[0].prefix, v[0].header, v[0].body)] + v[1:]   ->   EPrependFirst(X, v)"""
        if not (isinstance(node, ast.BinOp) and isinstance(node.op, ast.Add)):
            return None
        l, r = node.left, node.right
        if not (isinstance(r, ast.Subscript) and isinstance(r.value, ast.Name) and isinstance(r.slice, ast.Slice) and
                isinstance(r.slice.lower, ast.Constant) and r.slice.lower.value == 1 and r.slice.upper is None and r.slice.step is None):
            return None
        v = r.value.id
        if env.d.get(v, ("",))[0] != "expr":
            return None

        def part(n, attr):
            return (isinstance(n, ast.Attribute) and n.attr == attr and isinstance(n.value, ast.Subscript) and
                    isinstance(n.value.value, ast.Name) and n.value.value.id == v and
                    isinstance(n.value.slice, ast.Constant) and n.value.slice.value == 0)
        if not (isinstance(l, ast.List) and len(l.elts) == 1 and isinstance(l.elts[0], ast.Call) and
                isinstance(l.elts[0].func, ast.Name) and l.elts[0].func.id == "_Block" and len(l.elts[0].args) == 3 and not l.elts[0].keywords):
            return None
        a1, a2, a3 = l.elts[0].args
        if not (part(a2, "header") and part(a3, "body") and isinstance(a1, ast.BinOp) and isinstance(a1.op, ast.Add) and part(a1.right, "prefix")):
            return None
        env.consumed.add(v)
        return ("EPrependFirst", self.expr(a1.left, env), env.d[v][1])

    def expr(self, node, env):
        if isinstance(node, ast.Name):
            b = env.d.get(node.id)
            if b is None:
                _fail(node, "unknown name")
            if b[0] == "arg":
                return ("EArg", b[1])
            if b[0] in ("expr", "varargs"):
                return b[1]
            if b[0] == "const" and isinstance(b[1], str):
                return ("ELit", b[1])
            _fail(node, "name cannot be used as a value here")
        if isinstance(node, ast.Constant) and isinstance(node.value, str):
            return ("ELit", node.value)
        if isinstance(node, ast.List):
            return self.listexpr(node.elts, env)
        if isinstance(node, ast.BinOp) and isinstance(node.op, ast.Add):
            p = self.prepend_first(node, env)
            if p is not None:
                return p
            return ("EAdd", self.expr(node.left, env), self.expr(node.right, env))
        if isinstance(node, ast.IfExp):
            return ("EIf", self.cond(node.test, env), self.expr(node.body, env), self.expr(node.orelse, env))
        if isinstance(node, ast.Subscript) and isinstance(node.slice, ast.Constant) and node.slice.value in (0, 1) and isinstance(node.value, ast.Name):
            return ("EFst" if node.slice.value == 0 else "ESnd", self.argindex(node.value, env))
        if isinstance(node, ast.Attribute) and node.attr in ("header_lines", "field_blocks") and isinstance(node.value, ast.Name):
            return ("EBodyHdr" if node.attr == "header_lines" else "EBodyBlocks", self.argindex(node.value, env))
        if isinstance(node, ast.GeneratorExp):
            return self.genexp(node, env)
        if isinstance(node, ast.Call):
            return self.call(node, env)
        _fail(node, "expression not understood")

    def genexp(self, node, env):
        if len(node.generators) != 1:
            _fail(node, "generator")
        g = node.generators[0]
        if g.is_async or not isinstance(g.target, ast.Name) or len(g.ifs) > 1:
            _fail(node, "generator")
        x = g.target.id
        src = self.expr(g.iter, env)
        if g.ifs:
            if not (isinstance(g.ifs[0], ast.Name) and g.ifs[0].id == x):
                _fail(node, "generator filter")
            src = ("EFilterTruthy", src)
        e = node.elt
        if isinstance(e, ast.Name) and e.id == x:
            return src
        if isinstance(e, ast.BinOp) and isinstance(e.op, ast.Add) and isinstance(e.left, ast.Constant) and isinstance(e.left.value, str) and \
                isinstance(e.right, ast.Name) and e.right.id == x:
            return ("EMapPrefix", e.left.value, src)
        _fail(node, "generator element")

    def call(self, node, env):
        f = node.func
        if isinstance(f, ast.Attribute):
            if f.attr == "join" and len(node.args) == 1 and not node.keywords:
                return ("EJoin", self.const(f.value, env, str), self.expr(node.args[0], env))
            if f.attr == "format" and isinstance(f.value, ast.Constant) and isinstance(f.value.value, str) and not node.keywords:
                parts = f.value.value.split("{}")
                if any("{" in p or "}" in p for p in parts) or len(parts) != len(node.args) + 1:
                    _fail(node, "format string")
                pieces = []
                for i, p in enumerate(parts):
                    if p:
                        pieces.append(("ELit", p))
                    if i < len(node.args):
                        pieces.append(self.expr(node.args[i], env))
                if not pieces:
                    return ("ELit", "")
                r = pieces[0]
                for p in pieces[1:]:
                    r = ("EAdd", r, p)
                # str.format accepts any object; the model's EAdd insists on str, which is what every caller passes
                return r
            if f.attr == "rstrip" and not node.args and not node.keywords:
                return ("ERstrip", self.expr(f.value, env))
            _fail(node, "method call not understood")
        if not isinstance(f, ast.Name):
            _fail(node, "call not understood")
        name = f.id
        if name in UNARY_PRIMS:
            if len(node.args) != 1 or node.keywords:
                _fail(node, "arguments of " + name)
            return (UNARY_PRIMS[name], self.expr(node.args[0], env))
        if name == "_Row":
            if node.keywords or len(node.args) not in (1, 2):
                _fail(node, "_Row arguments")
            return ("ERow", self.const(node.args[0], env, str), self.expr(node.args[1], env) if len(node.args) == 2 else ("ENil",))
        if name == "_Block":
            if node.keywords or len(node.args) != 3:
                _fail(node, "_Block arguments")
            return ("EBlock",) + tuple(self.expr(a, env) for a in node.args)
        if name == "_InlineBitsBodyType":
            kw = {k.arg: k.value for k in node.keywords}
            if node.args or sorted(kw) != ["field_blocks", "header_lines"]:
                _fail(node, "_InlineBitsBodyType arguments")
            return ("EBodyMk", self.expr(kw["header_lines"], env), self.expr(kw["field_blocks"], env))
        if name == "_intersperse":
            if node.keywords or len(node.args) != 2:
                _fail(node, "_intersperse arguments")
            return ("EIntersperse", self.expr(node.args[0], env), self.expr(node.args[1], env))
        if name == "_columnize":
            cdef = self.funcs.get("_columnize")
            if cdef is None or [p.arg for p in cdef.args.args] != ["blocks", "indent_width", "indent_columns"] or \
                    len(cdef.args.defaults) != 1 or not isinstance(cdef.args.defaults[0], ast.Constant):
                _fail(node, "_columnize signature")
            ic = cdef.args.defaults[0].value
            kw = {k.arg: k.value for k in node.keywords}
            if len(node.args) != 2 or set(kw) - {"indent_columns"} or not self.is_config_attr(node.args[1], env, "indent_width"):
                _fail(node, "_columnize arguments")
            if "indent_columns" in kw:
                ic = self.const(kw["indent_columns"], env, int)
            if type(ic) is not int or ic < 0:
                _fail(node, "indent_columns")
            return ("EColumnize", self.expr(node.args[0], env), ic)
        if name == "_render_rows_to_text":
            if node.keywords or len(node.args) != 3 or not self.is_config_attr(node.args[1], env, "indent_width") or \
                    not self.is_config_attr(node.args[2], env, "show_line_types"):
                _fail(node, "_render_rows_to_text arguments")
            return ("ERender", self.expr(node.args[0], env))     # the model covers show_line_types = False
        if name in PRIMITIVES:
            _fail(node, "primitive used in a position the model does not cover")
        # any other module-level function: inline its body
        fn = self.funcs.get(name)
        if fn is None:
            _fail(node, "call of an unknown function")
        if self.depth > 6:
            _fail(node, "helper functions nest too deeply (recursion?)")
        a = fn.args
        if a.kwonlyargs or a.kwarg or a.defaults or a.kw_defaults or a.posonlyargs or node.keywords:
            _fail(node, "helper signature not understood")
        params = [p.arg for p in a.args]
        pos = list(node.args)
        star = None
        if pos and isinstance(pos[-1], ast.Starred):
            star = pos.pop()
        if any(isinstance(x, ast.Starred) for x in pos):
            _fail(node, "starred argument")
        inner = Env()
        if len(pos) < len(params):
            _fail(node, "too few arguments")
        for p, x in zip(params, pos):
            if isinstance(x, ast.Constant):
                inner.d[p] = ("const", x.value)
            else:
                inner.d[p] = ("expr", self.expr(x, env))
        extra = pos[len(params):]
        if a.vararg is None:
            if extra or star is not None:
                _fail(node, "too many arguments")
        else:
            tail = ("ENil",)
            if star is not None:
                if not (isinstance(star.value, ast.Name) and env.d.get(star.value.id, ("",))[0] == "varargs"):
                    _fail(node, "starred argument is not the *args of the caller")
                tail = env.d[star.value.id][1]
            for x in reversed(extra):
                tail = ("ECons", self.expr(x, env), tail)
            inner.d[a.vararg.arg] = ("varargs", tail)
        self.depth += 1
        try:
            r = self.block(fn.body, inner, fn)
        finally:
            self.depth -= 1
        if inner.asserted - inner.consumed:
            _fail(node, "assert in helper not covered")
        return r


# ---------------------------------------------------------------------------------------------------
def load(repo):
    """-> dict(productions=[(lhs, rhs tuple, function name, term)], index={Production: i}, functions={name: term})"""
    import importlib
    path = os.path.join(repo, "compiler", "front_end", "format_emb.py")
    tr = Translator(open(path, encoding="utf-8").read())
    from compiler.util import parser_types
    format_emb = importlib.import_module("compiler.front_end.format_emb")
    module_ir = importlib.import_module("compiler.front_end.module_ir")
    if os.path.realpath(format_emb.__file__) != os.path.realpath(path):
        raise Unsupported("format_emb imported from %s, translated %s" % (format_emb.__file__, path))
    regs = {}
    kinds = {}
    for text, fname, with_config in tr.registrations():
        p = parser_types.Production.parse(text)
        if p in regs:
            raise Unsupported("production registered twice: %s" % (p,))
        regs[p] = fname
        if kinds.setdefault(fname, with_config) != with_config:
            raise Unsupported("%s registered both with and without config" % fname)
    if set(regs) != set(format_emb._formatters):
        raise Unsupported("decorator registrations differ from format_emb._formatters: %r" %
                          sorted(str(p) for p in set(regs) ^ set(format_emb._formatters))[:5])
    if set(regs) != set(module_ir.PRODUCTIONS):
        raise Unsupported("registrations differ from module_ir.PRODUCTIONS")
    functions = {}
    arity = {}
    for fname in sorted(set(regs.values())):
        functions[fname], arity[fname] = tr.handler(fname, kinds[fname])
    prods = []
    index = {}
    for p in sorted(regs, key=str):
        fname = regs[p]
        if arity[fname] is not None and arity[fname] != len(p.rhs):
            raise Unsupported("%s takes %d arguments but is registered for %s" % (fname, arity[fname], p))
        index[p] = len(prods)
        prods.append((p.lhs, tuple(p.rhs), fname, functions[fname]))
    return dict(productions=prods, index=index, functions=functions)


# ---- Coq output ----------------------------------------------------------------------------------------
def coq_str(s):
    return "[" + ";".join(str(ord(c)) for c in s) + "]"


def coq_term(t):
    k = t[0]
    out = []
    for x in t[1:]:
        if isinstance(x, tuple):
            out.append(coq_term(x))
        elif isinstance(x, str):
            out.append(coq_str(x))
        elif isinstance(x, int) and not isinstance(x, bool):
            out.append(str(x))
        else:
            raise Unsupported("term component %r" % (x,))
    return "(" + " ".join([k] + out) + ")" if out else k


def ident(fname):
    return "h" + "".join(c if c.isalnum() else "_" for c in fname)


def write_table_v(path, tab, lex_table_module):
    with open(path, "w") as f:
        f.write("(* GENERATED by harness/fmt_x.py from compiler/front_end/format_emb.py -- do not edit *)\n")
        f.write("From Coq Require Import NArith List.\nImport ListNotations.\n")
        f.write("Require Import EmbossV.Lex.Regex EmbossV.Lex.Tokenizer EmbossV.Lex.FmtModel.\n")
        f.write("Require Import EmbossVGen.%s.\n" % lex_table_module)
        f.write("Local Open Scope N_scope.\n")
        f.write("Definition fmt_ws : N -> bool := is_ws code_table.\n")
        for fname, term in sorted(tab["functions"].items()):
            f.write("Definition %s : expr := %s.\n" % (ident(fname), coq_term(term).replace("%", "")))
        f.write("Definition fmt_table : list handler := [\n")
        rows = []
        for lhs, rhs, fname, _ in tab["productions"]:
            rows.append("  mkHandler %s [%s] %s" % (coq_str(lhs), ";".join(coq_str(r) for r in rhs), ident(fname)))
        f.write(";\n".join(rows))
        f.write("\n].\n")


if __name__ == "__main__":
    import sys
    sys.path.insert(0, os.environ.get("EMBOSS_REPO", "/repo"))
    t = load(os.environ.get("EMBOSS_REPO", "/repo"))
    for fname, term in sorted(t["functions"].items()):
        print(fname, "=", coq_term(term))
    print(len(t["productions"]), "productions,", len(t["functions"]), "handler functions")
