"""C03 -- field writes are range-checked, read back exactly, and touch only their own bits.

Shares the runner of C02 (harness/props/c02.py: run_bits): the same generated modules, with drivers that call
CouldWriteValue(v), TryToWrite(v), Read() afterwards and dump the whole buffer.
"""
from harness.props import c02

META = {
    "technique": "Coq proofs about a Gallina mirror of CouldWriteValue / TryToWrite / OffsetBitBlock::WriteUInt+MaskInValue / container store (C++ integer semantics explicit) + differential correspondence through generated code",
    "level_text": "Machine-checked theorems (Coq 8.16, no axioms): for every width 1..64 and every C++ integer argument type int8_t..uint64_t, UIntView/IntView/EnumView(unsigned)::CouldWriteValue returns true exactly for the representable values and no sub-expression is undefined; a successful TryToWrite of a UInt/Int/unsigned-enum/Flag/Float field at any bit offset of any 1..8-byte container in either byte order stores bytes from which Read() returns the written value and leaves every other bit of the container (and, via splice, every other byte of the root buffer) unchanged; a failed TryToWrite writes nothing; TryToWrite <-> CouldWriteValue /\\ IsComplete, and IsComplete <-> the container's bytes are present. Refuted by the faithful model (findings): signed enums (F1), NullByteOrderer on a short buffer, and BcdView's non-templated argument (narrowing). Tied to /repo on every run by generated modules compiled with the working tree's embossc and g++, comparing CouldWriteValue/TryToWrite/Read/buffer dump with the model (vm_compute) and with an independent arithmetic reference, for range edges +-1, C++ type limits and random values on 0x00/0xFF/random/truncated buffers.",
    "level_note": "Trusted: Coq kernel + vm_compute; g++ 12 as the semantics of C++; harness/gen_bits.py, harness/cpp_build.py. Proved for the runtime as compiled by GCC/Clang (memcpy + bswap paths); the EMBOSS_NO_OPTIMIZATIONS loops and BcdView's ConvertToBcd/MaxBcd are covered by the model and the correspondence (every run), not yet by theorems. Virtual-field write-through (write_inference + template) is compared on generated +/- chains but its inverse is not yet proved in Coq. [requires] validators are out of scope here (C01).",
}


def run(ctx):
    ctx.rule = ("accessors as in C02 (every width 1..64 at bit offsets {0,1,7,8c-w} of containers of 1..8 bytes, one kind per triple, "
                "nested bits, struct-level scalars, LE/BE/Null, optimised and portable runtime); per accessor three C++ argument "
                "types out of int8_t..uint64_t (enums: the enum type; Float: bit patterns; Flag: bool) and values {0, 1, -1, "
                "range edges +-1, argument type min/max, 2^w, random in range, random in type}; initial buffers 0x00.., 0xFF.., "
                "random, and one truncated by a byte; a case is one (accessor, buffer, argument type, value); non-trivial when "
                "the field's bytes are present")
    ctx.assumptions = ["fields carry no [requires] attribute; the generated struct code that produces the field's view is C01's subject",
                       "Float: bit pattern only (the C++ driver builds the float by memcpy from the pattern)"]
    ctx.audit()
    ctx.check_theorems("EmbossV.Bits.Properties_C03", "Bits/Properties_C03.v", expect_min=15)
    c02.run_bits(ctx, "write", "C03")
