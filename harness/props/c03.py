"""C03 -- field writes are range-checked, read back exactly, and touch only their own bits.

Shares the runner of C02 (harness/props/c02.py: run_bits): the same generated modules, with drivers that call
CouldWriteValue(v), TryToWrite(v), Read() afterwards and dump the whole buffer.
"""
import json
import os

from harness import fw, gen_bits, cpp_build
from harness.props import c02

META = {
    "technique": "Coq proofs about a Gallina mirror of CouldWriteValue / TryToWrite / OffsetBitBlock::WriteUInt+MaskInValue / container store (C++ integer semantics explicit) + differential correspondence through generated code",
    "level_text": "Machine-checked theorems (Coq 8.16, no axioms): for every width 1..64 and every C++ integer argument type int8_t..uint64_t, UIntView/IntView/EnumView(unsigned)::CouldWriteValue returns true exactly for the representable values and no sub-expression is undefined; a successful TryToWrite of a UInt/Int/Bcd/unsigned-enum/Flag/Float field at any bit offset of any 1..8-byte container in either byte order stores bytes from which Read() returns the written value and leaves every other bit of the container (and, via splice, every other byte of the root buffer) unchanged; a failed TryToWrite writes nothing; TryToWrite <-> CouldWriteValue /\\ IsComplete, and IsComplete <-> the container's bytes are present; write inference's inverse of +/- chains is proved correct (invert_correct) and compared with the real pass on generated read transforms. Refuted by the faithful model (findings): signed enums (F1), NullByteOrderer on a short buffer, and BcdView's non-templated argument (narrowing). Tied to /repo on every run by generated modules compiled with the working tree's embossc and g++, comparing CouldWriteValue/TryToWrite/Read/buffer dump with the model (extracted OCaml for all cases, vm_compute for a sample) and with an independent arithmetic reference, for range edges +-1, C++ type limits and random values on 0x00/0xFF/random/truncated buffers.",
    "level_note": "Trusted: Coq kernel + vm_compute; g++ 12 as the semantics of C++; harness/gen_bits.py, harness/cpp_build.py. Proved for the runtime as compiled by GCC/Clang (memcpy + bswap paths); the MemoryAccessor layer under container_store (every alignment specialisation, CharT, host endianness, builtin or portable byte swap; Bits/Accessor.v) is proved to replace exactly the kBits/8 bytes at the pointer by the container bytes (accessor_write_le_spec, accessor_write_be_spec, accessor_write_frame, aligned_writes_agree) and is compared with the real templates by a direct micro-driver every run; the EMBOSS_NO_OPTIMIZATIONS configuration is proved to perform the same UInt/Int/enum/Float writes (portable_writes_agree); BcdView (MaxBcd, ConvertToBcd) is proved for arguments of the value type. Virtual-field write-through (write_inference + template) is compared on generated +/- chains and the inverse synthesised by write_inference is proved correct over unbounded integers (invert_correct); the C++ intermediate types of the generated transform are not modelled (finding virtual-write-unchecked-argument, F8). [requires] on physical and on writable virtual fields is checked every run against a SPEC-level oracle in Python (not the Coq model, which only has could_write_requires with an abstract validator).",
}


def run(ctx):
    ctx.rule = ("accessors as in C02 (every width 1..64 at bit offsets {0,1,7,8c-w} of containers of 1..8 bytes, one kind per triple, "
                "nested bits, struct-level scalars, LE/BE/Null, optimised and portable runtime); per accessor three C++ argument "
                "types out of int8_t..uint64_t (enums: the enum type; Float: bit patterns; Flag: bool) and values {0, 1, -1, "
                "range edges +-1, argument type min/max, 2^w, random in range, random in type}; initial buffers 0x00.., 0xFF.., "
                "random, and one truncated by a byte; a case is one (accessor, buffer, argument type, value); non-trivial when "
                "the field's bytes are present")
    ctx.rule += ("; [requires]: physical UInt/Int/Bcd/unsigned-enum fields (struct level and inside bits) and alias / +- virtual fields "
                 "(own requirement and/or one on the backing field, also inside an anonymous bits and on a Bcd) with 1..3 clauses out of "
                 "< <= > >= != ==; values at and around every clause constant, their images through the transform, range edges +-1")
    ctx.rule += ("; every accessor of a 2/4/8-byte container, and a third of the others, is written a second time through views with "
                 "static alignment A in {2,4,8} placed at an address k mod A (same buffers and values)")
    ctx.assumptions = ["the static (alignment, offset) claim of the root buffer holds and the back end's <kSubAlignment, kSubOffset> bound the "
                       "field's run-time start (C05); under these aligned_writes_agree (Write{Little,Big}EndianUInt of every MemoryAccessor "
                       "specialisation store the bytes of the model's container_store and nothing else) is now a theorem",
                       "[requires] is checked against the Python SPEC only (CouldWriteValue = representable && requires && backing field's "
                       "requires of the inverse image; TryToWrite = that && bytes present): the Coq model carries the validator as an "
                       "abstract predicate (could_write_requires) and does not model the generated expression code (C01)",
                       "Float: bit pattern only (the C++ driver builds the float by memcpy from the pattern)"]
    ctx.audit()
    ctx.check_theorems("EmbossV.Bits.Properties_C03", "Bits/Properties_C03.v", expect_min=23)
    c02.run_bits(ctx, "write", "C03")
    if not getattr(ctx, "replay_path", None):
        requires_writes(ctx)
        virtual_writes(ctx)
        virtual_requires_writes(ctx)


VDRIVER = r'''
#include <cstdio>
#include <cstdint>
#include <cstring>
#include <cstdlib>
#include "%(name)s.emb.h"
static void hexout(const unsigned char *p, size_t n) { for (size_t i = 0; i < n; ++i) printf("%%02x", p[i]); }
static void fill(unsigned char *buf, const char *hex, size_t n) {
  for (size_t i = 0; i < n; ++i) { unsigned v; sscanf(hex + 2 * i, "%%2x", &v); buf[i] = static_cast<unsigned char>(v); }
}
int main() {
  unsigned char buf[7];
%(body)s
  printf("END\\n");
  return 0;
}
'''


def _enc(field, x):
    kind, off, size, lo, hi = gen_bits.PHYS[field]
    order = {"x": "little", "z": "little", "u": "big"}[field]
    return off, list((x & ((1 << (8 * size)) - 1)).to_bytes(size, order))


def virtual_writes(ctx):
    """write inference (real pass vs Bits.InvertModel.invert, in Coq) and write-through of +/- virtual fields (C++ vs SPEC)"""
    n_mod = 30 if ctx.thorough() else 6
    wd = os.path.join(ctx.bdir, "virtual")
    os.makedirs(wd, exist_ok=True)
    script = os.path.join(wd, "ir_dump.py")
    open(script, "w").write(gen_bits.IR_DUMP_SCRIPT)
    coq_cases, jobs, plans = [], [], {}
    for k in range(n_mod):
        name = "v%d" % k
        text, vs = gen_bits.virtual_module(name, ctx.rng, n=10)
        mp = os.path.join(wd, name + ".emb")
        open(mp, "w").write(text)
        rc, out = fw.sh([fw.PY, script, mp, fw.REPO], env=fw.repo_env(), timeout=600)
        line = [l for l in out.splitlines() if l.startswith("{")]
        if rc != 0 or not line:
            ctx.violation("write-inference:front-end", "front end failed on a generated virtual-field module: %s" % out[-400:],
                          dict(kind="module", module=text), found_input=False)
            continue
        d = json.loads(line[-1])
        if "errors" in d:
            ctx.violation("write-inference:front-end", "generated virtual-field module rejected: %s" % d["errors"],
                          dict(kind="module", module=text), found_input=False)
            continue
        ids = {}
        by_name = {f["name"]: f for f in d["fields"]}
        for nm, e in vs:
            f = by_name[nm]
            ctx.count("write_method:" + f["method"])
            if f["method"] == "transform":
                exp = "(Some (EField %d, %s))" % (ids.setdefault(f["destination"], len(ids)), gen_bits.coq_expr(f["body"], ids))
            elif f["method"] == "alias":
                exp = "(Some (EField %d, ELogical))" % ids.setdefault(f["destination"], len(ids))
            else:
                exp = "None"
            coq_cases.append((gen_bits.coq_expr(f["read"], ids), exp, dict(module=text, field=nm, ir=f, expr=e.text)))
            ctx.case(("inv", e.text), nontrivial=True, sample=dict(field=nm, read_transform=e.text, write_method=f["method"]))
            # SPEC: invertible +/- chains over one field are writable, everything else generated here is not
            want = "alias" if e.text == e.field else ("transform" if e.invertible else "read_only")
            if f["method"] != want:
                ctx.violation("write-inference:method", "let %s = %s: write_method %s, expected %s" % (nm, e.text, f["method"], want),
                              dict(kind="module", module=text, field=nm, write_method=f["method"], expected=want), found_input=True)
        # C++ write-through
        body, plan = [], []
        for fi, (nm, e) in enumerate(vs):
            if not e.invertible or e.a is None:
                continue
            kind, off, size, lo, hi = gen_bits.PHYS[e.field]
            xs = [lo - 1, lo, lo + 1, (lo + hi) // 2, hi - 1, hi, hi + 1]
            for i, x in enumerate(xs):
                v = e.a * x + e.b
                init = [ctx.rng.randrange(256) for _ in range(7)]
                body.append('  fill(buf, "%s", 7); { auto view = %s::MakeTopView(buf, 7); bool cw = view.%s().CouldWriteValue(%dLL); '
                            'bool tw = view.%s().TryToWrite(%dLL); printf("V f=%d i=%d cw=%%d tw=%%d y=%%lld buf=", cw, tw, '
                            'static_cast<long long>(view.%s().Read())); hexout(buf, 7); printf("\\n"); }'
                            % (gen_bits.hexs(init), name, nm, v, nm, v, fi, i, nm))
                plan.append((fi, i, nm, e, x, v, init))
        jobs.append(cpp_build.CppJob(name, text, VDRIVER % dict(name=name, body="\n".join(body))))
        plans[name] = (text, plan)
    # --- model vs real pass
    if coq_cases:
        runner = fw.CoqCases(ctx, "invert", "Require Import EmbossV.Bits.InvertModel.\nOpen Scope Z_scope.\n",
                             "invert", "invert_out_eqb", "expr", "(option (expr * expr))", shard=200)
        try:
            bad = runner.run(coq_cases)
        except fw.CoqEvalError as ex:
            bad = None
            ctx.violation("model-eval", "Coq evaluation of invert failed: %s" % str(ex)[-400:],
                          dict(kind="correspondence", correspondence="Bits.InvertModel.invert vs write_inference"), found_input=False)
        if bad is not None:
            ctx.obligation("correspondence: write_inference._invert_expression and the model agree on %d read transforms" % len(coq_cases), not bad)
            for idx, out in bad[:3]:
                obj = coq_cases[idx][2]
                ctx.violation("write-inference:correspondence", "let %s = %s: inverse differs from the model's" % (obj["field"], obj["expr"]),
                              dict(kind="module", module=obj["module"], field=obj["field"], ir=obj["ir"],
                                   correspondence="Bits.InvertModel.invert vs write_inference._invert_expression", model_outputs=out[:1500]),
                              found_input=False)
    # --- C++ write-through vs SPEC
    n_viol0 = len(ctx.violations)
    results = cpp_build.run_jobs(os.path.join(wd, "cpp"), jobs, parallel=16, timeout=1500)
    n_obs, n_bad = 0, 0
    for name, r in sorted(results.items()):
        text, plan = plans[name]
        if not r.ok:
            ctx.violation("cpp-build:" + r.stage, "virtual-field module %s: stage %s failed: %s" % (name, r.stage, r.log[-300:]),
                          dict(kind="build", module=text, stage=r.stage, log=r.log[-2000:]), found_input=False)
            continue
        obs = {}
        for tag, kv in cpp_build.parse_observations(r.lines):
            if tag == "V":
                obs[(int(kv["f"]), int(kv["i"]))] = kv
        for fi, i, nm, e, x, v, init in plan:
            o = obs.get((fi, i))
            n_obs += 1
            kind, off, size, lo, hi = gen_bits.PHYS[e.field]
            ok = lo <= x <= hi
            after = list(init)
            if ok:
                o_off, bs = _enc(e.field, x)
                after[o_off:o_off + len(bs)] = bs
            ctx.count("virtual-write:" + ("accept" if ok else "reject"))
            ctx.case(("vw", e.text, v, bytes(init)), nontrivial=True)
            msg = None
            if o is None:
                msg = "missing observation"
            elif (o["cw"] == "1") != ok:
                msg = "CouldWriteValue(%d)=%s, expected %d" % (v, o["cw"], ok)
            elif (o["tw"] == "1") != ok:
                msg = "TryToWrite(%d)=%s, expected %d" % (v, o["tw"], ok)
            elif o["buf"] != gen_bits.hexs(after):
                msg = "buffer after TryToWrite(%d) is %s, expected %s" % (v, o["buf"], gen_bits.hexs(after))
            elif ok and int(o["y"]) != v:
                msg = "reads back %s after writing %d" % (o["y"], v)
            if msg:
                n_bad += 1
                # a value outside the virtual field's inferred bounds that is nevertheless accepted: the inverse transform's
                # result was converted to the C++ type chosen from those bounds before the destination's range test
                key = "virtual-write-unchecked-argument" if (not ok and o is not None and o["cw"] == "1") else "virtual-write-through"
                ctx.violation(key, "let %s = %s, initial buffer %s: %s" % (nm, e.text, gen_bits.hexs(init), msg),
                              dict(kind="module", module=text, field=nm, value=v, buffer=gen_bits.hexs(init), observed=o), found_input=True)
    ctx.obligation("spec: %d write-through observations of +/- virtual fields agree with the arithmetic reference%s"
                   % (n_obs, " (%d contradict it, all of them listed known findings)" % n_bad if n_bad and len(ctx.violations) == n_viol0 else ""),
                   len(ctx.violations) == n_viol0)


# ----------------------------------------------------------------------------------------------
# [requires]: physical scalar fields, and writable virtual fields (alias, +/- chains) over them.
# The oracle is the Python SPEC (gen_bits.spec_write + req_holds); the Coq model has no validators.
# ----------------------------------------------------------------------------------------------

def requires_writes(ctx):
    """physical UInt/Int/Bcd/enum fields (struct level and inside bits) carrying [requires: ...]"""
    mods = gen_bits.build_requires_plan(ctx.rng, thorough=ctx.thorough())
    n_viol, n_eval = len(ctx.violations), ctx.evaluations
    cases, n_bad, failures = c02.evaluate(ctx, mods, "both", "requires", aligned=False)
    decided = 0
    for _, _, obj in cases:
        acc = obj["acc"]
        lo, hi = gen_bits.field_range(acc)
        for t, v, o in obj.get("writes", []):
            if lo <= v <= hi and not gen_bits.req_holds(acc.req, v):
                decided += 1
    ctx.count("requires:representable-value-rejected-by-requires", decided)
    ctx.extra["requires_accessors"] = sum(len(m.accessors) for m in mods)
    ctx.obligation("spec: %d observations of %d physical fields with [requires] agree with the arithmetic reference "
                   "(CouldWriteValue = representable && requires, Ok() includes requires)%s"
                   % (ctx.evaluations - n_eval, ctx.extra["requires_accessors"],
                      " (%d contradict it, all of them listed known findings)" % n_bad if n_bad and len(ctx.violations) == n_viol else ""),
                   len(ctx.violations) == n_viol and not failures)


RDRIVER = r'''
#include <cstdio>
#include <cstdint>
#include <cstring>
#include <cstdlib>
static int verif_chk = 0;
#define EMBOSS_CHECK(x) ((x) ? (void)0 : (void)(++verif_chk))
#define EMBOSS_CHECK_ABORTS false
#define EMBOSS_DCHECK(x) ((x) ? (void)0 : (void)(++verif_chk))
#define EMBOSS_DCHECK_ABORTS false
#include "%(name)s.emb.h"
static void hexout(const unsigned char *p, size_t n) { if (!n) printf("-"); for (size_t i = 0; i < n; ++i) printf("%%02x", p[i]); }
static size_t fill(unsigned char *buf, const char *hex) {
  size_t n = strlen(hex) / 2;
  for (size_t i = 0; i < n; ++i) { unsigned v; sscanf(hex + 2 * i, "%%2x", &v); buf[i] = static_cast<unsigned char>(v); }
  return n;
}
template <class V, class T> static void obs(int f, int i, V y, T v, const unsigned char *buf, size_t n) {
  verif_chk = 0;
  bool cw = y.CouldWriteValue(v);
  bool tw = y.TryToWrite(v);
  int chk = verif_chk;
  bool ok = y.Ok();
  printf("V f=%%d i=%%d cw=%%d tw=%%d ok=%%d y=", f, i, cw, tw, ok);
  if (ok) printf("%%lld", static_cast<long long>(y.Read())); else printf("-");
  printf(" chk=%%d buf=", chk); hexout(buf, n); printf("\n");
}
int main() {
  unsigned char buf[16];
  size_t n;
%(body)s
  printf("END\n");
  return 0;
}
'''


def virtual_requires_writes(ctx):
    """alias / +/- virtual fields with their own [requires], over backing fields that may carry one too"""
    n_mod = 16 if ctx.thorough() else 5
    wd = os.path.join(ctx.bdir, "virtual_requires")
    os.makedirs(wd, exist_ok=True)
    jobs, plans = [], {}
    for k in range(n_mod):
        name = "r%d" % k
        text, backing, vs = gen_bits.virtual_requires_module(name, ctx.rng, n=10)
        body, plan = [], []
        for fi, (nm, e, own) in enumerate(vs):
            acc = backing[e.field]
            lo, hi = gen_bits.field_range(acc)
            xs = [lo - 1, lo, (lo + hi) // 2, hi, hi + 1]
            for op, kf in (acc.req or ()):
                xs += [kf - 1, kf, kf + 1]
            vals = [e.a * x + e.b for x in xs]
            for op, ky in (own or ()):
                vals += [ky - 1, ky, ky + 1]
            vals = list(dict.fromkeys(vals))
            for i, v in enumerate(vals):
                full = [ctx.rng.randrange(256) for _ in range(10)]
                # BCD backing field: start from a valid pattern half of the time
                init = full if i % 5 else full[:acc.boff + acc.c - 1]      # every fifth buffer lacks the backing field's last byte
                body.append('  n = fill(buf, "%s"); obs(%d, %d, %s::MakeTopView(buf, n).%s(), %dLL, buf, n);'
                            % (gen_bits.hexs(init), fi, i, name, nm, v))
                plan.append((fi, i, nm, e, own, acc, v, init))
        jobs.append(cpp_build.CppJob(name, text, RDRIVER % dict(name=name, body="\n".join(body))))
        plans[name] = (text, plan)
    n_viol0 = len(ctx.violations)
    results = cpp_build.run_jobs(os.path.join(wd, "cpp"), jobs, parallel=16, timeout=1500)
    n_obs, n_bad, n_req = 0, 0, 0
    for name, r in sorted(results.items()):
        text, plan = plans[name]
        if not r.ok:
            ctx.violation("cpp-build:" + r.stage, "virtual-field module %s: stage %s failed: %s" % (name, r.stage, r.log[-300:]),
                          dict(kind="build", module=text, stage=r.stage, log=r.log[-2000:]), found_input=False)
            continue
        obs = {}
        for tag, kv in cpp_build.parse_observations(r.lines):
            if tag == "V":
                obs[(int(kv["f"]), int(kv["i"]))] = kv
        for fi, i, nm, e, own, acc, v, init in plan:
            o = obs.get((fi, i))
            n_obs += 1
            x = (v - e.b) * e.a                      # a = +-1: the inverse image
            lo, hi = gen_bits.field_range(acc)
            own_ok = gen_bits.req_holds(own, v)
            b_cw, b_tw, _, after = gen_bits.spec_write(acc, init, x)
            cw = own_ok and b_cw
            tw = cw and b_tw
            if not tw:
                after = list(init)
            if lo <= x <= hi and not (own_ok and gen_bits.req_holds(acc.req, x)):
                n_req += 1
            ctx.count("virtual-requires:" + ("accept" if cw else "reject"))
            ctx.case(("vrw", e.text, str(own), str(acc.req), v, bytes(init)), nontrivial=len(init) == 10,
                     sample=dict(field=nm, read_transform=e.text, requires=gen_bits.req_text(own) if own else None,
                                 backing=e.field, backing_requires=gen_bits.req_text(acc.req) if acc.req else None, value=v,
                                 buffer=gen_bits.hexs(init), cpp=o))
            msg = None
            if o is None:
                msg = "missing observation"
            elif (o["cw"] == "1") != cw:
                msg = "CouldWriteValue(%d)=%s, expected %d" % (v, o["cw"], cw)
            elif (o["tw"] == "1") != tw:
                msg = "TryToWrite(%d)=%s, expected %d" % (v, o["tw"], tw)
            elif o["buf"] != (gen_bits.hexs(after) or "-"):
                msg = "buffer after TryToWrite(%d) is %s, expected %s" % (v, o["buf"], gen_bits.hexs(after))
            elif tw and (o["ok"] != "1" or o["y"] != str(v)):
                msg = "after a successful TryToWrite(%d): Ok()=%s Read()=%s" % (v, o["ok"], o["y"])
            elif int(o["chk"]):
                msg = "%s EMBOSS_CHECK failure(s) during CouldWriteValue/TryToWrite(%d)" % (o["chk"], v)
            if msg:
                n_bad += 1
                if not (lo <= x <= hi) and o is not None and o["cw"] == "1":
                    key = "virtual-write-unchecked-argument"
                elif lo <= x <= hi and not (own_ok and gen_bits.req_holds(acc.req, x)):
                    key = "virtual-write-requires"
                else:
                    key = "virtual-write-through"
                ctx.violation(key, "let %s = %s%s over %s%s, initial buffer %s: %s" % (
                    nm, e.text, " [requires: %s]" % gen_bits.req_text(own) if own else "", e.field,
                    " [requires: %s]" % gen_bits.req_text(acc.req) if acc.req else "", gen_bits.hexs(init), msg),
                    dict(kind="module", module=text, field=nm, value=v, buffer=gen_bits.hexs(init), observed=o,
                         expected=dict(could_write=cw, try_write=tw, buffer_after=gen_bits.hexs(after))), found_input=True)
    ctx.count("virtual-requires:representable-value-rejected-by-requires", n_req)
    ctx.obligation("spec: %d write observations of alias/+- virtual fields with [requires] (own and backing) agree with the arithmetic "
                   "reference%s" % (n_obs, " (%d contradict it, all of them listed known findings)" % n_bad
                                    if n_bad and len(ctx.violations) == n_viol0 else ""),
                   len(ctx.violations) == n_viol0)
