"""C11 — the formatter preserves meaning, is idempotent, never fails (token level; partial)."""
import json
import os
import shutil
import subprocess
import sys
import threading
import time

from harness import fw
from harness import lex_tables as lt
from harness import lex_gen as lg

LEVEL = "proof"
META = {
    "technique": "Coq proof at two levels. (1) Token level (on top of the C10 tokenizer model): the preservation criterion fmt_equiv is an equivalence with a verified boolean checker, and a Gallina mirror of format_emb.sanity_check_format_result decides exactly that criterion. (2) Handler level: an executable Gallina model of format_emb.py (Lex/FmtModel.v: strings with provenance, _Row/_Block values, hand-written shared combinators _intersperse/_should_add_blank_lines/_columnize/_indent_*/_add_blank_rows_on_dedent/_render_rows_to_text/comment stripping, and a 28-construct handler DSL); the table production -> handler term is REGENERATED from format_emb.py on every run by a fail-closed Python ast translator (harness/fmt_x.py); theorems for ALL parse trees by induction over the tree with one lemma per combinator, instantiated on the regenerated table by vm_compute over the production list. Correspondence: model output = format_emboss_parse_tree character for character on every (text, indent 1..8) pair of the run (extracted OCaml, sampled against vm_compute). Never-fails: a refinement typing of handler results (Lex/FmtTyping.v: str / k-list of str / rows with at most one column / blocks with a set of header kinds, possibly non-empty / lists of row lists / inline-bits body), type inference for the DSL, symbol types inferred by iteration inside Coq, table_typed_ok by vm_compute on the regenerated table, soundness by induction over expressions and trees. asserts_ok DERIVED (Lex/FmtAsserts.v): a syntactic check ends_line on regexes (ends in `$` or `.*`) with soundness against the C10 matcher, sym_ends_line on the regenerated pattern table, induction over the line loop / tok_lines of the C10 tokenizer model, a static check asserts_guarded on the regenerated handler table (symbol in front of the asserted position ends with Documentation, asserted symbol is empty-or-starts-with-a-terminal-other-than-newline) and an induction over grammar trees; both checks by vm_compute (FmtAInstance_C11). Second configuration Config(show_line_types=True) modelled (Lex/FmtShow.v) and compared character for character. Re-tokenization piece by piece (Lex/FmtRetok.v) over the C10 tokenizer model, hypothesis pieces_fit evaluated by the extracted model on sampled outputs and the pieces compared with tokenizer.tokenize. Translation validation of every produced output as before: output tokenized by the MODEL and compared with the verified criterion; idempotence, no-exception, re-parse and agreement of the built-in self check observed directly",
    "level_text": "PARTIAL (proof of the criterion and of the self-check mirror + translation validation of each produced output). Machine-checked (Coq 8.16, no axioms): fmt_equiv (same symbols and same texts modulo surrounding white space after collapsing newline runs, leading ones entirely) is reflexive, symmetric and transitive; fmt_equivb decides it; equivalent token lists feed the parser the same symbol sequence; the model of sanity_check_format_result (as of fix 7fc177c) returns no error exactly when fmt_equiv holds (sanity_ok_iff), and its two reports mean what they say (sanity_bug_position: first non-equivalent position; sanity_count_differs: one stream equivalent to a strict prefix of the other); a line re-tokenises to a given token list iff the local longest-first conditions hold (retokenize_line_partial). Handler level, for ALL parse trees (no size bound): format_preserves_tokens / format_text_preserves_tokens / format_preserves_leaves -- whenever the formatter does not raise, its result (rows, and the rendered text as a concatenation of pieces) carries exactly the (symbol, stripped text) sequence of the tree's leaves other than Indent/Dedent/newline and white-space-only tokens, given the static check table_toks_ok, which holds for the regenerated table (inst_table_toks_ok); eval_preserves_tokens per DSL construct and combinator. NEVER FAILS: format_total / format_text_total -- for every tree built from the grammar's productions with terminal leaves (tree_gwf) that satisfies asserts_ok (the child under `assert not comment` of doc-line is the empty alternative) the formatter returns a value, a text for a module, at every indent width; asserts_ok is now DERIVED: tokenize_doc_then_newline (for ALL texts, every Documentation token of the tokenizer model's output is immediately followed by the newline token: every pattern yielding Documentation passes ends_line, inst_doc_ends_line), asserts_ok_from_token_fact (all grammar trees, given the static check asserts_guarded, inst_asserts_guarded), asserts_ok_derived, format_total_tokenized / format_text_total_tokenized (inst_format_text_total_tokenized: every tree of the grammar whose leaves are the tokens of some text is formatted at every indent width; remaining hypothesis = the parser's contract, evaluated per tree: tree_gwfb and leaves = tokens); by the static check table_typed_ok (inst_table_typed_ok on the regenerated table); each Python assert is a typing fact except that one. PARTIAL: idempotence -- columnize_idempotent (cells already at the computed widths are left alone), columnize_cells_idempotent, columnize_widths_depend_on_text_only, format_rows_fixed_point_partial (the rendered rows are a fixed point of both whole-file passes and of their composition), the single passes and rstrip; for ALL blocks and rows (no padding hypothesis) the row/column layer is a function of (row name, cell TEXTS, indent): rstrip_is_textual, columnize_line_depends_on_cell_texts, columnize_rows_depend_on_cell_texts, reformat_same_cell_texts_same_text_partial (rows with equal names, cell texts and indents render to the same text after both whole-file passes); fmt(fmt t) = fmt t itself needs the premise that the second run rebuilds the same cell texts (parser + handlers on normalised token texts) and stays validated per output. RE-TOKENIZATION, PARTIAL: format_line_retokenizes_partial / format_lines_retokenize_partial -- under the decidable per-line condition pieces_fit the line loop of the tokenizer model splits every rendered line into exactly the tokens its pieces stand for, and these are the tree's tokens; pieces_fit is evaluated per produced line (sample), not derived for all outputs; Indent/Dedent/newline tokens not covered. show_line_types_preserves_tokens for the second configuration.",
    "level_note": "Trusted: Coq kernel + vm_compute; extraction (ExtrOcamlBasic only) + 40-line OCaml driver, cross-checked on a sample inside Coq; harness/lex_tables.py; the Python parser (parser.parse_module) as the oracle for 'parseable'. harness/fmt_x.py (translator format_emb.py -> handler DSL; its output is tied by the character-for-character correspondence). Not proved: idempotence of the whole formatter (needs the parser), pieces_fit for all outputs, Indent/Dedent re-tokenization; asserts_ok is derived from the tokenizer model and the grammar shape (tree_gwf + leaves = tokens remain hypotheses: the parser's contract, C08/C09; evaluated on every parse tree of each run); IR equality after formatting follows from token equivalence only through the parser, which is the subject of C08/C09, not of this check.",
}

GEN_TABLE = "LexTable_C11"

DRIVER_ML = r"""(* C11 driver: two input lines per case (original, formatted; space-separated code points);
   prints the verified criterion's verdict and the model of sanity_check_format_result. *)
open Fmtmodel
let rec pos_of_int i = if i = 1 then XH else if i land 1 = 1 then XI (pos_of_int (i lsr 1)) else XO (pos_of_int (i lsr 1))
let n_of_int i = if i = 0 then N0 else Npos (pos_of_int i)
let rec int_of_nat = function O -> 0 | S n -> 1 + int_of_nat n
let read () =
  let line = input_line stdin in
  List.map (fun x -> n_of_int (int_of_string x)) (List.filter (fun s -> s <> "") (String.split_on_char ' ' line))
let () =
  try
    while true do
      let o = read () in
      let f = read () in
      let v = match run_fmt_check o f with
        | FvEquiv -> "equiv" | FvDiffer -> "differ"
        | FvOrigNotTokenizable -> "orig-untokenizable" | FvFmtNotTokenizable -> "fmt-untokenizable" in
      let s = match run_sanity f o with
        | SanOrigNotTokenizable -> "orig-untokenizable" | SanFmtNotTokenizable -> "fmt-untokenizable"
        | SanRes ScOk -> "ok" | SanRes (ScBug i) -> Printf.sprintf "bug %d" (int_of_nat i)
        | SanRes (ScCount (a, b)) -> Printf.sprintf "count %d %d" (int_of_nat a) (int_of_nat b) in
      print_endline (v ^ ";" ^ s)
    done
  with End_of_file -> ()
"""


def build_extracted(ctx):
    d = os.path.join(ctx.bdir, "extract")
    shutil.rmtree(d, ignore_errors=True)
    os.makedirs(d)
    with open(os.path.join(d, "FmtExtr.v"), "w") as f:
        f.write("Require Import EmbossV.Lex.Format EmbossVGen.%s.\n" % GEN_TABLE)
        f.write("Require Extraction. Require Import ExtrOcamlBasic.\n")
        f.write("Definition run_fmt_check (o f : list BinNums.N) := fmt_check code_table o f.\n")
        f.write("Definition run_sanity (f o : list BinNums.N) := sanity_check code_table f o.\n")
        f.write('Extraction "fmtmodel.ml" run_fmt_check run_sanity.\n')
    rc, out = fw.coqc(os.path.join(d, "FmtExtr.v"), timeout=600)
    if rc != 0:
        return None, out
    open(os.path.join(d, "driver.ml"), "w").write(DRIVER_ML)
    rc, out = fw.sh(["ocamlfind", "ocamlopt", "fmtmodel.mli", "fmtmodel.ml", "driver.ml", "-o", "fmtdrv"], cwd=d, timeout=600)
    if rc != 0:
        return None, out
    return os.path.join(d, "fmtdrv"), ""


def run_extracted(exe, pairs, nproc=8):
    chunks = [pairs[i::nproc] for i in range(nproc)]
    outs = [None] * nproc

    def enc(t):
        return " ".join(str(ord(c)) for c in t) + "\n"

    def work(k):
        data = "".join(enc(a) + enc(b) for a, b in chunks[k])
        p = subprocess.Popen("ulimit -s unlimited 2>/dev/null; exec '%s'" % exe, shell=True, stdin=subprocess.PIPE,
                             stdout=subprocess.PIPE, stderr=subprocess.PIPE, text=True)
        try:
            o, e = p.communicate(data, timeout=1500)
            outs[k] = (p.returncode, o, e)
        except subprocess.TimeoutExpired:
            p.kill()
            outs[k] = (124, "", "timeout")
    th = [threading.Thread(target=work, args=(k,)) for k in range(nproc)]
    for x in th:
        x.start()
    for x in th:
        x.join()
    res = [None] * len(pairs)
    for k in range(nproc):
        rc, o, e = outs[k]
        lines = o.split("\n")
        if lines and lines[-1] == "":
            lines.pop()
        n = len(chunks[k])
        if rc != 0 or len(lines) != n:
            lines = (lines + ["MODEL-DRIVER-FAILED;rc=%s %s" % (rc, e[-200:].replace("\n", " "))] * n)[:n]
        for j, l in enumerate(lines):
            res[k + j * nproc] = l
    return res


# ---------------------------------------------------------------------------
# the handler-level model (Lex/FmtModel.v + the table regenerated by harness/fmt_x.py), extracted
# ---------------------------------------------------------------------------

GEN_FMT = "FmtTable_C11"

FMT_DRIVER_ML = r"""(* C11 handler-model driver: one case per input line = indent width, then the parse tree in prefix order
   (leaf: 0 <len> sym.. <len> text..; node: 1 <production index> <number of children> children..), all as integers.
   Prints two flags (tree_gwfb, asserts_ok: the tree hypotheses of format_total) and then `ok <code points>` (the model of
   format_emboss_parse_tree) or `fail`.  An indent width of 1000 + k selects Config(indent_width=k, show_line_types=True); 2000 + k prints
   `retok <text_fits> <tokens the pieces stand for>` instead (Lex/FmtRetok.v); adding 4000 requests the two flags. *)
open Fmthandlers
let rec pos_of_int i = if i = 1 then XH else if i land 1 = 1 then XI (pos_of_int (i lsr 1)) else XO (pos_of_int (i lsr 1))
let n_of_int i = if i = 0 then N0 else Npos (pos_of_int i)
let rec int_of_pos = function XH -> 1 | XO p -> 2 * int_of_pos p | XI p -> 2 * int_of_pos p + 1
let int_of_n = function N0 -> 0 | Npos p -> int_of_pos p
let rec nat_of_int i = if i = 0 then O else S (nat_of_int (i - 1))
let toks = ref [||]
let pos = ref 0
let next () = let v = (!toks).(!pos) in incr pos; v
let read_str () =
  let n = next () in
  let rec go i = if i = 0 then [] else let c = n_of_int (next ()) in c :: go (i - 1) in
  go n
let rec read_tree () =
  let tag = next () in
  if tag = 0 then (let sy = read_str () in let tx = read_str () in Leaf (sy, tx))
  else begin
    let p = next () in
    let n = next () in
    let rec kids i = if i = 0 then [] else let c = read_tree () in c :: kids (i - 1) in
    let ks = kids n in
    Node (nat_of_int p, ks)
  end
let () =
  try
    while true do
      let line = input_line stdin in
      toks := Array.of_list (List.map int_of_string (List.filter (fun s -> s <> "") (String.split_on_char ' ' line)));
      pos := 0;
      let iw0 = next () in
      let checks = iw0 >= 4000 in
      let mode = (iw0 mod 4000) / 1000 in
      let retok = mode = 2 in
      let show = mode = 1 in
      let iw = iw0 mod 1000 in
      let t = read_tree () in
      if checks then begin
        let (g, a) = run_checks t in
        print_string (if g then "1" else "0"); print_string (if a then "1 " else "0 ")
      end;
      if retok then
        (match run_retok (nat_of_int iw) t with
         | Some (fit, toks) ->
             print_string (if fit then "retok 1" else "retok 0");
             let pr s = print_char ' '; print_string (string_of_int (List.length s));
                        List.iter (fun c -> print_char ' '; print_string (string_of_int (int_of_n c))) s in
             List.iter (fun (sy, tx) -> pr sy; pr tx) toks; print_newline ()
         | None -> print_endline "fail")
      else
      (match run_format show (nat_of_int iw) t with
       | Some s -> print_string "ok"; List.iter (fun c -> print_char ' '; print_string (string_of_int (int_of_n c))) s; print_newline ()
       | None -> print_endline "fail")
    done
  with End_of_file -> ()
"""


def build_fmt_model(d, flags=None):
    """extract format_text on the regenerated handler table and build the driver in directory d -> exe or (None, log)"""
    shutil.rmtree(d, ignore_errors=True)
    os.makedirs(d)
    with open(os.path.join(d, "FmtHExtr.v"), "w") as f:
        f.write("Require Import EmbossV.Lex.Tokenizer EmbossV.Lex.FmtModel EmbossV.Lex.FmtTyping EmbossV.Lex.FmtShow EmbossV.Lex.FmtRetok.\n")
        f.write("Require Import EmbossVGen.%s EmbossVGen.%s.\n" % (GEN_TABLE, GEN_FMT))
        f.write("Require Extraction. Require Import ExtrOcamlBasic.\n")
        f.write("Definition run_format (show : bool) (iw : nat) (t : tree) : option (list BinNums.N) :=\n"
                "  if show then format_text_show fmt_ws iw fmt_table t else format_text fmt_ws iw fmt_table t.\n")
        f.write("Definition run_checks (t : tree) : bool * bool := (tree_gwfb fmt_table t, asserts_ok fmt_table t).\n")
        f.write("Definition run_retok (iw : nat) (t : tree) : option (bool * list (list BinNums.N * list BinNums.N)) :=\n"
                "  match format fmt_ws iw fmt_table t with\n"
                "  | Some (VStr g) => Some (text_fits code_table g, text_piece_tokens g)\n  | _ => None\n  end.\n")
        f.write('Extraction "fmthandlers.ml" run_format run_checks run_retok.\n')
    rc, out = fw.sh(["coqc"] + (flags or fw.COQ_FLAGS) + [os.path.join(d, "FmtHExtr.v")], timeout=600, cwd=d)
    if rc != 0:
        return None, out
    open(os.path.join(d, "hdriver.ml"), "w").write(FMT_DRIVER_ML)
    rc, out = fw.sh(["ocamlfind", "ocamlopt", "-O3", "fmthandlers.mli", "fmthandlers.ml", "hdriver.ml", "-o", "fmthdrv"], cwd=d, timeout=600)
    if rc != 0:
        rc, out = fw.sh(["ocamlfind", "ocamlopt", "fmthandlers.mli", "fmthandlers.ml", "hdriver.ml", "-o", "fmthdrv"], cwd=d, timeout=600)
    if rc != 0:
        return None, out
    return os.path.join(d, "fmthdrv"), ""


def encode_tree(tab, tree):
    """prefix encoding of a parse tree for the driver; iterative (trees are deep).  Raises KeyError when a node's
    production has no registered handler (format_emboss_parse_tree would raise KeyError too)."""
    from compiler.util import parser_types
    out = []
    stack = [tree]
    index = tab["index"]
    while stack:
        n = stack.pop()
        if isinstance(n, parser_types.Token):
            out.append("0 %d %s %d %s" % (len(n.symbol), " ".join(str(ord(c)) for c in n.symbol),
                                          len(n.text), " ".join(str(ord(c)) for c in n.text)))
        else:
            out.append("1 %d %d" % (index[n.production], len(n.children)))
            stack.extend(reversed(n.children))
    return " ".join(out)


def coq_tree(tab, tree):
    """the same tree as a Coq term of type FmtModel.tree (small trees only: recursive)"""
    from compiler.util import parser_types
    if isinstance(tree, parser_types.Token):
        return "(Leaf %s %s)" % (lt.coq_str(tree.symbol), lt.coq_str(tree.text))
    return "(Node %d [%s])" % (tab["index"][tree.production], ";".join(coq_tree(tab, c) for c in tree.children))


def run_fmt_model(exe, tab, pairs, nproc=8, flags=None):
    """pairs = [(tree, indent width)] -> list of model outputs (str), None for a model failure, or 'DRIVER...';
    flags (a list, optional) receives per pair the two characters tree_gwfb / asserts_ok ('11' = both hold)"""
    chunks = [pairs[i::nproc] for i in range(nproc)]
    outs = [None] * nproc

    def work(k):
        data = "".join("%d %s\n" % (iw, encode_tree(tab, tree)) for tree, iw in chunks[k])
        p = subprocess.Popen("ulimit -s unlimited 2>/dev/null; exec '%s'" % exe, shell=True, stdin=subprocess.PIPE,
                             stdout=subprocess.PIPE, stderr=subprocess.PIPE, text=True)
        try:
            o, e = p.communicate(data, timeout=1500)
            outs[k] = (p.returncode, o, e)
        except subprocess.TimeoutExpired:
            p.kill()
            outs[k] = (124, "", "timeout")
    th = [threading.Thread(target=work, args=(k,)) for k in range(nproc)]
    for x in th:
        x.start()
    for x in th:
        x.join()
    res = [None] * len(pairs)
    fls = ["??"] * len(pairs)
    for k in range(nproc):
        rc, o, e = outs[k]
        lines = o.split("\n")
        if lines and lines[-1] == "":
            lines.pop()
        n = len(chunks[k])
        if rc != 0 or len(lines) != n:
            lines = (lines + ["DRIVER-FAILED rc=%s %s" % (rc, e[-200:].replace("\n", " "))] * n)[:n]
        for j, l in enumerate(lines):
            fl = "??"
            if len(l) > 3 and l[2] == " " and l[0] in "01" and l[1] in "01":
                fl, l = l[:2], l[3:]
            if l == "fail":
                v = None
            elif l.startswith("ok"):
                v = "".join(chr(int(x)) for x in l[2:].split())
            else:
                v = l
            res[k + j * nproc] = v
            fls[k + j * nproc] = fl
    if flags is not None:
        flags.extend(fls)
    return res


# ---------------------------------------------------------------------------
# implementation side
# ---------------------------------------------------------------------------

class Impl:
    def __init__(self):
        from compiler.front_end import tokenizer, parser, format_emb
        self.tokenizer, self.parser, self.format_emb = tokenizer, parser, format_emb

    def parse(self, text):
        try:
            toks, errs = self.tokenizer.tokenize(text, "f")
            if errs:
                return None
            r = self.parser.parse_module(toks)
        except Exception:  # noqa  (parser crashes are C16's subject)
            return None
        if r.error:
            return None
        return r.parse_tree

    def fmt(self, tree, k):
        return self.format_emb.format_emboss_parse_tree(tree, self.format_emb.Config(indent_width=k))

    def sanity(self, formatted, original):
        """-> 'ok' | 'bug i' | 'count a b' | 'indexerror' (pre-7fc177c) | 'orig-untokenizable' | 'fmt-untokenizable' | 'crash ...'"""
        try:
            r = self.format_emb.sanity_check_format_result(formatted, original)
        except IndexError:
            return "indexerror"
        except Exception as ex:  # noqa
            return "crash %s" % type(ex).__name__
        if not r:
            return "ok"
        m = r[0]
        if m.startswith("BUG: Symbol count differs: "):
            w = m.split()
            return "count %s %s" % (w[4], w[6])
        if m.startswith("BUG: Symbol "):
            return "bug %s" % m.split()[2]
        if m.startswith("BUG: original text is not tokenizable"):
            return "orig-untokenizable"
        if m.startswith("BUG: formatted text is not tokenizable"):
            return "fmt-untokenizable"
        return "crash unexpected message"

    def py_equiv(self, original, formatted):
        """independent Python statement of the criterion on the implementation's own tokens"""
        def toks(t):
            ts, errs = self.tokenizer.tokenize(t, "f")
            if errs:
                return None
            out = []
            for x in ts:
                if x.symbol == '"\\n"':
                    if out and out[-1][0] != '"\\n"':
                        out.append((x.symbol, ""))
                else:
                    out.append((x.symbol, x.text.strip()))
            return out
        a, b = toks(original), toks(formatted)
        if a is None or b is None:
            return False
        a = [(s, "" if s == '"\\n"' else x) for s, x in a]
        b = [(s, "" if s == '"\\n"' else x) for s, x in b]
        return a == b


def property_failure(impl, text, k):
    """The C11 property on the implementation for one parseable text and indent width -> description or None."""
    tree = impl.parse(text)
    if tree is None:
        return None
    try:
        out = impl.fmt(tree, k)
    except Exception as ex:  # noqa
        return "formatter raised %s: %s" % (type(ex).__name__, str(ex)[:200])
    if not impl.py_equiv(text, out):
        return "formatted text is not token-equivalent to the original"
    tree2 = impl.parse(out)
    if tree2 is None:
        return "formatted text does not parse"
    try:
        out2 = impl.fmt(tree2, k)
    except Exception as ex:  # noqa
        return "formatter raised on its own output %s: %s" % (type(ex).__name__, str(ex)[:200])
    if out2 != out:
        return "formatting is not idempotent"
    s = impl.sanity(out, text)
    if s != "ok":
        return "built-in self check reports %r on an equivalent result" % s
    return None


# ---------------------------------------------------------------------------
# the formatter as users run it: compiler/front_end/format.py (emboss-format)
# ---------------------------------------------------------------------------

class Driver:
    """Runs format.main in-process on real files under `d` and observes stdout, stderr, exit status and
    the file contents afterwards."""

    def __init__(self, d):
        from compiler.front_end import format as fmt_driver
        self.m, self.d, self.n = fmt_driver, d, 0
        shutil.rmtree(d, ignore_errors=True)
        os.makedirs(d)

    def write(self, text):
        self.n += 1
        p = os.path.join(self.d, "f%05d.emb" % self.n)
        with open(p, "w", encoding="utf-8", newline="") as f:
            f.write(text)
        return p

    @staticmethod
    def read(p):
        with open(p, encoding="utf-8", newline="") as f:
            return f.read()

    def run(self, args):
        import contextlib
        import io
        out = io.StringIO()
        errp = os.path.join(self.d, "stderr.txt")       # a real file: the driver asks stderr for its fileno()
        with open(errp, "w", encoding="utf-8") as err:
            try:
                with contextlib.redirect_stdout(out), contextlib.redirect_stderr(err):
                    rc = self.m.main(["emboss-format"] + [str(a) for a in args])
            except SystemExit as ex:
                rc = "SystemExit(%s)" % ex.code
            except Exception as ex:  # noqa
                rc = "raised %s: %s" % (type(ex).__name__, str(ex)[:150])
        return rc, out.getvalue(), open(errp, encoding="utf-8").read()


def driver_case(drv, impl, text, k, mode):
    """One use of the command line on a file holding `text`.  -> (result text or None, failure or None).
    The result is compared with the ORIGINAL text: independent Python criterion here, verified criterion
    on model tokens later; and with what the library call returns for the same text."""
    tree = impl.parse(text)
    if tree is None:
        return None, None
    try:
        api = impl.fmt(tree, k)
    except Exception:  # noqa  (reported by the library-level part)
        return None, None
    p = drv.write(text)
    if mode == "stdout":
        rc, out, err = drv.run(["--no-edit-in-place", "--indent", k, p])
        res, after = out, drv.read(p)
        if after != text:
            return res, "--no-edit-in-place modified the input file"
    elif mode in ("inplace", "inplace-nocheck"):
        rc, out, err = drv.run((["--no-check-result"] if mode == "inplace-nocheck" else []) + ["--indent", k, p])
        res = drv.read(p)
        if out:
            return res, "in-place run wrote to stdout"
    elif mode == "default-indent":
        rc, out, err = drv.run(["--no-edit-in-place", p])
        res = out
        api = impl.fmt(tree, 2)
    else:
        raise ValueError(mode)
    if rc != 0:
        return res, "exit status %r (stderr %r)" % (rc, err[:200])
    if err.strip():
        return res, "succeeded but wrote to stderr: %r" % err[:200]
    if not impl.py_equiv(text, res):
        return res, "command-line result is not token-equivalent to the original file"
    if res != api:
        return res, "command-line result differs from format_emboss_parse_tree on the same text"
    return res, None


def driver_failure(drv, impl, text, k, mode):
    return driver_case(drv, impl, text, k, mode)[1]


# ---------------------------------------------------------------------------
# known defect mechanisms: a failure is attributed to one only if neutralising exactly that
# construct in the input makes the property hold again; everything else keeps a generic key
# ---------------------------------------------------------------------------

KEY_MINUS = "formatter:binary-minus-then-unary-minus-rendered-as-double-dash"
KEY_DOCBLANK = "formatter:inline-doc-trailing-blanks-widen-comment-column"
KEY_SELFCHECK = "formatter-selfcheck:compares-only-a-prefix"


def neutralise_minus(impl, text):
    """turn the unary '-' of every adjacent pair of '-' tokens into a unary '+' (`a - -1` -> `a - +1`)"""
    toks, errs = impl.tokenizer.tokenize(text, "f")
    if errs:
        return text
    lines = text.splitlines(True)
    prev = None
    edits = []
    for t in toks:
        if t.symbol in ("Indent", "Dedent"):
            continue
        if prev is not None and prev.symbol == '"-"' and t.symbol == '"-"' and prev.source_location.start.line == t.source_location.start.line:
            edits.append((t.source_location.start.line, t.source_location.start.column))
            prev = None          # the replaced token is now a '+'
            continue
        prev = t
    for ln, col in edits:
        l = lines[ln - 1]
        lines[ln - 1] = l[:col - 1] + "+" + l[col:]
    return "".join(lines)


def neutralise_blanks(text):
    """remove trailing blanks of every line (inline documentation / comments keep their words)"""
    nl = "\r\n" if "\r\n" in text else "\n"
    return nl.join(l.rstrip() for l in text.split(nl))


def attribute(impl, text, k):
    """-> (set of known mechanism keys that explain the failure, residual failure message or None)"""
    keys = set()
    both = neutralise_blanks(neutralise_minus(impl, text))
    residual = property_failure(impl, both, k) if impl.parse(both) is not None else "neutralised text does not parse"
    if residual is not None:
        return keys, residual
    if property_failure(impl, neutralise_blanks(text), k) is not None:
        keys.add(KEY_MINUS)
    if property_failure(impl, neutralise_minus(impl, text), k) is not None:
        keys.add(KEY_DOCBLANK)
    if not keys:      # each neutralisation alone cures it: both constructs were needed; name both
        keys = {KEY_MINUS, KEY_DOCBLANK}
    return keys, None


def classify(msg):
    for needle, key in (("raised on its own", "formatter-raises"), ("raised", "formatter-raises"), ("not token-equivalent", "formatter-changes-tokens"),
                        ("does not parse", "formatter-output-unparseable"), ("idempotent", "formatter-not-idempotent"),
                        ("self check", "formatter-selfcheck-disagrees")):
        if needle in msg:
            return key
    return "formatter-other"


def shrink_lines(text, fails, seconds=15):
    t0 = time.time()
    cur = text
    changed = True
    while changed and time.time() - t0 < seconds:
        changed = False
        lines = cur.split("\n")
        for width in (max(1, len(lines) // 4), 1):
            for i in range(0, len(lines), width):
                cand = "\n".join(lines[:i] + lines[i + width:])
                if cand != cur and fails(cand):
                    cur, changed = cand, True
                    break
                if time.time() - t0 > seconds:
                    break
            if changed:
                break
    return cur


# ---------------------------------------------------------------------------
# parseable inputs
# ---------------------------------------------------------------------------

class Mut:
    def __init__(self, rng, impl):
        self.r, self.impl = rng, impl

    def respace(self, text):
        r = self.r
        out = []
        for line in text.split("\n"):
            toks, errs = self.impl.tokenizer.tokenize(line.lstrip(), "f")
            if errs or not toks:
                out.append(line)
                continue
            lex = [t for t in toks if t.symbol not in ("Indent", "Dedent", '"\\n"')]
            body = line.lstrip()
            lead = line[:len(line) - len(body)]
            parts = [lead]
            col = 1
            for t in lex:
                a, b = t.source_location.start.column, t.source_location.end.column
                gap = body[col - 1:a - 1]
                if gap:
                    gap = r.choice([" ", " ", "  ", "   ", "\t", " \t", gap])
                parts.append(gap)
                parts.append(t.text)
                col = b
            parts.append(r.choice(["", "", "", " ", "  ", "\t"]))
            out.append("".join(parts))
        return "\n".join(out)

    def reindent(self, text):
        r = self.r
        unit = r.choice([" ", "  ", "   ", "    ", "     ", "        ", "\t", " \t"])
        stack = [""]
        out = []
        for line in text.split("\n"):
            body = line.lstrip()
            lw = line[:len(line) - len(body)]
            if body == "" or body.startswith("#"):
                out.append((unit * r.randint(0, len(stack))) + body if r.random() < 0.5 else line)
                continue
            if lw == stack[-1]:
                pass
            elif lw.startswith(stack[-1]):
                stack.append(lw)
            else:
                while len(stack) > 1 and stack[-1] != lw:
                    stack.pop()
            out.append(unit * (len(stack) - 1) + body)
        return "\n".join(out)

    def blank_lines(self, text):
        r = self.r
        lines = text.split("\n")
        out = []
        for l in lines:
            if l.strip() == "" and r.random() < 0.4:
                continue
            out.append(l)
            if r.random() < 0.15:
                out.extend([r.choice(["", "", "  ", "\t"])] * r.randint(1, 3))
        return "\n".join(out)

    def comments(self, text):
        r = self.r
        out = []
        for l in text.split("\n"):
            if r.random() < 0.12:
                out.append(r.choice(["", " ", "  ", "      "]) + r.choice(["#", "# c", "#c", "#  spaced  ", "# -- not doc", "#\t"]))
            body = l.strip()
            if body and not body.startswith("#") and "--" not in body and '"' not in body and r.random() < 0.15:
                l = l.rstrip() + r.choice(["  # t", " #t", "\t# tab", "  #"])
            out.append(l)
        return "\n".join(out)

    def splice(self, text, other):
        """move a random block of lines with equal indentation from `other` into `text` at a place with that indentation"""
        r = self.r
        a, b = text.split("\n"), other.split("\n")

        def ind(l):
            return len(l) - len(l.lstrip())
        cand = [i for i, l in enumerate(b) if l.strip() and not l.strip().startswith("#")]
        if not cand or not a:
            return text
        i = r.choice(cand)
        j = i + 1
        while j < len(b) and (not b[j].strip() or ind(b[j]) > ind(b[i])):
            j += 1
        block = b[i:j]
        places = [k for k, l in enumerate(a) if l.strip() and ind(l) == ind(b[i])]
        if not places:
            return text
        k = r.choice(places)
        return "\n".join(a[:k] + block + a[k:])

    def drop_lines(self, text):
        r = self.r
        lines = text.split("\n")
        if len(lines) < 3:
            return text
        i = r.randrange(len(lines))
        j = min(len(lines), i + r.randint(1, 6))
        return "\n".join(lines[:i] + lines[j:])

    def mutate(self, text, pool):
        r = self.r
        for _ in range(r.choice([1, 1, 2, 3])):
            k = r.random()
            if k < 0.25:
                text = self.respace(text)
            elif k < 0.45:
                text = self.reindent(text)
            elif k < 0.6:
                text = self.blank_lines(text)
            elif k < 0.75:
                text = self.comments(text)
            elif k < 0.9:
                text = self.splice(text, r.choice(pool)[1])
            else:
                text = self.drop_lines(text)
        if r.random() < 0.1:
            text = text.rstrip("\n")
        if r.random() < 0.1:
            text = text.replace("\n", "\r\n")
        return text


INST_H = "FmtHInstance_C11"


def handler_model_part(ctx, impl, cases):
    """The handler-level model: regenerate the handler table from format_emb.py, check the instance theorems on
    it, and compare the model's output with format_emboss_parse_tree character for character on every
    (text, indent) pair of this run."""
    from harness import fmt_x
    try:
        tab = fmt_x.load(fw.REPO)
    except fmt_x.Unsupported as ex:
        ctx.obligation("handler table regenerated from format_emb.py (harness/fmt_x.py)", False)
        ctx.violation("fmt-handler-translator", "format_emb.py contains a handler shape the translator does not understand: %s" % ex,
                      dict(kind="tie", translator="harness/fmt_x.py", error=str(ex),
                           theorems=["format_preserves_tokens", "format_total"]), found_input=False)
        return
    ctx.extra["handler_table"] = {"productions": len(tab["productions"]), "handler_functions": len(tab["functions"])}
    fv = os.path.join(fw.GEN, GEN_FMT + ".v")
    fmt_x.write_table_v(fv, tab, GEN_TABLE)
    rc, out = fw.coqc(fv, timeout=600)
    ctx.obligation("handler table regenerated from format_emb.py (%d productions, %d handler functions) and compiled"
                   % (len(tab["productions"]), len(tab["functions"])), rc == 0)
    if rc != 0:
        ctx.violation("fmt-handler-translator", "generated handler table does not compile", dict(kind="tie", log=out[-3000:]), found_input=False)
        return
    # ---- instance theorems on the regenerated table ----
    inst = os.path.join(fw.GEN, INST_H + ".v")
    ex_tree = real_expression_subtree(impl, tab)
    with open(inst, "w") as f:
        asserting = [lhs for lhs, rhs, fname, term in tab["productions"] if "'EAssert'" in repr(term)]
        ctx.extra["handlers_with_assert"] = asserting
        f.write(INSTANCE_V % dict(tab=GEN_FMT, module=lt.coq_str("module"),
                                  asserting="[" + ";".join(lt.coq_str(a) for a in asserting) + "]"))
        if ex_tree is not None:
            f.write(INSTANCE_EX_V % dict(tree=coq_tree(tab, ex_tree)))
        mod_text = "struct Foo:\n  -- doc\n  0 [+1]  UInt  x  # c\n  if x == 0:\n    1 [+x-1]  UInt:8[]  ys\n"
        mod_tree = impl.parse(mod_text)
        if mod_tree is not None:
            f.write(INSTANCE_MOD_V % dict(tree=coq_tree(tab, mod_tree), lex=GEN_TABLE,
                                          out=lt.coq_str(impl.fmt(mod_tree, 3))))
    rc, out = fw.coqc(inst, timeout=900)
    names = fw.theorem_names(inst)
    if rc != 0:
        for n_ in names:
            ctx.obligation("instance theorem " + n_, False)
        ctx.violation("proof-broken:" + INST_H, "the instance theorems on the regenerated handler table do not check "
                      "(a handler no longer uses every argument's tokens exactly once and in order, or may fail on a grammar tree); "
                      "the translation validation of this run found no input on which the property fails",
                      dict(kind="proof", file=inst, log=out[-3000:], theorems=names), found_input=False)
    else:
        res = fw.collect_assumptions(ctx, "EmbossVGen." + INST_H, inst, names)
        for n_ in names:
            axs = (res or {}).get(n_, ["<unavailable>"])
            ctx.obligation("instance theorem " + n_, not axs, axs)
        prob = fw.audit_file(inst) + fw.audit_file(fv)
        if prob:
            ctx.violation("audit", "forbidden vernacular in generated files", dict(kind="audit", problems=prob), found_input=False)
    # ---- correspondence: model output = format_emboss_parse_tree, character for character ----
    exe, log = build_fmt_model(os.path.join(ctx.bdir, "extract_h"))
    ctx.obligation("handler model extracted and driver built", exe is not None)
    if exe is None:
        ctx.violation("harness-extraction", "extraction / OCaml build of the handler model failed", dict(kind="harness", log=log[-3000:]), found_input=False)
        return
    fcs = [c for c in cases if c["kind"] == "format"]
    trees = {}
    pairs = []
    for c in fcs:
        first = c["text"] not in trees
        if first:
            trees[c["text"]] = impl.parse(c["text"])
        pairs.append((trees[c["text"]], c["k"] + (4000 if first else 0)))      # flags once per distinct tree
    flags = []
    outs = run_fmt_model(exe, tab, pairs, flags=flags)
    bad = []
    for c, o in zip(fcs, outs):
        ok = (o == c["out"])
        ctx.count("handler-model:" + ("equal" if ok else "model-fails" if o is None else "differs"))
        ctx.case(("handler-model", c["text"], c["k"]), nontrivial=c["out"] != c["text"],
                 sample={"shape": c["shape"], "indent": c["k"], "text": c["text"][:80], "model=python": ok})
        if not ok:
            bad.append((c, o))
    ctx.obligation("correspondence: handler model = format_emboss_parse_tree CHARACTER FOR CHARACTER on %d (text, indent) pairs "
                   "(%d distinct texts, indent 1..8)" % (len(fcs), len(trees)), not bad)
    if bad:
        c, o = min(bad, key=lambda b: len(b[0]["text"]))
        ctx.violation("formatter-handler-model", "the handler model and format_emboss_parse_tree disagree for indent %d on %r: model %r, python %r"
                      % (c["k"], c["text"][:120], (o or "<model fails>")[:120], c["out"][:120]),
                      dict(kind="text", text=c["text"], indent=c["k"], model=o, python=c["out"],
                           correspondence="Lex.FmtModel.format_text on the regenerated table vs format_emb.format_emboss_parse_tree",
                           theorems=["format_preserves_tokens", "format_total"]), found_input=False)
    # ---- the tree hypotheses of format_total on the parse trees the real front end produced ----
    hyp_bad = []
    seen_t = set()
    for c, fl in zip(fcs, flags):
        if c["text"] in seen_t:
            continue
        seen_t.add(c["text"])
        ctx.count("format_total-hypotheses:" + {"11": "tree_gwfb and asserts_ok hold", "01": "tree_gwfb fails", "10": "asserts_ok fails",
                                                "00": "both fail"}.get(fl, "not evaluated"))
        if fl != "11":
            hyp_bad.append((c, fl))
    ctx.obligation("hypotheses of format_total (tree_gwfb: grammar shape + terminal leaves; asserts_ok: `assert not comment` positions hold "
                   "the empty alternative) evaluated by the extracted model: hold on all %d distinct parse trees produced by "
                   "tokenizer.tokenize + parser.parse_module" % len(seen_t), not hyp_bad)
    if hyp_bad:
        c, fl = min(hyp_bad, key=lambda b: len(b[0]["text"]))
        ctx.violation("formatter-total-hypothesis", "a parse tree of the real parser violates the tree hypothesis of format_total (flags gwf/asserts = %s) on %r"
                      % (fl, c["text"][:160]), dict(kind="text", text=c["text"], indent=c["k"], flags=fl, theorems=["format_total"]), found_input=False)
    # the tokenizer fact behind asserts_ok, on the real tokenizer: no Comment token follows a Documentation token on its line
    n_doc, doc_bad = 0, None
    for text in trees:
        toks, errs = impl.tokenizer.tokenize(text, "f")
        for a, b in zip(toks, toks[1:]):
            if a.symbol == "Documentation":
                n_doc += 1
                if b.symbol != '"\\n"':
                    doc_bad = doc_bad or (text, b.symbol)
    ctx.extra["documentation_tokens_followed_by_newline"] = n_doc
    ctx.obligation("tokenizer fact behind asserts_ok: each of the %d Documentation tokens of this run is followed by the newline token "
                   "(never by a Comment)" % n_doc, doc_bad is None)
    if doc_bad is not None:
        ctx.violation("formatter-total-hypothesis", "tokenizer.tokenize produced %s right after a Documentation token in %r" % (doc_bad[1], doc_bad[0][:160]),
                      dict(kind="text", text=doc_bad[0], theorems=["format_total"]), found_input=False)
    # ---- asserts_ok derived from the tokenizer model (Lex/FmtAsserts.v) ----
    t_ad = time.time()
    asserts_derived_part(ctx, impl, tab, trees)
    ctx.extra["seconds_asserts_derived_part"] = round(time.time() - t_ad, 1)
    # ---- the second configuration: Config(indent_width=k, show_line_types=True) ----
    spairs, sexp = [], []
    show_texts = list(trees.items())
    if not ctx.thorough() and len(show_texts) > 450:
        show_texts = ctx.rng.sample(show_texts, 450)
    for text, tree in show_texts:
        for k in ctx.rng.sample(range(1, 9), 3 if ctx.thorough() else 1):
            try:
                sexp.append(impl.format_emb.format_emboss_parse_tree(tree, impl.format_emb.Config(indent_width=k, show_line_types=True)))
            except Exception as ex:  # noqa
                sexp.append("RAISED %s" % type(ex).__name__)
            spairs.append((tree, 1000 + k, text))
    souts = run_fmt_model(exe, tab, [(t_, k_) for t_, k_, _ in spairs])
    sbad = [(sp, o, e) for sp, o, e in zip(spairs, souts, sexp) if o != e]
    for sp, o, e in zip(spairs, souts, sexp):
        ctx.count("handler-model-show_line_types:" + ("equal" if o == e else "differs"))
        ctx.case(("handler-model-show", sp[2], sp[1]), nontrivial=True, sample={"indent": sp[1] - 1000, "text": sp[2][:80], "model=python": o == e})
    ctx.obligation("correspondence: Lex.FmtShow.format_text_show = format_emboss_parse_tree(tree, Config(k, show_line_types=True)) "
                   "character for character on %d (text, indent) pairs" % len(spairs), not sbad)
    if sbad:
        sp, o, e = min(sbad, key=lambda b: len(b[0][2]))
        ctx.violation("formatter-handler-model", "the show_line_types model and format_emboss_parse_tree disagree for indent %d on %r: model %r, python %r"
                      % (sp[1] - 1000, sp[2][:120], (o or "<model fails>")[:120], e[:120]),
                      dict(kind="text", text=sp[2], indent=sp[1] - 1000, show_line_types=True, model=o, python=e,
                           correspondence="Lex.FmtShow.format_text_show vs format_emb.format_emboss_parse_tree with Config(show_line_types=True)"), found_input=False)
    # ---- re-tokenization, piece by piece (format_line_retokenizes_partial / format_lines_retokenize_partial) ----
    cand = [c for c in fcs if len(c["text"]) < 4000]
    rs = ctx.rng.sample(cand, min(len(cand), 1200 if ctx.thorough() else 160))
    routs = run_fmt_model(exe, tab, [(trees[c["text"]], 2000 + c["k"]) for c in rs])
    rbad = []
    for c, o in zip(rs, routs):
        verdict = "driver-failed"
        if isinstance(o, str) and o.startswith("retok "):
            nums = [int(x) for x in o.split()[1:]]
            fit, pos, mtoks = nums[0], 1, []
            while pos < len(nums):
                n1 = nums[pos]
                sy = "".join(chr(x) for x in nums[pos + 1:pos + 1 + n1])
                pos += 1 + n1
                n2 = nums[pos]
                tx = "".join(chr(x) for x in nums[pos + 1:pos + 1 + n2])
                pos += 1 + n2
                mtoks.append((sy, tx))
            rtoks, errs = impl.tokenizer.tokenize(c["out"], "f")
            real = [(t_.symbol, t_.text) for t_ in rtoks if t_.symbol not in ("Indent", "Dedent", '"\\n"')]
            verdict = "fits and pieces = real tokens" if (fit == 1 and not errs and mtoks == real) else \
                      "pieces_fit fails" if fit != 1 else "pieces differ from tokenizer.tokenize"
        ctx.count("retokenize-pieces:" + verdict)
        ctx.case(("retok", c["text"], c["k"]), nontrivial=True, sample={"indent": c["k"], "text": c["text"][:80], "verdict": verdict})
        if verdict != "fits and pieces = real tokens":
            rbad.append((c, verdict))
    ctx.obligation("re-tokenization piece by piece: on %d sampled (text, indent) pairs every line of the model's result passes pieces_fit "
                   "(hypothesis of format_lines_retokenize_partial, extracted model on the regenerated pattern table) and the tokens the pieces "
                   "stand for are exactly the lexical tokens tokenizer.tokenize finds in the real formatter's output" % len(rs), not rbad)
    if rbad:
        c, verdict = min(rbad, key=lambda b: len(b[0]["text"]))
        why = property_failure(impl, c["text"], c["k"])
        if why is None:
            ctx.violation("formatter-retokenize-model", "re-tokenization of the model's pieces: %s for indent %d on %r (the property holds on the implementation)"
                          % (verdict, c["k"], c["text"][:160]),
                          dict(kind="text", text=c["text"], indent=c["k"], verdict=verdict, theorems=["format_lines_retokenize_partial"]), found_input=False)
        # otherwise the translation validation below reports the failing input with its mechanism
    # a sample inside Coq (extraction is a speed-up, not a premise)
    small = [(c, trees[c["text"]]) for c in fcs if len(c["text"]) < 700]
    sample = ctx.rng.sample(small, min(len(small), 60 if ctx.thorough() else 24))
    header = ("Require Import EmbossV.Lex.Regex EmbossV.Lex.FmtModel EmbossV.Lex.FmtExec.\nRequire Import EmbossVGen.%s.\n" % GEN_FMT)
    cc = [("(%d%%nat, %s%%N)" % (c["k"], coq_tree(tab, t)), "(Some %s%%N)" % lt.coq_str(c["out"]), c) for c, t in sample]
    badc = fw.CoqCases(ctx, "fmth", header, "run_format_case fmt_ws fmt_table", "ostr_eqb", "(nat * tree)", "(option str)",
                       shard=max(3, len(cc) // 8 + 1), timeout=1500).run(cc)
    ctx.obligation("handler model inside Coq (vm_compute) = format_emboss_parse_tree on %d sampled (text, indent) pairs" % len(cc), not badc)
    if badc:
        c = cc[badc[0][0]][2]
        ctx.violation("formatter-handler-model", "vm_compute of the handler model differs from format_emboss_parse_tree for indent %d on %r"
                      % (c["k"], c["text"][:120]),
                      dict(kind="text", text=c["text"], indent=c["k"], model_outputs=badc[0][1][:2000],
                           correspondence="Lex.FmtModel.format_text (vm_compute) vs format_emb.format_emboss_parse_tree"), found_input=False)


def real_expression_subtree(impl, tab):
    """the largest `expression` subtree with at most 60 nodes of testdata/condition.emb (or of any corpus file)"""
    from compiler.util import parser_types
    best = None
    for name, text in lg.corpus_files(fw.REPO):
        tree = impl.parse(text)
        if tree is None:
            continue
        stack = [tree]
        while stack:
            n = stack.pop()
            if isinstance(n, parser_types.Token):
                continue
            stack.extend(n.children)
            if n.production.lhs == "expression":
                size, st2 = 0, [n]
                while st2:
                    m = st2.pop()
                    size += 1
                    if not isinstance(m, parser_types.Token):
                        st2.extend(m.children)
                if size <= 60 and (best is None or size > best[0]):
                    best = (size, n)
        if best is not None and best[0] >= 40:
            break
    return best[1] if best else None


INSTANCE_EX_V = """
(* the string fragment: a real `expression` subtree of the corpus is in it, hence cannot make the formatter fail *)
Definition real_expression : tree := %(tree)s%%N.
Theorem inst_real_expression_in_string_fragment : str_tree fmt_table real_expression = true.
Proof. vm_compute. reflexivity. Qed.
Theorem inst_real_expression_total : forall iw, exists g, format fmt_ws iw fmt_table real_expression = Some (VStr g).
Proof. exact (fun iw => format_total_strings_partial fmt_ws iw fmt_table real_expression inst_real_expression_in_string_fragment). Qed.
Theorem inst_string_fragment_size : 150 <= length (filter str_handler fmt_table).
Proof. apply PeanoNat.Nat.leb_le. vm_compute. reflexivity. Qed.
"""


INSTANCE_MOD_V = """
(* a real module (parsed by the real front end): it satisfies the tree hypotheses of format_total, and every line of
   its formatted text (indent 3) satisfies the hypothesis of format_lines_retokenize_partial on the real pattern table *)
Require Import EmbossV.Lex.Tokenizer EmbossV.Lex.FmtRetok EmbossVGen.%(lex)s.
Definition real_module : tree := %(tree)s%%N.
Theorem inst_real_module_hypotheses : tree_gwfb fmt_table real_module = true /\\ asserts_ok fmt_table real_module = true.
Proof. split; vm_compute; reflexivity. Qed.
Theorem inst_real_module_retokenizes :
  match format fmt_ws 3 fmt_table real_module with
  | Some (VStr g) => andb (text_fits code_table g) (seqb (flat g) %(out)s%%N)
  | _ => false
  end = true.
Proof. vm_compute. reflexivity. Qed.
"""


INSTANCE_V = """(* GENERATED by harness/props/c11.py: the handler-level theorems on the table regenerated from format_emb.py *)
From Coq Require Import NArith List.
Import ListNotations.
Require Import EmbossV.Lex.Regex EmbossV.Lex.FmtModel EmbossV.Lex.FmtTyping EmbossV.Lex.Properties_C11.
Require Import EmbossVGen.%(tab)s.

(* every handler uses the tokens of each of its arguments exactly once and in order, except Indent / Dedent / newline *)
Theorem inst_table_toks_ok : table_toks_ok fmt_table = true.
Proof. vm_compute. reflexivity. Qed.

Theorem inst_droppable_terminal : droppable_terminal fmt_table = true.
Proof. vm_compute. reflexivity. Qed.

(* format_emb's handlers preserve the token sequence of EVERY parse tree on which they do not raise *)
Theorem inst_format_preserves_tokens : forall iw t v,
  format fmt_ws iw fmt_table t = Some v -> vtoks fmt_ws v = tree_toks fmt_ws fmt_table t.
Proof. exact (fun iw => format_preserves_tokens fmt_ws iw fmt_table inst_table_toks_ok). Qed.

Theorem inst_format_preserves_leaves : forall iw t v,
  tree_wf fmt_table t -> (forall s, root_sym fmt_table t = Some s -> droppable s = false) ->
  format fmt_ws iw fmt_table t = Some v -> vtoks fmt_ws v = leaf_toks fmt_ws t.
Proof. exact (fun iw => format_preserves_leaves fmt_ws iw fmt_table inst_table_toks_ok inst_droppable_terminal). Qed.

(* NEVER FAILS.  The type of every grammar symbol, inferred from the regenerated handlers ... *)
Definition fmt_sig : sigt := Eval vm_compute in infer fmt_table.
Theorem inst_infer : infer fmt_table = fmt_sig.
Proof. vm_compute. reflexivity. Qed.
(* ... passes the check: every handler maps arguments of the types of its right-hand side to the type of its left-hand side *)
Theorem inst_table_typed_ok : table_typed_ok fmt_table = true.
Proof. unfold table_typed_ok. rewrite inst_infer. vm_compute. reflexivity. Qed.
Theorem inst_module_is_str : sym_ty fmt_table (infer fmt_table) %(module)s%%N = Some TStr.
Proof. rewrite inst_infer. vm_compute. reflexivity. Qed.
(* the handlers that contain an assert statement (the tree hypothesis asserts_ok speaks about these only) *)
Theorem inst_asserting_handlers : map hlhs (asserting_handlers fmt_table) = %(asserting)s%%N.
Proof. vm_compute. reflexivity. Qed.

Theorem inst_format_total : forall iw t, tree_gwf fmt_table t -> asserts_ok fmt_table t = true ->
  exists v, format fmt_ws iw fmt_table t = Some v.
Proof. exact (fun iw => format_total fmt_ws iw fmt_table inst_table_typed_ok). Qed.

(* format_emboss_parse_tree returns a text for EVERY parse tree of a module, for every indent width *)
Theorem inst_format_text_total : forall iw t, tree_gwf fmt_table t -> asserts_ok fmt_table t = true ->
  root_sym fmt_table t = Some %(module)s%%N -> exists txt, format_text fmt_ws iw fmt_table t = Some txt.
Proof.
  exact (fun iw t Hw Ha Hr => format_text_total fmt_ws iw fmt_table inst_table_typed_ok t _ Hw Ha Hr inst_module_is_str).
Qed.
"""


INST_A = "FmtAInstance_C11"

INSTANCE_A_V = """(* GENERATED by harness/props/c11.py: the tree hypothesis asserts_ok of format_total DERIVED on the regenerated tables
   (pattern table of tokenizer.py, handler table of format_emb.py) *)
From Coq Require Import NArith List.
Import ListNotations.
Require Import EmbossV.Lex.Regex EmbossV.Lex.Tokenizer EmbossV.Lex.Spec EmbossV.Lex.FmtModel EmbossV.Lex.FmtTyping.
Require Import EmbossV.Lex.FmtAsserts EmbossV.Lex.Properties_C11.
Require Import EmbossVGen.%(lex)s EmbossVGen.%(tab)s EmbossVGen.%(insth)s.

Definition doc_sym : str := %(doc)s%%N.

(* every pattern of tokenizer.py that yields Documentation consumes the rest of its line *)
Theorem inst_doc_ends_line : sym_ends_line code_table doc_sym = true /\\ reserved doc_sym = false.
Proof. split; vm_compute; reflexivity. Qed.

(* every assert of a handler is `assert not arg_i` behind a symbol that ends with Documentation, on a symbol that is empty
   or starts with a terminal other than the newline *)
Theorem inst_asserts_guarded : asserts_guarded fmt_table doc_sym newline_sym = true.
Proof. vm_compute. reflexivity. Qed.

(* ALL texts: a Documentation token is immediately followed by the newline token (never by a Comment) *)
Theorem inst_tokenize_doc_then_newline : forall s ts, tokenize code_table s = Toks ts ->
  followed_strict doc_sym newline_sym (map sym ts) = true.
Proof. exact (fun s ts => tokenize_doc_then_newline code_table doc_sym s ts (proj1 inst_doc_ends_line) (proj2 inst_doc_ends_line)). Qed.

(* ALL parse trees over tokenizer output: `assert not comment` cannot fire *)
Theorem inst_asserts_ok_derived : forall s ts t, tokenize code_table s = Toks ts ->
  tree_gwf fmt_table t -> tree_syms t = map sym ts -> asserts_ok fmt_table t = true.
Proof.
  exact (fun s ts t => asserts_ok_derived code_table fmt_table doc_sym s ts t
           (proj1 inst_doc_ends_line) (proj2 inst_doc_ends_line) inst_asserts_guarded).
Qed.

(* format_emboss_parse_tree NEVER FAILS on a parse tree of a module, for every text and every indent width; the only
   hypothesis left is the parser's contract: t is a tree of the grammar whose leaves are the tokens *)
Theorem inst_format_text_total_tokenized : forall iw s ts t, tokenize code_table s = Toks ts ->
  tree_gwf fmt_table t -> tree_syms t = map sym ts -> root_sym fmt_table t = Some %(module)s%%N ->
  exists txt, format_text fmt_ws iw fmt_table t = Some txt.
Proof.
  exact (fun iw s ts t Ht Hw Hy Hr =>
           format_text_total_tokenized fmt_ws iw code_table fmt_table doc_sym inst_table_typed_ok inst_asserts_guarded
             (proj1 inst_doc_ends_line) (proj2 inst_doc_ends_line) s ts t _ Ht Hw Hy Hr inst_module_is_str).
Qed.
"""

INSTANCE_A_MOD_V = """
(* a real module: its parse tree (real parser) is a tree of the grammar whose leaves are the MODEL's tokens of its text,
   so the derived theorem applies to it (the hypotheses are satisfiable on the real tables) *)
Definition real_text : str := %(text)s%%N.
Definition real_tree : tree := %(tree)s%%N.
Theorem inst_real_tree_is_parse_tree :
  tree_gwfb fmt_table real_tree = true /\\ exists ts, tokenize code_table real_text = Toks ts /\\ tree_syms real_tree = map sym ts.
Proof. split; [vm_compute; reflexivity|]. eexists. split; vm_compute; reflexivity. Qed.
Theorem inst_real_tree_total : forall iw, exists txt, format_text fmt_ws iw fmt_table real_tree = Some txt.
Proof.
  intro iw. destruct inst_real_tree_is_parse_tree as [Hw [ts [Ht Hy]]].
  apply (inst_format_text_total_tokenized iw real_text ts real_tree Ht (tree_gwfb_sound fmt_table real_tree Hw) Hy).
  vm_compute. reflexivity.
Qed.
"""


def tree_leaves(tree):
    """the Token leaves of a parse tree, left to right (iterative)"""
    from compiler.util import parser_types
    out, stack = [], [tree]
    while stack:
        n = stack.pop()
        if isinstance(n, parser_types.Token):
            out.append(n)
        else:
            stack.extend(reversed(n.children))
    return out


DOC_COMMENT_PROBES = [
    "-- module doc # not a comment\n",
    "-- module doc  #\n# real comment\n",
    "struct Foo:\n  -- doc # c\n  0 [+1]  UInt  x\n",
    "struct Foo:\n  -- # c\n  --  # d\n  0 [+1]  UInt  x\n",
    "struct Foo:\n  0 [+1]  UInt  x\n    -- field doc #c\n",
    "struct Foo:\n  0 [+1]  UInt  x  -- inline doc # c\n",
    "enum Bar:\n  -- doc #c\n  AA = 1  -- v # c\n    -- value doc # c\n",
    "bits Baz:\n  -- doc\t# c\n  0 [+1]  Flag  f\n",
    "external Ext:\n  -- doc # c\n  [requires: true]\n",
    "struct Foo:\n  0 [+4]  bits:\n    -- doc # c\n    0 [+1]  Flag  f\n",
    "struct Foo:\n  --\n  -- # c\n  --\n  0 [+1]  UInt  x\n",
]


def asserts_derived_part(ctx, impl, tab, trees):
    """The derivation of asserts_ok: instance theorems on the regenerated pattern + handler tables, and the remaining
    hypothesis (the leaves of a parse tree are the tokens) on every parse tree of the run."""
    inst = os.path.join(fw.GEN, INST_A + ".v")
    with open(inst, "w") as f:
        f.write(INSTANCE_A_V % dict(lex=GEN_TABLE, tab=GEN_FMT, insth=INST_H, doc=lt.coq_str("Documentation"), module=lt.coq_str("module")))
        mod_text = "-- m  # x\nstruct Foo:\n  -- doc # c\n  0 [+1]  UInt  x  -- d #c\n  # comment\n"
        mod_tree = impl.parse(mod_text)
        if mod_tree is not None:
            f.write(INSTANCE_A_MOD_V % dict(text=lt.coq_str(mod_text), tree=coq_tree(tab, mod_tree)))
    rc, out = fw.coqc(inst, timeout=900)
    names = fw.theorem_names(inst)
    if rc != 0:
        for n_ in names:
            ctx.obligation("instance theorem " + n_, False)
        # SEARCH: a text on which the real formatter's assert fires
        found = None
        for text in DOC_COMMENT_PROBES + list(trees):
            tree = trees.get(text) or impl.parse(text)
            if tree is None:
                continue
            for k in (2, 3):
                why = property_failure(impl, text, k)
                if why is not None and "raised" in why:
                    found = (text, k, why)
                    break
            if found:
                break
        if found:
            ctx.violation("formatter:assert-reachable", "the derivation of asserts_ok fails on the regenerated tables and the formatter's assert is reachable: "
                          "indent %d on %r: %s" % (found[1], found[0][:160], found[2]),
                          dict(kind="text", text=found[0], indent=found[1], failure=found[2], theorems=["asserts_ok_derived", "format_total_tokenized"],
                               log=out[-2000:]), found_input=True)
        else:
            ctx.violation("proof-broken:" + INST_A, "the derivation of asserts_ok (Documentation patterns end their line: sym_ends_line; asserts guarded: "
                          "asserts_guarded) does not check on the regenerated tables; no input found on which the formatter raises",
                          dict(kind="proof", file=inst, log=out[-3000:], theorems=names), found_input=False)
    else:
        res = fw.collect_assumptions(ctx, "EmbossVGen." + INST_A, inst, names)
        for n_ in names:
            axs = (res or {}).get(n_, ["<unavailable>"])
            ctx.obligation("instance theorem " + n_, not axs, axs)
        prob = fw.audit_file(inst)
        if prob:
            ctx.violation("audit", "forbidden vernacular in generated files", dict(kind="audit", problems=prob), found_input=False)
    # the hypothesis that is left: the leaves of the parse tree are exactly the tokens of the text
    bad = None
    for text, tree in trees.items():
        toks, errs = impl.tokenizer.tokenize(text, "f")
        lv = tree_leaves(tree)
        same = (not errs) and [(x.symbol, x.text) for x in lv] == [(x.symbol, x.text) for x in toks]
        ctx.count("parse-tree-leaves:" + ("equal to the token list" if same else "DIFFER from the token list"))
        if not same and bad is None:
            bad = text
    ctx.obligation("hypothesis of format_total_tokenized: the leaves of each of the %d distinct parse trees of this run are exactly the tokens of "
                   "tokenizer.tokenize(text), in order (symbol and text)" % len(trees), bad is None)
    if bad is not None:
        ctx.violation("formatter-total-hypothesis", "the leaves of the parse tree differ from the token list for %r" % bad[:160],
                      dict(kind="text", text=bad, theorems=["format_total_tokenized"]), found_input=False)


def audit_closure(ctx):
    """Audit (forbidden vernacular) of the .v files this check depends on: theories/Lex and theories/Lib.
    (fw.Ctx.audit covers the whole tree, including other properties' work in progress.)"""
    import glob
    files = sorted(glob.glob(os.path.join(fw.THEORIES, "Lex", "*.v")) + glob.glob(os.path.join(fw.THEORIES, "Lib", "*.v")))
    problems = []
    for f in files:
        problems += fw.audit_file(f)
    ctx.extra["audit_files"] = len(files)
    ctx.obligation("audit: no Admitted/Axiom/Parameter/guard-off in the %d .v files of the closure (Lex/, Lib/)" % len(files), not problems)
    if problems:
        ctx.violation("audit", "forbidden vernacular: " + "; ".join(problems[:5]), dict(kind="audit", problems=problems), found_input=False)


def run(ctx):
    if fw.REPO not in sys.path[:1]:
        sys.path.insert(0, fw.REPO)
    ctx.rule = ("parseable texts: every testdata/*.emb, testdata/format/*.emb and prelude.emb, expression-rich generated modules, and "
                "mutants of these that still parse (re-spaced tokens incl. tabs and trailing blanks, re-indented blocks with units of 1..8 "
                "spaces or tabs, blank lines added/removed, comment lines and trailing comments with odd indentation, blocks spliced "
                "between files at equal indentation, dropped line ranges, CRLF, missing final newline) x indent width 1..8.  Per case: "
                "no exception; model-tokenized output fmt_equiv to model-tokenized input (verified checker); output parses; formatting the "
                "output again is the identity; the same through the command-line driver format.py on real files (stdout, in place, --no-check-result, "
                "several files, rejected inputs, launcher), compared with the ORIGINAL file text; token-text sweep: string constants / docs / comments "
                "with interior blank runs, tabs, escapes, NBSP, non-ASCII at every scope; "
                "output again is the identity; Python's self check and its model agree.  Plus perturbed (formatted, original) pairs for "
                "the self-check model.  Handler-level model: every (text, indent) pair above is also formatted by the extracted Gallina model on the "
                "regenerated handler table and compared with format_emboss_parse_tree character for character.  "
                "Also per distinct text: tree_gwfb/asserts_ok (hypotheses of format_total) by the extracted model, the tokenizer fact behind asserts_ok on the real token list; "
                "Config(show_line_types=True) for one random width (sample of texts) against Lex.FmtShow; pieces_fit and the piece tokens against tokenizer.tokenize on a sample.  "
                "Non-trivial = the formatted text differs from the input; distinct by (text, indent)")
    ctx.trusted = ["Coq 8.16.1 kernel, vm_compute", "extraction (ExtrOcamlBasic) + OCaml driver (sampled against vm_compute)",
                   "harness/lex_tables.py", "harness/fmt_x.py", "harness/props/c11.py", "parser.parse_module as the oracle for 'parseable'"]
    ctx.assumptions = ["the handler-level model (Lex/FmtModel.v + regenerated table) stands for format_emb.py: tied by the character-for-character correspondence of this run; format_total_tokenized assumes tree_gwf (grammar shape, terminal leaves) and that the leaves are the tokens of the text (the parser's contract), both evaluated on every parse tree of the run; asserts_ok is derived (and still evaluated); format_preserves_tokens speaks about the pieces of the rendered text, whose re-tokenization is proved per line under pieces_fit (evaluated on a sample) and otherwise validated per produced output (partial)",
                       "the C10 tokenizer model stands for tokenizer.tokenize (tied by the C10 correspondence; re-checked here on every text used)"]
    audit_closure(ctx)
    thm_ok = ctx.check_theorems("EmbossV.Lex.Properties_C11", "Lex/Properties_C11.v", expect_min=45)

    os.makedirs(fw.GEN, exist_ok=True)
    try:
        t = lt.load_code_tables(fw.REPO)
        doc_rows = lt.load_doc_table(fw.REPO, t.ws_ranges)
    except lt.Unsupported as ex:
        ctx.obligation("tables regenerated from tokenizer.py", False)
        ctx.violation("lex-table-translator", "pattern table not understood: %s" % ex,
                      dict(kind="tie", translator="harness/lex_tables.py", error=str(ex)), found_input=False)
        return
    table_v = os.path.join(fw.GEN, GEN_TABLE + ".v")
    lt.write_table_v(table_v, t, doc_rows)
    rc, out = fw.coqc(table_v, timeout=300)
    ctx.obligation("pattern table regenerated and compiled", rc == 0)
    if rc != 0:
        ctx.violation("lex-table-translator", "generated table does not compile", dict(kind="tie", log=out[-3000:]), found_input=False)
        return
    impl = Impl()

    # ---- instance: the self-check theorems on the real table, and the examples replayed on the implementation ----
    inst = os.path.join(fw.GEN, "FmtInstance_C11.v")
    with open(inst, "w") as f:
        f.write("From Coq Require Import NArith List.\nImport ListNotations.\n")
        f.write("Require Import EmbossV.Lex.Regex EmbossV.Lex.Tokenizer EmbossV.Lex.Format EmbossV.Lex.Properties_C11.\n")
        f.write("Require Import EmbossVGen.%s.\n" % GEN_TABLE)
        f.write("(* formatted \"a\\nb\\n\" against original \"a\\n\" and the converse: both reported as a token-count difference *)\n")
        f.write("Theorem inst_sanity_reports_count :\n  sanity_check code_table [97;10;98;10]%N [97;10]%N = SanRes (ScCount 2 4) /\\\n"
                "  fmt_check code_table [97;10]%N [97;10;98;10]%N = FvDiffer /\\\n"
                "  sanity_check code_table [97;10]%N [97;10;98;10]%N = SanRes (ScCount 4 2).\nProof. repeat split; vm_compute; reflexivity. Qed.\n")
        f.write("Theorem inst_sanity_ok_iff : forall o f, sanity_tokens code_table o f = ScOk <-> fmt_equiv code_table o f.\n"
                "Proof. exact (sanity_ok_iff code_table). Qed.\n")
    rc, out = fw.coqc(inst, timeout=600)
    names = fw.theorem_names(inst)
    if rc != 0:
        for n_ in names:
            ctx.obligation("instance theorem " + n_, False)
        ctx.violation("proof-broken:FmtInstance", "instance theorems on the regenerated table do not check",
                      dict(kind="proof", file=inst, log=out[-3000:]), found_input=False)
    else:
        res = fw.collect_assumptions(ctx, "EmbossVGen.FmtInstance_C11", inst, names)
        for n_ in names:
            axs = (res or {}).get(n_, ["<unavailable>"])
            ctx.obligation("instance theorem " + n_, not axs, axs)
        prob = fw.audit_file(inst) + fw.audit_file(table_v)
        if prob:
            ctx.violation("audit", "forbidden vernacular in generated files", dict(kind="audit", problems=prob), found_input=False)
    replay = {"sanity_check_format_result('a\\nb\\n', 'a\\n')": impl.sanity("a\nb\n", "a\n"),
              "sanity_check_format_result('a\\n', 'a\\nb\\n')": impl.sanity("a\n", "a\nb\n")}
    ctx.extra["selfcheck_examples_replayed_on_implementation"] = replay

    # ---- inputs ---------------------------------------------------------------------------
    corpus = lg.corpus_files(fw.REPO)
    texts = []          # (shape, text)
    for name, text in corpus:
        texts.append(("corpus", text))
    try:
        from harness import gen_expr
        for i in range(40 if ctx.thorough() else 8):
            m = gen_expr.ExprModule(ctx.rng, n_virtual=ctx.rng.randint(3, 8), depth=ctx.rng.choice([2, 3, 4]), big=ctx.rng.random() < 0.3)
            texts.append(("generated-expr", m.text()))
    except Exception as ex:  # noqa
        ctx.note("gen_expr unavailable: %s" % ex)
    if getattr(ctx, "replay_path", None):
        obj = json.load(open(ctx.replay_path))
        rp = obj.get("replay", obj)
        if "text" in rp:
            texts = [("replay", rp["text"])]
    cdir = os.path.join(fw.VERIF, "corpus", "C11")
    if os.path.isdir(cdir):
        for fn in sorted(os.listdir(cdir)):
            if fn.endswith(".json"):
                texts.insert(0, ("corpus-replay", json.load(open(os.path.join(cdir, fn)))["text"]))
    if not getattr(ctx, "replay_path", None):
        for shape, text in lg.FmtGen.sweep():
            texts.append((shape, text))
        for text in DOC_COMMENT_PROBES:
            texts.append(("sweep-doc-comment", text))
        fg = lg.FmtGen(ctx.rng)
        for _ in range(2500 if ctx.thorough() else 420):
            texts.append(("generated-module", fg.module()))
    mut = Mut(ctx.rng, impl)
    pool = [x for x in texts]
    n_mut = 1600 if ctx.thorough() else 260
    if not getattr(ctx, "replay_path", None):
        tries = 0
        while sum(1 for s, _ in texts if s == "mutant") < n_mut and tries < 6 * n_mut:
            tries += 1
            base = ctx.rng.choice(pool)[1]
            if len(base) > 6000:
                continue
            m = mut.mutate(base, pool)
            if impl.parse(m) is None:
                ctx.count("mutant-unparseable (discarded)")
                continue
            texts.append(("mutant", m))

    # ---- run the formatter -------------------------------------------------------------------
    cases = []        # dict(text, k, out, shape)
    failures = []     # (text, k, why)
    seen = set()
    widths_all = list(range(1, 9))
    for shape, text in texts:
        if text in seen:
            continue
        seen.add(text)
        tree = impl.parse(text)
        if tree is None:
            ctx.count("unparseable:" + shape)
            continue
        if shape in ("mutant", "generated-module", "sweep-operators", "sweep-row-tails", "sweep-token-text") and not ctx.thorough():
            widths = ctx.rng.sample(widths_all, {"sweep-operators": 1, "sweep-row-tails": 1, "sweep-token-text": 2}.get(shape, 3))
        else:
            widths = widths_all
        for k in widths:
            ctx.count("shape:" + shape)
            ctx.count("indent:%d" % k)
            try:
                out = impl.fmt(tree, k)
            except Exception as ex:  # noqa
                failures.append((text, k, "formatter raised %s: %s" % (type(ex).__name__, str(ex)[:200])))
                continue
            why = None
            tree2 = impl.parse(out)
            if tree2 is None:
                why = "formatted text does not parse"
            else:
                try:
                    out2 = impl.fmt(tree2, k)
                    if out2 != out:
                        why = "formatting is not idempotent"
                except Exception as ex:  # noqa
                    why = "formatter raised on its own output %s: %s" % (type(ex).__name__, str(ex)[:200])
            py_s = impl.sanity(out, text)
            if why:
                failures.append((text, k, why))
            cases.append(dict(text=text, k=k, out=out, shape=shape, py_sanity=py_s, kind="format"))
    # ---- the command-line driver on real files ------------------------------------------------------
    drv = Driver(os.path.join(ctx.bdir, "driver"))
    driver_failures = []      # (text, k, mode, why)
    modes = ["stdout", "stdout", "inplace", "inplace-nocheck", "default-indent"]
    parseable = [(sh, tx) for sh, tx in texts if len(tx) < 20000]
    token_text = [x for x in parseable if x[0] == "sweep-token-text"]
    others = [x for x in parseable if x[0] != "sweep-token-text"]
    chosen = token_text + [x for x in others if x[0] in ("corpus", "corpus-replay", "replay")] + \
        ctx.rng.sample(others, min(len(others), 1500 if ctx.thorough() else 250))
    seen_drv = set()
    for shape, text in chosen:
        for mode in (modes if (shape == "sweep-token-text" and ctx.thorough()) else [ctx.rng.choice(modes)] + (["stdout"] if shape == "sweep-token-text" else [])):
            k = ctx.rng.choice(widths_all)
            if (text, k, mode) in seen_drv:
                continue
            seen_drv.add((text, k, mode))
            res, why = driver_case(drv, impl, text, k, mode)
            if res is None and why is None:
                continue
            ctx.count("driver:" + mode)
            if why:
                driver_failures.append((text, k, mode, why))
            cases.append(dict(text=text, k=(2 if mode == "default-indent" else k), out=res, shape="driver-" + mode,
                              py_sanity=impl.sanity(res, text), kind="driver", mode=mode))
    # several files at once (in place), and the refusal of several files with --no-edit-in-place
    multi = [tx for sh, tx in chosen if impl.parse(tx) is not None][:40]
    for i in range(0, len(multi) - 2, 3):
        grp = multi[i:i + 3]
        k = ctx.rng.choice(widths_all)
        ps = [drv.write(tx) for tx in grp]
        rc, out, err = drv.run(["--indent", k] + ps)
        ctx.count("driver:several-files")
        for tx, p_ in zip(grp, ps):
            res = drv.read(p_)
            if rc != 0 or out or not impl.py_equiv(tx, res) or res != impl.fmt(impl.parse(tx), k):
                driver_failures.append((tx, k, "inplace", "several files at once: exit %r, file result wrong" % (rc,)))
        rc, out, err = drv.run(["--no-edit-in-place"] + ps)
        if rc == 0 or out or any(drv.read(p_) != impl.fmt(impl.parse(tx), k) for tx, p_ in zip(grp, ps)):
            driver_failures.append((grp[0], k, "stdout", "several files with --no-edit-in-place: expected a refusal (non-zero exit, nothing written)"))
    # failure paths: files that do not tokenize / do not parse must be left untouched, with a message
    for bad_text in ["struct Foo:\n  0 [+1]  UInt  a ~\n", "struct Foo:\n    0 [+1]  UInt  a\n  1 [+1]  UInt  b\n", "struct Foo:\n  0 [+1]  UInt\n",
                     "struct foo:\n  0 [+1]  UInt  a\n", "struct Foo:\n\t0 [+1]  UInt  a\n        1 [+1]  UInt  b\n", "enum Kind:\n  A = 1\n"]:
        for args in ([], ["--no-check-result"], ["--no-edit-in-place"]):
            p_ = drv.write(bad_text)
            rc, out, err = drv.run(args + [p_])
            ctx.count("driver:rejected-input")
            if drv.read(p_) != bad_text or out or not err.strip() or not isinstance(rc, int):
                driver_failures.append((bad_text, 2, "inplace", "rejected input: file changed / output produced / no message / crash (exit %r)" % (rc,)))
    # the launcher script itself, as a subprocess
    launcher = os.path.join(fw.REPO, "emboss-format")
    for shape, text in token_text[:3] + others[:2]:
        if impl.parse(text) is None:
            continue
        p_ = drv.write(text)
        rc, out = fw.sh([fw.PY, launcher, "--no-edit-in-place", "--indent", "4", p_], timeout=120, env=fw.repo_env(), cwd=drv.d)
        ctx.count("driver:launcher-subprocess")
        expect = impl.fmt(impl.parse(text), 4)
        if rc != 0 or "\n".join(l for l in out.split("\n") if "WARNING conda" not in l) != expect:
            driver_failures.append((text, 4, "stdout", "emboss-format launcher: exit %r or output differs from the library result" % (rc,)))

    # perturbed pairs for the self-check model
    r = ctx.rng
    fmt_cases = [c for c in cases if c["kind"] == "format"]
    for c in r.sample(fmt_cases, min(len(fmt_cases), 600 if ctx.thorough() else 150)):
        lines = c["out"].split("\n")
        k = r.random()
        if k < 0.3 and len(lines) > 2:
            f2 = "\n".join(lines[:r.randrange(1, len(lines))]) + "\n"
        elif k < 0.55:
            f2 = c["out"] + r.choice(["x\n", "struct Foo:\n  0 [+1]  UInt  x\n", "# c\n", "\n\n", "  y\n"])
        elif k < 0.8 and len(lines) > 2:
            i = r.randrange(len(lines))
            f2 = "\n".join(lines[:i] + lines[i + 1:])
        else:
            f2 = r.choice(fmt_cases)["out"]
        ctx.count("shape:selfcheck-perturbed")
        cases.append(dict(text=c["text"], k=c["k"], out=f2, shape="selfcheck-perturbed", py_sanity=impl.sanity(f2, c["text"]), kind="pair"))

    # ---- the handler-level model ------------------------------------------------------------------
    try:
        handler_model_part(ctx, impl, cases)
    except fw.CoqEvalError as ex:
        ctx.obligation("handler model evaluated inside Coq", False)
        ctx.violation("harness-coq-eval", "evaluating the handler model inside Coq failed: %s" % str(ex)[-1500:], dict(kind="harness"), found_input=False)

    # ---- model side ----------------------------------------------------------------------------
    exe, log = build_extracted(ctx)
    ctx.obligation("model (tokenizer + criterion + self-check mirror) extracted and driver built", exe is not None)
    if exe is None:
        ctx.violation("harness-extraction", "extraction / OCaml build failed", dict(kind="harness", log=log[-3000:]), found_input=False)
        return
    outs = run_extracted(exe, [(c["text"], c["out"]) for c in cases])
    n_noneq, n_sdis = 0, 0
    disagreements = []
    for c, o in zip(cases, outs):
        v, _, s = o.partition(";")
        c["verdict"], c["model_sanity"] = v, s
        ctx.count("model-verdict:" + v)
        ctx.count("python-selfcheck:" + c["py_sanity"].split()[0])
        nontrivial = c["out"] != c["text"]
        ctx.case((c["text"], c["k"], c["kind"], c["out"] if c["kind"] == "pair" else ""), nontrivial=nontrivial,
                 sample={"shape": c["shape"], "indent": c["k"], "text": c["text"][:80], "formatted": c["out"][:80], "verdict": v, "selfcheck": s})
        if c["kind"] == "driver":
            if v != "equiv" and not any(f[0] == c["text"] and f[2] == c["mode"] for f in driver_failures):
                driver_failures.append((c["text"], c["k"], c["mode"], "command-line result is not fmt_equiv to the original file (model verdict %s)" % v))
        if c["kind"] == "format":
            if v != "equiv":
                n_noneq += 1
                failures.append((c["text"], c["k"], "formatted text is not token-equivalent to the original (model verdict %s)" % v))
            elif c["py_sanity"] != "ok":
                failures.append((c["text"], c["k"], "built-in self check reports %r on an equivalent result" % c["py_sanity"]))
        if s != c["py_sanity"]:
            n_sdis += 1
            disagreements.append(c)
    n_fmt = sum(1 for c in cases if c["kind"] == "format")
    # attribute every failing (text, indent) to a listed mechanism, or keep it as an unexplained failure
    by_key = {}           # key -> [(text, k, why)]
    unexplained = []      # (text, k, why)
    analysed = {}
    t_attr = time.time()
    for text, k, why in sorted(failures, key=lambda f: len(f[0])):
        if (text, k) in analysed:
            continue
        analysed[(text, k)] = True
        if time.time() - t_attr > (600 if ctx.thorough() else 100):
            unexplained.append((text, k, why + " (not analysed: time budget)"))
            continue
        confirmed = property_failure(impl, text, k)
        if confirmed is None:
            unexplained.append((text, k, "MODEL-ONLY " + why))
            continue
        keys, residual = attribute(impl, text, k)
        for key in keys:
            by_key.setdefault(key, []).append((text, k, confirmed))
        if residual is not None:
            unexplained.append((text, k, residual))
    ctx.extra["failures_attributed"] = {key: len(v) for key, v in by_key.items()}
    ctx.extra["failures_unexplained"] = len(unexplained)
    n_attr = len({(t_, k_) for v in by_key.values() for t_, k_, _ in v})
    ctx.obligation("translation validation: %d formatter outputs are fmt_equiv to their inputs (verified checker on model tokens), the output parses, "
                   "formatting it again is the identity, no exception; %d further (text, indent) pairs fail and are attributed to the mechanisms %s"
                   % (n_fmt - n_attr - len(unexplained), n_attr, sorted(by_key)), not unexplained)
    ctx.obligation("correspondence: model of sanity_check_format_result = Python on %d pairs" % len(cases), n_sdis == 0)
    n_drv = sum(1 for c in cases if c["kind"] == "driver")
    ctx.obligation("command line (compiler/front_end/format.py: --no-edit-in-place, in place, --no-check-result, default and explicit --indent, "
                   "several files, rejected inputs left untouched, emboss-format launcher): %d results are fmt_equiv to the ORIGINAL file text "
                   "(verified checker on model tokens), equal to the library result, exit status 0, nothing on stderr" % n_drv, not driver_failures)

    # a sample inside Coq (extraction is a speed-up, not a premise)
    small = [c for c in cases if len(c["text"]) + len(c["out"]) < 1500]
    sample = ctx.rng.sample(small, min(len(small), 120 if ctx.thorough() else 40))
    vmap = {"equiv": "FvEquiv", "differ": "FvDiffer", "orig-untokenizable": "FvOrigNotTokenizable", "fmt-untokenizable": "FvFmtNotTokenizable"}

    def sterm(s):
        if s == "ok":
            return "(SanRes ScOk)"
        if s.startswith("count "):
            return "(SanRes (ScCount %s%%nat %s%%nat))" % tuple(s.split()[1:3])
        if s.startswith("bug "):
            return "(SanRes (ScBug %s%%nat))" % s.split()[1]
        return {"orig-untokenizable": "SanOrigNotTokenizable", "fmt-untokenizable": "SanFmtNotTokenizable"}.get(s, "SanOrigNotTokenizable")
    header = ("Require Import EmbossV.Lex.Regex EmbossV.Lex.Tokenizer EmbossV.Lex.Format EmbossV.Lex.FormatExec.\n"
              "Require Import EmbossVGen.%s.\n" % GEN_TABLE)
    cc = [("(%s%%N, %s%%N)" % (lt.coq_str(c["text"]), lt.coq_str(c["out"])), "(%s, %s)" % (vmap.get(c["verdict"], "FvDiffer"), sterm(c["model_sanity"])), c)
          for c in sample]
    bad = fw.CoqCases(ctx, "fmt", header, "run_fmt code_table", "fmt_res_eqb", "(str * str)", "(fmt_verdict * sanity)",
                      shard=max(5, len(cc) // 8 + 1), timeout=1500).run(cc)
    ctx.obligation("extracted model = vm_compute inside Coq on %d sampled pairs" % len(cc), not bad)
    if bad:
        ctx.violation("harness-extraction", "extracted OCaml and vm_compute disagree", dict(kind="harness", model_outputs=bad[0][1][:2000]), found_input=False)

    # ---- deciding ------------------------------------------------------------------------------------
    replay_txt = "format_emb.format_emboss_parse_tree(parser.parse_module(tokenizer.tokenize(text,'f')[0]).parse_tree, Config(indent_width=indent)); format again; sanity_check_format_result"
    for key in sorted(by_key):
        text, k, msg = by_key[key][0]          # the smallest attributed input
        if len(text) > 160:
            other = neutralise_blanks if key == KEY_MINUS else (lambda s_: neutralise_minus(impl, s_))
            text = shrink_lines(text, lambda s_: impl.parse(s_) is not None and property_failure(impl, other(s_), k) is not None, seconds=8)
            msg = property_failure(impl, text, k) or msg
        ctx.violation(key, "C11 fails for indent %d on %r: %s" % (k, text[:160], msg),
                      dict(kind="text", text=text, indent=k, failure=msg, occurrences_this_run=len(by_key[key]), replay=replay_txt),
                      found_input=True)
    reported = 0
    seen_generic = set()
    for text, k, why in unexplained:
        if reported >= 4:
            break
        if why.startswith("MODEL-ONLY "):
            if "model-only" in seen_generic:
                continue
            seen_generic.add("model-only")
            ctx.violation("formatter-validation", "model-side validation failed (%s) but the property holds on the implementation for indent %d" % (why[11:], k),
                          dict(kind="text", text=text, indent=k, correspondence="model tokenizer/criterion vs implementation", failure=why), found_input=False)
            reported += 1
            continue
        g = classify(why)
        if g in seen_generic:
            continue
        seen_generic.add(g)
        neut = neutralise_blanks(neutralise_minus(impl, text))
        base = neut if (impl.parse(neut) is not None and property_failure(impl, neut, k) is not None) else text
        small_text = shrink_lines(base, lambda s_: (impl.parse(s_) is not None) and property_failure(impl, s_, k) is not None)
        msg = property_failure(impl, small_text, k) or why
        ctx.violation("formatter:" + classify(msg), "C11 fails for indent %d on %r...: %s" % (k, small_text[:120], msg),
                      dict(kind="text", text=small_text, indent=k, failure=msg, replay=replay_txt), found_input=True)
        reported += 1
    # the command-line driver
    seen_drv_keys = set()
    for text, k, mode, why in sorted(driver_failures, key=lambda f: len(f[0])):
        cls = ("changes-tokens" if "equiv" in why else "differs-from-library" if "differs from" in why else
               "rejected-input-handling" if "rejected input" in why else "several-files" if "several files" in why else
               "launcher" if "launcher" in why else "exit-status-or-stderr")
        if cls in seen_drv_keys or len(seen_drv_keys) >= 3:
            continue
        seen_drv_keys.add(cls)
        small = text
        if cls in ("changes-tokens", "differs-from-library", "exit-status-or-stderr") and driver_failure(drv, impl, text, k, mode):
            small = shrink_lines(text, lambda s_: impl.parse(s_) is not None and driver_failure(drv, impl, s_, k, mode) is not None, seconds=10)
            why = driver_failure(drv, impl, small, k, mode) or why
        ctx.violation("formatter-driver:" + cls, "emboss-format (%s, indent %d) on a file containing %r: %s" % (mode, k, small[:160], why),
                      dict(kind="file", text=small, codepoints=[ord(ch) for ch in small], indent=k, mode=mode, failure=why,
                           replay="write text to f.emb (UTF-8); compiler/front_end/format.py main(['emboss-format', <mode options>, '--indent', N, 'f.emb']); "
                                  "compare stdout / the file with the original text by fmt_equiv and with format_emboss_parse_tree"),
                      found_input=True)
    # regression guard for fix 7fc177c (the key is listed as fixed, so this is never suppressed)
    r_extra, r_short = impl.sanity("a\nb\n", "a\n"), impl.sanity("a\n", "a\nb\n")
    if r_extra == "ok" or r_short == "indexerror":
        ctx.violation(KEY_SELFCHECK, "sanity_check_format_result('a\\nb\\n', 'a\\n') -> %s (extra trailing tokens accepted); "
                      "sanity_check_format_result('a\\n', 'a\\nb\\n') -> %s (shorter token list)" % (r_extra, r_short),
                      dict(kind="pair", formatted="a\nb\n", original="a\n",
                           theorems=["sanity_ok_iff", "inst_sanity_reports_count"], fixed_by="7fc177c",
                           replay="format_emb.sanity_check_format_result(formatted, original) and with the arguments swapped"), found_input=True)
    if disagreements and reported == 0:
        c = disagreements[0]
        ctx.violation("formatter-selfcheck-model", "model of sanity_check_format_result says %r, Python says %r" % (c["model_sanity"], c["py_sanity"]),
                      dict(kind="pair", original=c["text"], formatted=c["out"], model=c["model_sanity"], python=c["py_sanity"],
                           correspondence="Lex.Format.sanity_check vs format_emb.sanity_check_format_result"), found_input=False)
