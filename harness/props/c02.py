"""C02 -- scalar fields decode with the documented byte order, bit numbering and format.

Also hosts the runner shared with C03 (`run_bits`): generated modules -> real embossc -> real header ->
C++ driver; every observation is compared (1) with the arithmetic SPEC in gen_bits.py (a direct test of the
property; a contradiction is a concrete failing input) and (2) with the Coq model (Bits/Exec.v evaluated by
vm_compute; this is the tie of the theorems to the source).
"""
import glob
import json
import os
import shutil
import subprocess
import time

from harness import fw, gen_bits, cpp_build, accessor_x

META = {
    "technique": "Coq proofs about a Gallina mirror of the C++ runtime's scalar read path (C++ integer semantics explicit) + differential correspondence through generated code",
    "level_text": "Machine-checked theorems (Coq 8.16, no axioms), for every container size 1..8 bytes, byte order, bit offset, width 1..64 and all contents: the mirrored read path (MemoryAccessor load -> BitBlock -> OffsetBitBlock::ReadUInt, also through nested offset blocks -> UIntView / IntView::ConvertToSigned / BcdView::ConvertToBinary and IsBcd / FlagView / EnumView / FloatView bit pattern) returns the documented value of exactly the field's bits, without undefined behaviour or failed CHECK, in a value type wide enough; IsBcd's parallel-nibble trick is proved for every number of nibbles (all 2^64 values of uint64_t); the EMBOSS_NO_OPTIMIZATIONS configuration (portable shift-and-or loops, non-two's-complement ConvertToSigned branch) is proved to read the same values as the memcpy+bswap configuration. For signed enums narrower than their underlying type the faithful model refutes the property (finding F1, theorem enum_signed_read_refuted) and the strongest true statement (width = underlying width) is proved. The model is tied to /repo on every run: generated modules are compiled by the working tree's embossc and g++ (both runtime configurations), and every accessor's Ok/IsComplete/Read/UncheckedRead/sizeof/signedness/CHECK failures are compared with the model (extracted OCaml for all cases, Coq vm_compute for a sample) and with an independent arithmetic reference. The MemoryAccessor layer under that read path (every alignment specialisation, every storage character type, either host endianness, builtin or portable byte swap) is proved to return the little-/big-endian value of the bytes at the pointer whenever the static alignment claim holds, the claim is proved to propagate through GetOffsetStorage, and the casts of the byte loops are shown necessary by refuting the loops without them (read_loop_without_uint8_cast_refuted, read_loop_without_widening_cast_refuted, false_static_claim_refuted).",
    "level_note": "Trusted: Coq kernel + vm_compute; extraction (ExtrOcamlBasic only) + OCaml for the bulk evaluation, cross-checked against vm_compute on a sample each run; g++ 12 as the semantics of C++ (integer promotion rules and GCC's implementation-defined choices are written into Bits/Model.v section 1; signed left shift is treated more strictly than C++14); harness/gen_bits.py (generator, SPEC reference) and harness/cpp_build.py. Modelled, not verified: the C++ sources. Float: only the bit pattern is modelled (memcpy identity; the driver prints the re-memcpy'd bits); [requires] validators and the generated struct code are C01's subject; the MemoryAccessor / ContiguousBuffer layer is modelled separately in Bits/Accessor.v (template selection over (kAlignment, kOffset, kBits), CharT in {char (signed), unsigned char, std::byte, signed char (rejected)}, byte loops with their cast chains, memcpy and EMBOSS_ALIAS_SAFE_POINTER_CAST whole-object variants with the endian macros on a little- or big-endian host, builtin or portable ByteSwap, OffsetStorageType/GreatestCommonDivisor bookkeeping, the checked entry points) and PROVED to compute the container_load of Bits/Model.v for every specialisation, CharT, configuration and address satisfying the static claim (accessor_read_le_spec, accessor_read_be_spec, aligned_reads_agree, char_storage_irrelevant, selection_sound, alignment_bookkeeping_sound); not modelled there: kBits = 0, alignments that do not fit size_t, volatile/const qualification, the strict-aliasing side of the may_alias pointer cast (a whole-object access is its object representation's value by definition; a misaligned one is undefined), a big-endian host can not be executed here (proved only). That the claim about a field's start which the back end passes as <kSubAlignment, kSubOffset> bounds the run-time offset is C05's theorem (hypothesis sub_claim). Tie: a C++ micro-driver instantiates MemoryAccessor<CharT, A, K, kBits> directly (CharT in {char, unsigned char, std::byte}, A in {1,2,4,8}, all K < A, kBits 8..64, two addresses, edge and random contents, four build configurations) and every observation is compared with the arithmetic reference, a sample (600; thorough: 6000) with the Coq model by vm_compute; OffsetStorageType as g++ instantiates it is compared with the model; the <kSubAlignment, kSubOffset> arguments the working tree's back end emits for fields at constant and n*m+b starts are read from a generated header and checked (sub_claim at the observed offsets, storage type = offset_storage_type, resulting claim true at the observed address) for seven root alignments; the generated views' observations of whole-container UInt fields through plain, statically aligned (GenericTopView<ContiguousBuffer<unsigned char, A, k>> for A in {2,4,8} at buffer addresses k mod A) and char-storage views are compared with the model's composition (OffsetStorageType + checked entry point + selected specialisation); all other accessors are still observed through those views and compared with the SPEC and the Bits/Model.v values.",
}

N_REPLAY_KEEP = 5


def _jobs_for(ctx, mods, mode, given=None, aligned=True):
    jobs, info = [], {}
    for m in mods:
        drv, cases = gen_bits.driver_and_cases(m, ctx.rng, mode=mode, given=(given or {}).get(m.name))
        extra = {"aligned": gen_bits.aligned_driver(m, cases, thorough=ctx.thorough(), light=(mode != "read"))} if aligned else None
        jobs.append(cpp_build.CppJob(m.name, m.text(), drv, defines=[] if m.opt else ["EMBOSS_NO_OPTIMIZATIONS"],
                                     extra_drivers=extra))
        info[m.name] = (m, cases)
    return jobs, info


def _akey(key, var):
    """observations through a statically aligned view: unknown mechanisms are keyed apart from the plain view's"""
    if var is None or not key.startswith("scalar-"):
        return key
    return ("char-storage-view:" if var[0] < 0 else "aligned-view:") + key


def _amsg(var):
    if var is None:
        return ""
    return " [through a view over %s storage with static alignment %d at an address that is %d mod %d]" % (
        "(signed) char" if var[0] < 0 else "unsigned char", abs(var[0]), var[1], abs(var[0]))


def _replay(m, acc, **kw):
    d = dict(kind="accessor", module=m.text(), namespace=m.name, optimizations=m.opt,
             accessor=acc.describe())
    d.update(kw)
    return d


def evaluate(ctx, mods, mode, tag, given=None, count=True, aligned=True):
    """Build + run the modules, compare every observation with the SPEC, return Coq cases.

    Returns (coq_cases, n_spec_violations, build_failures)."""
    t0 = time.time()
    jobs, info = _jobs_for(ctx, mods, mode, given, aligned)
    t1 = time.time()
    results = cpp_build.run_jobs(os.path.join(ctx.bdir, "cpp_" + tag), jobs, parallel=16, timeout=1500)
    t2 = time.time()
    ctx.extra.setdefault("timing_s", {})[tag] = dict(generate=round(t1 - t0, 1), embossc_gxx_run=round(t2 - t1, 1),
                                                     stages_max={k: round(max((r.times.get(k, 0) for r in results.values()), default=0), 1)
                                                                 for k in ("embossc", "compile", "run")})
    coq_cases, n_bad, failures = [], 0, []
    for name in sorted(results, key=lambda n: int(n[1:]) if n[1:].isdigit() else 0):
        r = results[name]
        m, cases = info[name]
        if not r.ok:
            failures.append(r)
            ctx.violation("cpp-build:" + r.stage,
                          "generated module %s: stage %s failed (rc=%s): %s" % (name, r.stage, r.rc, r.log[-400:]),
                          dict(kind="build", module=m.text(), stage=r.stage, log=r.log[-3000:]), found_input=False)
            continue
        reads, writes, end = gen_bits.parse_lines(r.lines)
        areads, awrites, aligned_ok = {}, {}, False
        er = r.extra.get("aligned")
        if er is not None:
            areads, awrites, aend = gen_bits.parse_lines(er.lines)
            aligned_ok = er.ok and aend
            if not aligned_ok:
                ctx.violation("cpp-build:aligned:" + er.stage, "aligned-view driver of %s: stage %s failed (rc=%s): %s"
                              % (name, er.stage, er.rc, er.log[-400:]),
                              dict(kind="build", module=m.text(), stage=er.stage, log=er.log[-3000:]), found_input=False)
        if not end:
            ctx.violation("cpp-build:output", "driver of %s did not finish" % name,
                          dict(kind="build", module=m.text()), found_input=False)
            continue
        for acc in m.accessors:
            cs = cases[acc.id]
            for vi, var in enumerate([None] + list(cs.get("aligned", []) if aligned_ok else [])):
                aid = acc.id + gen_bits.ALIGNED_ID * vi
                R, W = (reads, writes) if var is None else (areads, awrites)
                vw = {} if var is None else dict(view="%s storage, static alignment %d, buffer address = %d mod %d" % (
                    "char" if var[0] < 0 else "unsigned char", abs(var[0]), var[1], abs(var[0])))
                if mode != "write":
                    for b, root in enumerate(cs["read_bufs"]):
                        o = R.get((aid, b))
                        if o is None:
                            ctx.violation("cpp-build:output", "missing observation", dict(kind="build", module=m.text()), found_input=False)
                            continue
                        if count and var is None:
                            ctx.count("read:%s" % acc.kind)
                            ctx.count("order:%s" % acc.order)
                            ctx.count("container-bytes:%d" % acc.c)
                            ctx.count("width:%02d-%02d" % ((acc.w - 1) // 8 * 8 + 1, (acc.w - 1) // 8 * 8 + 8))
                            ctx.count("depth:%d" % len(acc.path))
                            ctx.count("opt" if m.opt else "portable")
                            ctx.case(("r", acc.key(), bytes(root), m.opt), nontrivial=gen_bits.spec_complete(acc, root),
                                     sample=dict(accessor=acc.describe(), buffer=gen_bits.hexs(root), cpp=o["line"]))
                        if count and var is not None:
                            ctx.count(("char-storage-view-read:A=%d" if var[0] < 0 else "aligned-view-read:A=%d") % abs(var[0]))
                            ctx.case(("ra", acc.key(), bytes(root), m.opt, var), nontrivial=gen_bits.spec_complete(acc, root))
                        bad = gen_bits.check_read(acc, root, o)
                        if bad:
                            n_bad += 1
                            key, msg, exp = bad
                            key, msg = _akey(key, var), msg + _amsg(var)
                            ctx.violation(key, "%s %s width %d at bit %d of %d-byte %s container, buffer %s: %s" % (
                                acc.kind, acc.enum or "", acc.w, acc.bit_offset, acc.c, acc.order, gen_bits.hexs(root), msg),
                                _replay(m, acc, buffer=gen_bits.hexs(root), observed=o["line"], expected=exp, **vw), found_input=True)
                        coq_cases.append((None, None, dict(m=m, acc=acc, root=root, obs=o, spec_bad=bool(bad), var=var)))
                if mode != "read":
                    for b, root in enumerate(cs["write_bufs"]):
                        ws, exps, objs, any_bad = [], [], [], False
                        for ti, (t, vals) in enumerate(cs["writes"]):
                            t = tuple(t)
                            for i, v in enumerate(vals):
                                o = W.get((aid, b, ti, i))
                                if o is None:
                                    ctx.violation("cpp-build:output", "missing observation", dict(kind="build", module=m.text()), found_input=False)
                                    continue
                                if count and var is None:
                                    ctx.count("write:%s" % acc.kind)
                                    ctx.count("argty:%s" % gen_bits.cty_name(t))
                                    ctx.count("order:%s" % acc.order)
                                    ctx.count("container-bytes:%d" % acc.c)
                                    ctx.count("opt" if m.opt else "portable")
                                    lo, hi = gen_bits.field_range(acc)
                                    ctx.count("value:" + ("in-range" if lo <= v <= hi else "out-of-range"))
                                    ctx.case(("w", acc.key(), bytes(root), t, v, m.opt), nontrivial=gen_bits.spec_complete(acc, root),
                                             sample=dict(accessor=acc.describe(), buffer=gen_bits.hexs(root),
                                                         argument_type=gen_bits.cty_name(t), value=v, cpp=o["line"]))
                                if count and var is not None:
                                    ctx.count(("char-storage-view-write:A=%d" if var[0] < 0 else "aligned-view-write:A=%d") % abs(var[0]))
                                    ctx.case(("wa", acc.key(), bytes(root), t, v, m.opt, var), nontrivial=gen_bits.spec_complete(acc, root))
                                bad = gen_bits.check_write(acc, root, t, v, o)
                                if bad:
                                    n_bad += 1
                                    any_bad = True
                                    key, msg, exp = bad
                                    key, msg = _akey(key, var), msg + _amsg(var)
                                    ctx.violation(key, "%s %s width %d at bit %d of %d-byte %s container, buffer %s, argument (%s)%d: %s" % (
                                        acc.kind, acc.enum or "", acc.w, acc.bit_offset, acc.c, acc.order, gen_bits.hexs(root),
                                        gen_bits.cty_name(t), v, msg),
                                        _replay(m, acc, buffer=gen_bits.hexs(root), argument_type=gen_bits.cty_name(t), value=v,
                                                observed=o["line"], expected=exp, **vw), found_input=True)
                                objs.append((t, v, o))
                        if objs:
                            coq_cases.append((None, None, dict(m=m, acc=acc, root=root, writes=objs, spec_bad=any_bad, var=var)))
    ctx.extra["timing_s"][tag]["compare_with_spec"] = round(time.time() - t2, 1)
    return coq_cases, n_bad, failures


def build_extracted(ctx):
    """coqc extract/bits/Extract.v + ocamlfind ocamlopt into ctx.bdir/extract; returns the binary path."""
    rc, out = fw.coq_make(["Bits/Exec.vo"])
    if rc != 0:
        raise fw.CoqEvalError("building Bits/Exec.vo failed: " + out[-2000:])
    d = os.path.join(ctx.bdir, "extract")
    shutil.rmtree(d, ignore_errors=True)
    os.makedirs(d)
    for f in ("Extract.v", "driver.ml"):
        shutil.copy(os.path.join(fw.VERIF, "extract", "bits", f), d)
    rc, out = fw.sh(["coqc"] + fw.COQ_FLAGS + ["Extract.v"], cwd=d, timeout=600)
    if rc != 0:
        raise fw.CoqEvalError("extraction failed: " + out[-2000:])
    rc, out = fw.sh(["ocamlfind", "ocamlopt", "-w", "-a", "bits_model.mli", "bits_model.ml", "driver.ml", "-o", "bits_model"],
                    cwd=d, timeout=600)
    if rc != 0:
        raise fw.CoqEvalError("ocamlopt failed: " + out[-2000:])
    return os.path.join(d, "bits_model")


def coq_terms(obj):
    """(input term, expected output term) of a case for evaluation inside Coq"""
    acc, m, root = obj["acc"], obj["m"], obj["root"]
    if "obs" in obj:
        return ("(%s, %s)" % (gen_bits.coq_acc(acc, m.opt), gen_bits.coq_buf(root)), gen_bits.coq_read_expected(obj["obs"]))
    ws = ["(%s, %s)" % (gen_bits.coq_cty(t), gen_bits.coq_z(v)) for t, v, _ in obj["writes"]]
    exps = [gen_bits.coq_write_expected(o) for _, _, o in obj["writes"]]
    return ("(%s, %s, [%s])" % (gen_bits.coq_acc(acc, m.opt), gen_bits.coq_buf(root), "; ".join(ws)), "[%s]" % "; ".join(exps))


def _zs(s):
    if s == "-":
        return None
    neg = s.startswith("-")
    v = int(s.lstrip("-")[1:], 2)
    return -v if neg else v


def _model_line(obj):
    acc, m = obj["acc"], obj["m"]
    order = gen_bits.null_constructor() if acc.order == "Null" else acc.order
    head = "%s %d %s %d %d %s %s %s %d %s" % (
        "R" if "obs" in obj else "W", 1 if m.opt else 0, order, acc.boff, acc.c,
        ",".join("%d:%d" % (o, z) for o, z in acc.path) or "-", acc.kind,
        "%d:%d" % (1 if acc.ut[0] else 0, acc.ut[1]) if acc.kind == "enum" else "-", acc.w,
        gen_bits.hexs(obj["root"]) or "-")
    if "obs" in obj:
        return head
    return head + " " + " ".join("%d:%d:%d" % (1 if t[0] else 0, t[1], v) for t, v, _ in obj["writes"])


def _agree_read(o, line):
    if line == "none":
        return o["chk"] > 0
    if o["chk"]:
        return False
    ok, cpl, sz, sg, v = line.split(" ")
    return (ok == "1") == o["ok"] and (cpl == "1") == o["cpl"] and _zs(sz) == o["sz"] and (sg == "1") == o["sg"] \
        and _zs(v) == o["v"]


def _agree_write(o, item):
    if item == "none":
        return o["chk"] > 0
    if o["chk"]:
        return False
    cw, tw, rd, n, buf = item.split(" ")
    root = [_zs(x) for x in buf.split(",")] if int(n) else []
    return (cw == "1") == o["cw"] and (tw == "1") == o["tw"] and _zs(rd) == o["rd"] and root == o["buf"]


def model_compare(ctx, mode, cases, tag):
    """Evaluate the model on every case: extracted OCaml for all of them, inside Coq (vm_compute) for a sample.
    Returns the list of (case index, model output text) that disagree with the C++ observations."""
    t0 = time.time()
    exe = build_extracted(ctx)
    t1 = time.time()
    inp = "\n".join(_model_line(c[2]) for c in cases) + "\n"
    p = subprocess.run([exe], input=inp, stdout=subprocess.PIPE, stderr=subprocess.PIPE, text=True, timeout=900)
    lines = p.stdout.split("\n")
    if p.returncode != 0 or len(lines) < len(cases):
        raise fw.CoqEvalError("extracted model failed (rc=%s): %s" % (p.returncode, p.stderr[-1000:]))
    t2 = time.time()
    bad = []
    for i, c in enumerate(cases):
        obj = c[2]
        if "obs" in obj:
            if not _agree_read(obj["obs"], lines[i]):
                bad.append((i, lines[i]))
        else:
            items = lines[i].split(" | ")
            if len(items) != len(obj["writes"]) or not all(_agree_write(o, it) for (_, _, o), it in zip(obj["writes"], items)):
                bad.append((i, lines[i]))
    # the same model evaluated by the Coq kernel's vm on a sample (all cases in the thorough tier up to a cap)
    n_vm = (6000 if mode == "read" else 1500) if ctx.thorough() else (400 if mode == "read" else 100)
    idxs = sorted(ctx.rng.sample(range(len(cases)), min(n_vm, len(cases))))
    sample = [coq_terms(cases[i][2]) + (cases[i][2],) for i in idxs]
    if mode == "read":
        runner = fw.CoqCases(ctx, tag, gen_bits.COQ_HEADER, "run_read_case", "read_out_eqb",
                             "(acc * (nat * Z))", "(option robs)", shard=100)
    else:
        runner = fw.CoqCases(ctx, tag, gen_bits.COQ_HEADER, "run_write_case", "write_out_eqb",
                             "(acc * (nat * Z) * list (cty * Z))", "(list (option wobs'))", shard=25)
    t3 = time.time()
    vm_bad = runner.run(sample)
    ctx.extra.setdefault("timing_s", {})["model"] = dict(extract_build=round(t1 - t0, 1), extracted_run=round(t2 - t1, 1),
                                                         compare=round(t3 - t2, 1), vm_compute_sample=round(time.time() - t3, 1))
    ctx.extra["cases_evaluated_by_extracted_model"] = len(cases)
    ctx.extra["cases_evaluated_by_vm_compute"] = len(sample)
    known = {i for i, _ in bad}
    for k, out in vm_bad:
        if idxs[k] not in known:
            bad.append((idxs[k], out))
    return bad


def search_spec(ctx, mode, accs, opt):
    """The (c, o, w) space of the failing accessors' kinds, with boundary contents, against the SPEC on real C++."""
    descs, seen = [], set()
    for acc in accs[:4]:
        for (c, o, w) in gen_bits.triples_all():
            if c != acc.c:
                continue
            if acc.kind == "flag" and w != 1 or acc.kind == "float" and w not in (32, 64):
                continue
            if acc.kind == "enum" and w > acc.ut[1]:
                continue
            d = dict(order=acc.order, byte_offset=acc.boff, container_bytes=c, path=[(o, w)], kind=acc.kind, width=w, enum=acc.enum)
            k = json.dumps(d, sort_keys=True)
            if k not in seen:
                seen.add(k)
                descs.append(d)
    descs = descs[:1600]
    mods = [gen_bits.build_custom("s%d" % i, descs[i:i + 100], opt=opt) for i in range(0, len(descs), 100)]
    _, n_bad, _ = evaluate(ctx, mods, mode, "search", count=False)
    return n_bad


def load_corpus(prop):
    """corpus/Cxx/*.json: {"optimizations": bool, "accessors": [describe...], "cases": {idx: {...}}}"""
    mods, given = [], {}
    for k, p in enumerate(sorted(glob.glob(os.path.join(fw.VERIF, "corpus", prop, "*.json")))):
        d = json.load(open(p))
        m = gen_bits.build_custom("c%d" % k, d["accessors"], opt=d.get("optimizations", True))
        mods.append(m)
        given[m.name] = {int(i): v for i, v in d["cases"].items()}
    return mods, given


def replay_module(path):
    d = json.load(open(path))
    r = d.get("replay", d)
    m = gen_bits.build_custom("r0", [r["accessor"]], opt=r.get("optimizations", True))
    buf = list(bytes.fromhex(r["buffer"])) if r.get("buffer") else []
    case = dict(read_bufs=[buf], write_bufs=[buf], writes=[])
    if "value" in r:
        t = [x for x in gen_bits.ARGTYS if gen_bits.cty_name(x) == r["argument_type"]]
        case["writes"] = [(t[0] if t else (False, 64), [r["value"]])]
    return [m], {m.name: {0: case}}


def run_bits(ctx, mode, prop):
    ctx.trusted = ["Coq 8.16.1 kernel, vm_compute", "g++ 12 (-std=c++14 -O0) as the semantics of the C++ sources",
                   "harness/gen_bits.py (module generator, arithmetic SPEC)", "harness/cpp_build.py", "harness/props/c02.py"]
    if getattr(ctx, "replay_path", None):
        mods, given = replay_module(ctx.replay_path)
        cases, n_bad, _ = evaluate(ctx, mods, "both", "replay", given=given)
        ctx.obligation("replay: %d observation(s) contradict the SPEC" % n_bad, n_bad == 0)
        return
    # corpus first
    cmods, cgiven = load_corpus(prop)
    all_cases = []
    if cmods:
        n_viol = len(ctx.violations)
        cc, n_bad, _ = evaluate(ctx, cmods, mode, "corpus", given=cgiven)
        ctx.obligation("corpus: %d modules replayed, %d observations contradict the SPEC%s"
                       % (len(cmods), n_bad, " (all of them listed known findings)" if n_bad and len(ctx.violations) == n_viol else ""),
                       len(ctx.violations) == n_viol)
        all_cases += cc
    mods = gen_bits.build_plan(ctx.rng, thorough=ctx.thorough(), kinds_per_triple=(2 if mode == "read" else 1))
    ctx.extra["modules"] = len(mods)
    ctx.extra["accessors"] = sum(len(m.accessors) for m in mods)
    n_viol = len(ctx.violations)
    gc, n_bad, failures = evaluate(ctx, mods, mode, "gen")
    all_cases += gc
    ctx.extra["observations_contradicting_the_spec"] = n_bad
    ctx.obligation("spec: %d C++ observations of %d accessors in %d generated modules agree with the arithmetic reference "
                   "(%d contradict it, all of them listed known findings)" % (ctx.evaluations, ctx.extra["accessors"], len(mods), n_bad)
                   if n_bad and len(ctx.violations) == n_viol else
                   "spec: %d C++ observations of %d accessors in %d generated modules agree with the arithmetic reference"
                   % (ctx.evaluations, ctx.extra["accessors"], len(mods)),
                   len(ctx.violations) == n_viol and not failures)
    # the MemoryAccessor / ContiguousBuffer layer against Bits/Accessor.v (harness/accessor_x.py)
    t_acc = time.time()
    accessor_x.views(ctx, all_cases, mode)
    accessor_x.micro(ctx, mode)
    ctx.extra.setdefault("timing_s", {})["accessor_layer"] = round(time.time() - t_acc, 1)
    try:
        bad = model_compare(ctx, mode, all_cases, mode)
    except fw.CoqEvalError as ex:
        ctx.obligation("correspondence: model evaluation", False)
        ctx.violation("model-eval", "Coq evaluation of the cases failed: %s" % str(ex)[-500:],
                      dict(kind="correspondence", correspondence="Bits.Exec.run_%s_case vs generated C++" % mode), found_input=False)
        return
    ctx.obligation("correspondence: model (extracted; a sample also by vm_compute) and generated C++ agree on %d cases" % len(all_cases), not bad)
    # a disagreement on a case whose C++ observation already contradicts the SPEC is reported there
    fresh = [(i, out) for i, out in bad if not all_cases[i][2]["spec_bad"]]
    if fresh:
        accs = [all_cases[i][2]["acc"] for i, _ in fresh]
        opt = all_cases[fresh[0][0]][2]["m"].opt
        ctx.note("%d cases: model and C++ disagree although the C++ observation matches the SPEC" % len(fresh))
        # a concrete failing input already in hand (an unlisted violation of the SPEC) makes the wider search unnecessary
        found = any(v["found_input"] for v in ctx.violations) or search_spec(ctx, mode, accs, opt)
        if not found:
            i, out = fresh[0]
            obj = all_cases[i][2]
            ctx.violation("model-correspondence:" + obj["acc"].kind,
                          "model and generated C++ disagree (%d cases), no SPEC violation found in the (c,o,w) space" % len(fresh),
                          _replay(obj["m"], obj["acc"], buffer=gen_bits.hexs(obj["root"]),
                                  correspondence="Bits.Exec.run_%s_case vs generated C++" % mode,
                                  coq_input=coq_terms(obj)[0], cpp=coq_terms(obj)[1], model_outputs=out[:2000]),
                          found_input=False)


def run(ctx):
    ctx.rule = ("accessors: every width 1..64 at bit offsets {0,1,7,8c-w} of bits containers of c=1..8 bytes (thorough: every "
                "(c,o,w) triple), kinds UInt/Int/Bcd/Flag/Float/enums (signed and unsigned, maximum_bits 8..64) rotating, "
                "nested bits, struct-level scalars at byte offsets 0..4, LittleEndian/BigEndian/Null; modules alternate between "
                "the optimised runtime and EMBOSS_NO_OPTIMIZATIONS; contents: field bits in {0, all ones, sign bit, max positive, "
                "1, random, BCD 9/10 boundaries, float specials} over backgrounds {0, 1, random}, plus truncated buffers; "
                "a case is one (accessor, buffer); non-trivial when the field's bytes are present")
    ctx.rule += ("; every accessor of a 2/4/8-byte container, and a third of the others, is observed a second time through views with "
                 "static alignment A in {2,4,8} placed at an address k mod A (same buffers)")
    ctx.assumptions = ["the static (alignment, offset) claim of the root buffer holds (the caller's obligation: MakeAlignedView / "
                       "ContiguousBuffer<_, A, K> over a pointer that is K mod A) and the back end's <kSubAlignment, kSubOffset> bound the "
                       "field's run-time start (C05); under these aligned_reads_agree is now a theorem, no longer an assumption",
                       "fields carry no [requires] attribute (Parameters::ValueIsOk is constant true); the generated struct code that "
                       "produces the field's view is C01's subject", "Float: bit pattern only"]
    ctx.audit()
    ctx.check_theorems("EmbossV.Bits.Properties_C02", "Bits/Properties_C02.v", expect_min=28)
    run_bits(ctx, "read", "C02")
