"""C02 -- scalar fields decode with the documented byte order, bit numbering and format.

Also hosts the runner shared with C03 (`run_bits`): generated modules -> real embossc -> real header ->
C++ driver; every observation is compared (1) with the arithmetic SPEC in gen_bits.py (a direct test of the
property; a contradiction is a concrete failing input) and (2) with the Coq model (Bits/Exec.v evaluated by
vm_compute; this is the tie of the theorems to the source).
"""
import glob
import json
import os

from harness import fw, gen_bits, cpp_build

META = {
    "technique": "Coq proofs about a Gallina mirror of the C++ runtime's scalar read path (C++ integer semantics explicit) + differential correspondence through generated code",
    "level_text": "Machine-checked theorems (Coq 8.16, no axioms), for every container size 1..8 bytes, byte order, bit offset, width 1..64 and all contents: the mirrored read path (MemoryAccessor load, memcpy+bswap and portable loops -> BitBlock -> OffsetBitBlock::ReadUInt -> UIntView / IntView::ConvertToSigned (both branches) / BcdView::ConvertToBinary and IsBcd / FlagView / EnumView / FloatView bit pattern) returns the documented value of exactly the field's bits, without undefined behaviour or failed CHECK, in a value type wide enough. For signed enums narrower than their underlying type the faithful model refutes the property (finding F1, theorem enum_signed_read_refuted) and the strongest true statement (width = underlying width) is proved. The model is tied to /repo on every run: generated modules are compiled by the working tree's embossc and g++, and every accessor's Ok/IsComplete/Read/sizeof/signedness is compared with the model (vm_compute) and with an independent arithmetic reference.",
    "level_note": "Trusted: Coq kernel + vm_compute; g++ 12 as the semantics of C++ (integer promotion rules and GCC's implementation-defined choices are written into Bits/Model.v section 1); harness/gen_bits.py (generator, SPEC reference) and harness/cpp_build.py. Modelled, not verified: the C++ sources. Float: only the bit pattern is modelled (memcpy identity); [requires] validators and the generated struct code are C01's subject.",
}

N_REPLAY_KEEP = 5


def _jobs_for(ctx, mods, mode, given=None):
    jobs, info = [], {}
    for m in mods:
        drv, cases = gen_bits.driver_and_cases(m, ctx.rng, mode=mode, given=(given or {}).get(m.name))
        jobs.append(cpp_build.CppJob(m.name, m.text(), drv, defines=[] if m.opt else ["EMBOSS_NO_OPTIMIZATIONS"]))
        info[m.name] = (m, cases)
    return jobs, info


def _replay(m, acc, **kw):
    d = dict(kind="accessor", module=m.text(), namespace=m.name, optimizations=m.opt,
             accessor=acc.describe())
    d.update(kw)
    return d


def evaluate(ctx, mods, mode, tag, given=None, count=True):
    """Build + run the modules, compare every observation with the SPEC, return Coq cases.

    Returns (coq_cases, n_spec_violations, build_failures)."""
    jobs, info = _jobs_for(ctx, mods, mode, given)
    results = cpp_build.run_jobs(os.path.join(ctx.bdir, "cpp_" + tag), jobs, parallel=16, timeout=600)
    coq_cases, n_bad, failures = [], 0, []
    for name in sorted(results, key=lambda n: int(n[1:]) if n[1:].isdigit() else 0):
        r = results[name]
        m, cases = info[name]
        if not r.ok:
            failures.append(r)
            ctx.violation("cpp-build:" + r.stage,
                          "generated module %s: stage %s failed (rc=%s): %s" % (name, r.stage, r.rc, r.log[-400:]),
                          dict(kind="build", module=m.text(), stage=r.stage, log=r.log[-3000:]), found_input=False)
            continue
        reads, writes, end = gen_bits.parse_lines(r.lines)
        if not end:
            ctx.violation("cpp-build:output", "driver of %s did not finish" % name,
                          dict(kind="build", module=m.text()), found_input=False)
            continue
        for acc in m.accessors:
            cs = cases[acc.id]
            if mode != "write":
                for b, root in enumerate(cs["read_bufs"]):
                    o = reads.get((acc.id, b))
                    if o is None:
                        ctx.violation("cpp-build:output", "missing observation", dict(kind="build", module=m.text()), found_input=False)
                        continue
                    if count:
                        ctx.count("read:%s" % acc.kind)
                        ctx.count("order:%s" % acc.order)
                        ctx.count("container-bytes:%d" % acc.c)
                        ctx.count("width:%02d-%02d" % ((acc.w - 1) // 8 * 8 + 1, (acc.w - 1) // 8 * 8 + 8))
                        ctx.count("depth:%d" % len(acc.path))
                        ctx.count("opt" if m.opt else "portable")
                        ctx.case(("r", acc.key(), bytes(root), m.opt), nontrivial=gen_bits.spec_complete(acc, root),
                                 sample=dict(accessor=acc.describe(), buffer=gen_bits.hexs(root), cpp=o["line"]))
                    bad = gen_bits.check_read(acc, root, o)
                    if bad:
                        n_bad += 1
                        key, msg, exp = bad
                        ctx.violation(key, "%s %s width %d at bit %d of %d-byte %s container, buffer %s: %s" % (
                            acc.kind, acc.enum or "", acc.w, acc.bit_offset, acc.c, acc.order, gen_bits.hexs(root), msg),
                            _replay(m, acc, buffer=gen_bits.hexs(root), observed=o["line"], expected=exp), found_input=True)
                    coq_cases.append(("(%s, %s)" % (gen_bits.coq_acc(acc, m.opt), gen_bits.coq_buf(root)),
                                      gen_bits.coq_read_expected(o),
                                      dict(m=m, acc=acc, root=root, obs=o, spec_bad=bool(bad))))
            if mode != "read":
                for b, root in enumerate(cs["write_bufs"]):
                    ws, exps, objs, any_bad = [], [], [], False
                    for ti, (t, vals) in enumerate(cs["writes"]):
                        t = tuple(t)
                        for i, v in enumerate(vals):
                            o = writes.get((acc.id, b, ti, i))
                            if o is None:
                                ctx.violation("cpp-build:output", "missing observation", dict(kind="build", module=m.text()), found_input=False)
                                continue
                            if count:
                                ctx.count("write:%s" % acc.kind)
                                ctx.count("argty:%s" % gen_bits.cty_name(t))
                                ctx.count("order:%s" % acc.order)
                                ctx.count("container-bytes:%d" % acc.c)
                                ctx.count("opt" if m.opt else "portable")
                                lo, hi = gen_bits.field_range(acc)
                                ctx.count("value:" + ("in-range" if lo <= v <= hi else "out-of-range"))
                                ctx.case(("w", acc.key(), bytes(root), t, v, m.opt), nontrivial=gen_bits.spec_complete(acc, root),
                                         sample=dict(accessor=acc.describe(), buffer=gen_bits.hexs(root),
                                                     argument_type=gen_bits.cty_name(t), value=v, cpp=o["line"]))
                            bad = gen_bits.check_write(acc, root, t, v, o)
                            if bad:
                                n_bad += 1
                                any_bad = True
                                key, msg, exp = bad
                                ctx.violation(key, "%s %s width %d at bit %d of %d-byte %s container, buffer %s, argument (%s)%d: %s" % (
                                    acc.kind, acc.enum or "", acc.w, acc.bit_offset, acc.c, acc.order, gen_bits.hexs(root),
                                    gen_bits.cty_name(t), v, msg),
                                    _replay(m, acc, buffer=gen_bits.hexs(root), argument_type=gen_bits.cty_name(t), value=v,
                                            observed=o["line"], expected=exp), found_input=True)
                            ws.append("(%s, %s)" % (gen_bits.coq_cty(t), gen_bits.coq_z(v)))
                            exps.append(gen_bits.coq_write_expected(o))
                            objs.append((t, v, o))
                    if ws:
                        coq_cases.append(("(%s, %s, [%s])" % (gen_bits.coq_acc(acc, m.opt), gen_bits.coq_buf(root), "; ".join(ws)),
                                          "[%s]" % "; ".join(exps),
                                          dict(m=m, acc=acc, root=root, writes=objs, spec_bad=any_bad)))
    return coq_cases, n_bad, failures


def model_compare(ctx, mode, coq_cases, tag):
    if mode == "read":
        runner = fw.CoqCases(ctx, tag, gen_bits.COQ_HEADER, "run_read_case", "read_out_eqb",
                             "(acc * (nat * Z))", "(option robs)", shard=400)
    else:
        runner = fw.CoqCases(ctx, tag, gen_bits.COQ_HEADER, "run_write_case", "write_out_eqb",
                             "(acc * (nat * Z) * list (cty * Z))", "(list (option wobs'))", shard=150)
    return runner.run(coq_cases)


def search_spec(ctx, mode, accs, opt):
    """The (c, o, w) space of the failing accessors' kinds, with boundary contents, against the SPEC on real C++."""
    descs, seen = [], set()
    for acc in accs[:4]:
        for (c, o, w) in gen_bits.triples_all():
            if c != acc.c:
                continue
            if acc.kind == "flag" and w != 1 or acc.kind == "float" and w not in (32, 64):
                continue
            if acc.kind == "enum" and w > acc.ut[1]:
                continue
            d = dict(order=acc.order, byte_offset=acc.boff, container_bytes=c, path=[(o, w)], kind=acc.kind, width=w, enum=acc.enum)
            k = json.dumps(d, sort_keys=True)
            if k not in seen:
                seen.add(k)
                descs.append(d)
    descs = descs[:1600]
    mods = [gen_bits.build_custom("s%d" % i, descs[i:i + 100], opt=opt) for i in range(0, len(descs), 100)]
    _, n_bad, _ = evaluate(ctx, mods, mode, "search", count=False)
    return n_bad


def load_corpus(prop):
    """corpus/Cxx/*.json: {"optimizations": bool, "accessors": [describe...], "cases": {idx: {...}}}"""
    mods, given = [], {}
    for k, p in enumerate(sorted(glob.glob(os.path.join(fw.VERIF, "corpus", prop, "*.json")))):
        d = json.load(open(p))
        m = gen_bits.build_custom("c%d" % k, d["accessors"], opt=d.get("optimizations", True))
        mods.append(m)
        given[m.name] = {int(i): v for i, v in d["cases"].items()}
    return mods, given


def replay_module(path):
    d = json.load(open(path))
    r = d.get("replay", d)
    m = gen_bits.build_custom("r0", [r["accessor"]], opt=r.get("optimizations", True))
    buf = list(bytes.fromhex(r["buffer"])) if r.get("buffer") else []
    case = dict(read_bufs=[buf], write_bufs=[buf], writes=[])
    if "value" in r:
        t = [x for x in gen_bits.ARGTYS if gen_bits.cty_name(x) == r["argument_type"]]
        case["writes"] = [(t[0] if t else (False, 64), [r["value"]])]
    return [m], {m.name: {0: case}}


def run_bits(ctx, mode, prop):
    ctx.trusted = ["Coq 8.16.1 kernel, vm_compute", "g++ 12 (-std=c++14 -O0) as the semantics of the C++ sources",
                   "harness/gen_bits.py (module generator, arithmetic SPEC)", "harness/cpp_build.py", "harness/props/c02.py"]
    if getattr(ctx, "replay_path", None):
        mods, given = replay_module(ctx.replay_path)
        cases, n_bad, _ = evaluate(ctx, mods, "both", "replay", given=given)
        ctx.obligation("replay: %d observation(s) contradict the SPEC" % n_bad, n_bad == 0)
        return
    # corpus first
    cmods, cgiven = load_corpus(prop)
    all_cases = []
    if cmods:
        cc, n_bad, _ = evaluate(ctx, cmods, mode, "corpus", given=cgiven)
        ctx.obligation("corpus: %d modules replayed, %d observations contradict the SPEC" % (len(cmods), n_bad), n_bad == 0)
        all_cases += cc
    mods = gen_bits.build_plan(ctx.rng, thorough=ctx.thorough(), kinds_per_triple=(2 if mode == "read" else 1))
    ctx.extra["modules"] = len(mods)
    ctx.extra["accessors"] = sum(len(m.accessors) for m in mods)
    gc, n_bad, failures = evaluate(ctx, mods, mode, "gen")
    all_cases += gc
    ctx.obligation("spec: %d C++ observations of %d accessors in %d generated modules agree with the arithmetic reference"
                   % (ctx.evaluations, ctx.extra["accessors"], len(mods)), n_bad == 0 and not failures)
    try:
        bad = model_compare(ctx, mode, all_cases, mode)
    except fw.CoqEvalError as ex:
        ctx.obligation("correspondence: model evaluation", False)
        ctx.violation("model-eval", "Coq evaluation of the cases failed: %s" % str(ex)[-500:],
                      dict(kind="correspondence", correspondence="Bits.Exec.run_%s_case vs generated C++" % mode), found_input=False)
        return
    ctx.obligation("correspondence: model (vm_compute) and generated C++ agree on %d cases" % len(all_cases), not bad)
    # a disagreement on a case whose C++ observation already contradicts the SPEC is reported there
    fresh = [(i, out) for i, out in bad if not all_cases[i][2]["spec_bad"]]
    if fresh:
        accs = [all_cases[i][2]["acc"] for i, _ in fresh]
        opt = all_cases[fresh[0][0]][2]["m"].opt
        found = search_spec(ctx, mode, accs, opt)
        if not found:
            i, out = fresh[0]
            obj = all_cases[i][2]
            ctx.violation("model-correspondence:" + obj["acc"].kind,
                          "model and generated C++ disagree (%d cases), no SPEC violation found in the (c,o,w) space" % len(fresh),
                          _replay(obj["m"], obj["acc"], buffer=gen_bits.hexs(obj["root"]),
                                  correspondence="Bits.Exec.run_%s_case vs generated C++" % mode,
                                  coq_input=all_cases[i][0], cpp=all_cases[i][1], model_outputs=out[:2000]),
                          found_input=False)


def run(ctx):
    ctx.rule = ("accessors: every width 1..64 at bit offsets {0,1,7,8c-w} of bits containers of c=1..8 bytes (thorough: every "
                "(c,o,w) triple), kinds UInt/Int/Bcd/Flag/Float/enums (signed and unsigned, maximum_bits 8..64) rotating, "
                "nested bits, struct-level scalars at byte offsets 0..4, LittleEndian/BigEndian/Null; modules alternate between "
                "the optimised runtime and EMBOSS_NO_OPTIMIZATIONS; contents: field bits in {0, all ones, sign bit, max positive, "
                "1, random, BCD 9/10 boundaries, float specials} over backgrounds {0, 1, random}, plus truncated buffers; "
                "a case is one (accessor, buffer); non-trivial when the field's bytes are present")
    ctx.assumptions = ["fields carry no [requires] attribute (Parameters::ValueIsOk is constant true); the generated struct code that "
                       "produces the field's view is C01's subject", "Float: bit pattern only"]
    ctx.audit()
    ctx.check_theorems("EmbossV.Bits.Properties_C02", "Bits/Properties_C02.v", expect_min=10)
    run_bits(ctx, "read", "C02")
