"""C14 — physical layout and attribute rules are enforced exactly as documented."""
import glob
import multiprocessing
import os
import re

from harness import fw, types_x as tx, gen_typed as gt, gen_c14x as gx

META = {
    "technique": "Coq proof that a Gallina mirror of the front end's layout/attribute passes (check_early_constraints, attribute_checker.normalize_and_verify, constraints.check_constraints) and of the C++ back end's attribute verification (header_generator._propagate_defaults_and_verify_attributes) decides the documented rules, for every attribute/reserved-word table; string validators of (cpp) namespace / enum_case modelled as scanners and proved to decide their grammars; prelude static_requirements evaluated with the C05 model of ir_util.constant_value; tables regenerated each run (prelude.emb through the real front end; front-end and (cpp) attribute tables, C++ reserved words, supported enum cases by import+introspection; reserved_words from the file; the namespace regular expressions compared with the ones the scanner was proved against) + differential correspondence on generated realisable modules, boundary variants and single-rule violations (verdict of front end and back end, effective attributes) and on generated attribute strings (function level); second extension: user-defined `external` types inside the layout model itself (type references RExt, m_externals: attribute table of the external scope, addressable_unit_size present and 1 or 8, fixed_size_in_bits against field size and explicit size, static_requirements translated to the C05 expression language and evaluated with $static_size_in_bits / $is_statically_sized by the C05 model of ir_util.constant_value, unit of the external in struct / bits and for the byte order), constancy of static references (target classified through ir_util.find_object), [expected_back_ends] as a scanner proved to decide its grammar (the regular expression in attribute_checker._valid_back_ends is compared with the one the scanner was written against, fail closed; 300 generated strings compared at function level)",
    "level_text": "Machine-checked theorems (Coq 8.16, no axioms), for ALL modules of the modelled IR subset and ALL tables. check_layout_iff_realisable: documented width ranges, enum range vs maximum_bits/is_signed, bits fixed-size <= 64 with bit-oriented members only, array element rules with only the outermost length omitted, explicit size = fixed size, byte order present iff it matters and Null only for one-unit fields, attribute scope/multiplicity/value tables, reserved words, integer parameter widths. check_layout_x_iff_realisable_x extends it with: the (cpp) attribute table at every attribute-bearing node of every module (namespace only on the module and not defaultable, enum_case $default on module/struct/bits/enum and plain on enum values, nothing on fields/externals, no duplicates, string values), namespace_rule (optional leading ::, non-empty ::-separated list of C++ identifiers padded by whitespace, none reserved; empty/global/invalid/reserved classified as the back end does), enum_case_rule (comma-separated padded names, optional trailing comma, non-empty, distinct, supported), [requires] only on non-array integer/enumeration/boolean fields, integer parameters need and enum parameters must not have an explicit width, gate64_rule (every run-time integer (sub)expression fits uint64 or int64 and no operation mixes a uint64-only with an int64-only clause), imported modules (type tables span all modules of the IR; each imported module's own attributes and back-end declarations). prelude_requirements, defaults_inherited, struct_fixed_size_spec as before. SECOND EXTENSION. User-defined externals are part of check_layout_iff_realisable / check_layout_x_iff_realisable_x (re-proved): external_addressable_unit_rule ([addressable_unit_size] present, 1 or 8), external_unit_rule (that unit decides bits membership and the need for a byte order), external_requirements_rule (static_requirements, bound to the size the field gives the type, must be the constant true; none = no requirement), external_range_requirement (a requirement written `$is_statically_sized && lo <= $static_size_in_bits <= hi` means exactly lo <= w <= hi), fixed_size_in_bits of an external treated as the fixed size of a structure is (explicit size equal, field size equal / large enough, array elements fixed-size and whole bytes in a struct). check_layout_y_iff_realisable_y adds: static_reference_rule (every static reference that reaches check_constraints resolves to a constant enum value or a virtual field with a constant value), expected_back_ends_rule (blank, or comma-separated names [a-z][a-z0-9_]* padded by whitespace with an optional trailing comma), expected_back_ends_members (accepted qualifiers = trimmed comma-separated pieces), back_end_declaration_rule for every module of the IR. parameter_names_checked: an accepted module has no runtime parameter named by a reserved word (rule added to the front end by /repo 8d5ef9f; old_parameter_names_unchecked_refuted documents the earlier checker).",
    "level_note": "Trusted: Coq kernel + vm_compute; harness/types_x.py (LayoutTranslator, ExtTranslator; ir_util.constant_value and the bounds of expression_bounds are read from the IR, C05 covers them; the roots of the 64-bit gate are collected with traverse_ir and the arguments of the compiler's own traversal); harness/gen_typed.py decides the documented verdict of each generated case by construction. Modelled, not verified: the Python source. Read from the IR rather than modelled: whether the target of a static reference is constant (ir_util.is_constant_type of the virtual field's read_transform, ir_util.is_constant of the enum value: expression_bounds, property C05), the value kind of a field of a user-defined external for [requires] (type_check.unbounded_expression_type_for_physical_type, i.e. is_integer). Not modelled (counted out-of-model): runtime parameters of a user-defined external type (with an explicit width expression_bounds raises AssertionError 'Unknown integral type'; without one check_early_constraints rejects), static_requirements that use operators outside {&&, ||, comparisons, ==/!= on booleans, + - *, ?:, $max} or refer to other objects, static references to physical fields / parameters (rejected by type_check before the layout passes), non-ASCII characters in attribute strings.",
}

HEADER = "Require Import EmbossV.Bounds.Model EmbossV.Layout.Model EmbossV.Layout.Exec EmbossV.Layout.ModelExt EmbossV.Layout.ExecExt EmbossV.Layout.ModelExt2 EmbossV.Layout.ExecExt2.\nFrom Coq Require Import String.\nOpen Scope string_scope.\nOpen Scope Z_scope.\n"


def crash_key(crash):
    fn = crash["function"]
    if crash["file"] == "attribute_util.py" and fn in ("_is_boolean", "_is_constant_boolean"):
        return "attribute-crash-boolean-checker"
    if fn == "_assert_integer_constraints":
        return "bounds-assert:zero-width-leaf"
    return "crash:%s:%s" % (crash["exception"].split("(")[0], fn)


def load_corpus_cases():
    out = []
    for p in sorted(glob.glob(os.path.join(fw.VERIF, "corpus", "C14", "*.emb"))):
        text = open(p).read()
        first = text.split("\n", 1)[0]
        exp = {}
        if first.startswith("# expect"):
            for kv in first[1:].split():
                if "=" in kv:
                    k, v = kv.split("=", 1)
                    exp[k] = v
        out.append((os.path.basename(p), text, exp))
    return out


def run(ctx):
    ctx.rule = ("bases: random well-typed realisable modules (module- or struct-level $default byte_order, enums with "
                "maximum_bits/is_signed, bits incl. a full 64-bit one, anonymous bits, arrays, parameters, attributes); "
                "cases: every entry of the C14 catalogue applied to the base: boundary variants that stay realisable "
                "(widths 1 and 64, 64-bit floats, enum values at both range ends, Null on a one-byte field ...) and single-rule "
                "violations (widths 0/65/72, 33/24/16-bit floats, 65-bit bits, byte-oriented member in bits, dynamic array "
                "element, inner dimension omitted/dynamic, missing/extra/Null byte order, attribute in wrong scope / duplicated / "
                "wrong value type / not defaultable / unknown, reserved words ...); plus every testdata/*.emb; "
                "extension: a small module with one site per attribute scope carrying (cpp) namespace / enum_case at every scope x "
                "$default x good and bad values (empty, global, invalid, reserved; empty, duplicate, unsupported case), duplicates, wrong value "
                "kinds, unknown (cpp) names; [requires] on integer/enum/boolean/virtual (ok) and array/structure/float/opaque (violation) fields; "
                "parameter forms; expressions at the uint64 maximum / int64 minimum and one beyond, mixed signedness; fields of imported "
                "struct/enum/bits types under every layout rule and rules broken inside the imported module; the deterministic family of "
                "sizes that are constant without being literals (constant let, arithmetic on constant lets, static reference, literal) for "
                "size-less scalars/enums, explicit widths and fixed-size structs; 900+ generated namespace and 450+ enum_case strings "
                "(grammar-directed with whitespace incl. control characters, single-character insertions/deletions) against the back end's "
                "validators; second extension: user-defined externals (144 modules: addressable unit 1/8/missing/0,2,4,7,9,16,64,-1,-8, every external "
                "attribute x scope x duplicate x $default x wrong value kind, fixed size 8..128 bits vs field one byte smaller / equal / larger, explicit "
                "size vs fixed size, static_requirements ranges at lo-1, lo, hi, hi+1 in bits and bytes, requirements on dynamic sizes, ==/?:/$max/arithmetic, "
                "byte- and bit-oriented externals in struct and bits with and without byte order, arrays, is_integer with [requires], nested and several "
                "externals); implicit Null byte order with no byte_order in scope (41 modules: arrays / single fields of 8- and 16-bit bits types declared "
                "before and after use, anonymous bits in [+1], [+2], [+n], UInt:8[4], explicit Null on one- and two-byte fields); static references (78 "
                "modules: constant / non-constant targets x let, field start, field size, array length, condition, [requires], type argument, enum value, "
                "maximum_bits); [expected_back_ends] (54 modules: well-formed and malformed lists, declared / undeclared qualifiers, value kinds, duplicates, "
                "scopes) and 300 generated list strings at function level; distinct by module text / string")
    ctx.trusted = ["Coq 8.16.1 kernel, vm_compute", "harness/types_x.py", "harness/gen_typed.py", "harness/props/c14.py",
                   "CPython 3.12 running the working tree's front end"]
    ctx.assumptions = ["the cases listed as not modelled in level_note are outside the model (counted)"]
    import time
    t_start = time.time()
    timing = ctx.extra.setdefault("timing_s", {})
    ctx.audit()
    ctx.check_theorems("EmbossV.Layout.Properties_C14", "Layout/Properties_C14.v", expect_min=40)

    timing["theorems"] = round(time.time() - t_start, 1)
    # ---- cases ---------------------------------------------------------------------------
    cases = []
    for nm, text, exp in load_corpus_cases():
        cases.append(("corpus:" + nm, text, "m.emb", None, None, exp))
    for p in sorted(glob.glob(os.path.join(fw.REPO, "testdata", "*.emb"))):
        rel = os.path.relpath(p, fw.REPO)
        if not ctx.thorough() and os.path.getsize(p) > 2500:
            ctx.count("skipped-in-quick-tier:large-testdata-file")
            continue
        cases.append(("testdata:" + rel, open(p).read(), rel, None, None, {}))
    n_base = 24 if ctx.thorough() else 2
    for i in range(n_base):
        base = gt.Base(ctx.rng, depth=ctx.rng.choice([1, 2, 2]))
        c = base.case()
        cases.append(("gen:%d:base" % i, c.text(), "m.emb", None, c, {}))
        for v in gt.c14_cases(base, ctx.rng) + gt.backend_cases(base, ctx.rng, n=(49 if ctx.thorough() else 24)):
            cases.append(("gen:%d:%s" % (i, v.rule), v.text(), "m.emb", None, v, {}))
    for k, v in enumerate(gt.default_scope_cases(ctx.rng, n=(24 if ctx.thorough() else 9))):
        cases.append(("scope:%d:%s" % (k, v.rule), v.text(), "m.emb", None, v, {}))
    # extension: (cpp) attributes at every scope, [requires] placement / parameter / 64-bit rules, imported types
    new_rule_cases = gt.cpp_cases(ctx.rng, ctx.thorough()) + gt.ext_cases(ctx.rng) + gt.import_cases(ctx.rng)
    for k, v in enumerate(new_rule_cases):
        cases.append(("ext:%d:%s" % (k, v.rule), v.text(), "m.emb", v.extra, v, {}))
    # sizes that are constant without being literals (constant let, arithmetic on constant lets, static reference):
    # deterministic family, whole in every run; verdicts by construction
    for k, v in enumerate(gt.constant_size_cases()):
        cases.append(("csize:%d:%s" % (k, v.rule), v.text(), "m.emb", None, v, {}))
    # second extension: user-defined externals; the implicit "Null" byte order (no byte_order in scope; deterministic)
    for fam, fam_cases in (("extern", gx.external_cases(ctx.rng)), ("null", gx.null_border_cases()),
                           ("sref", gx.static_ref_cases()), ("backends", gx.back_end_list_cases(ctx.rng))):
        for k, v in enumerate(fam_cases):
            cases.append(("%s:%d:%s" % (fam, k, v.rule), v.text(), "m.emb", v.extra, v, {}))
    order = sorted(range(len(cases)), key=lambda i: -len(cases[i][1]))
    pool = multiprocessing.Pool(min(fw.NPROC, 16))
    pending = pool.map_async(tx.analyse_c14, [(cases[i][1], cases[i][2], cases[i][3], fw.REPO) for i in order], chunksize=1)

    # ---- (T) tables ------------------------------------------------------------------
    tables_ok = True
    broken = None
    try:
        tabs = tx.attribute_tables()
        words = tx.reserved_words(fw.REPO)
        reqf, fixf = tx.prelude_table()
        ctabs, n_cpp_words, cpp_supported = tx.cpp_tables()
    except tx.TranslatorError as ex:
        tables_ok = False
        broken = str(ex)
        ctx.note("tables could not be regenerated: %s" % ex)
        ctx.obligation("regenerated tables (attribute tables, reserved words, prelude requirements)", False)
    if tables_ok:
        hdr = (HEADER + "Definition tabs_run : attr_tables := %s.\n" % tabs
               + "Definition words_run : list string := [%s].\n" % "; ".join(tx.coq_str(w) for w in words)
               + "Definition req_run : prelude -> expr := %s.\nDefinition fixed_run : prelude -> option Z := %s.\n" % (reqf, fixf)
               + "Definition T_run : tables := mk_tables tabs_run words_run req_run.\n"
               + "Definition C_run : cpp_tables := %s.\n" % ctabs)
        ctx.extra["cpp_reserved_words"] = n_cpp_words
        ctx.extra["cpp_supported_enum_cases"] = cpp_supported
        ctx.extra["reserved_words"] = len(words)
        ctx.extra["regenerated_prelude_requirements"] = reqf
        r = fw.CoqCases(ctx, "prelude", hdr, "(fun _ : unit => prelude_table_ok req_run fixed_run)", "Bool.eqb", "unit", "bool")
        same = not r.run([("tt", "true", None)])
        ctx.obligation("regenerated prelude static_requirements / fixed sizes = Layout.Model.prelude_req / prelude_fixed", same)
        tables_ok = same
    else:
        hdr = (HEADER + "Definition T_run : tables := ex_T.\nDefinition C_run : cpp_tables := ex_C.\n")

    timing["tables"] = round(time.time() - t_start, 1)
    results_sorted = pending.get()
    pool.close()
    pool.join()
    timing["analysis-done"] = round(time.time() - t_start, 1)
    results = [None] * len(cases)
    for k, i in enumerate(order):
        results[i] = results_sorted[k]

    seen = {}

    def viol(key, desc, replay, found=True):
        seen[key] = seen.get(key, 0) + 1
        ctx.violation(key, desc, replay, found_input=found)

    coq_cases = []
    base_bad = set()
    for (label, text, name, extra, case, exp), an in zip(cases, results):
        if label.startswith("gen:") and label.endswith(":base") and an["full"][0] != "ok":
            base_bad.add(label.split(":")[1])
    for (label, text, name, extra, case, exp), an in zip(cases, results):
        front_st, front_detail = an["full"]
        be = an.get("backend")
        # embossc = front end, then the C++ back end (whose first step verifies the (cpp) attributes)
        if front_st == "ok" and be is not None and be[0] != "ok":
            full_st, full_detail = be
        else:
            full_st, full_detail = front_st, front_detail
        if label.startswith("gen:") and not label.endswith(":base") and label.split(":")[1] in base_bad:
            # the base itself is rejected (reported once, with the base): its variants say nothing new
            ctx.count("skipped:variant-of-rejected-base")
            continue
        ctx.count("compiler:" + full_st + (":back-end" if front_st == "ok" and full_st != "ok" else ""))
        rule = case.rule if case is not None else exp.get("rule")
        replay = dict(kind="module", label=label, file=name, module=text, rule=rule, extra_files=extra,
                      mutated_line=(case.line if case is not None else None), compiler=full_st, detail=full_detail)
        want_accept = (case is not None and case.doc_realisable) or exp.get("expect") == "accept"
        want_reject = (case is not None and not case.doc_realisable) or exp.get("expect") == "reject"
        if full_st == "crash":
            viol(crash_key(full_detail), "compiler raised %s in %s on %s" % (full_detail["exception"], full_detail["function"], label), replay)
        elif want_accept and full_st != "ok":
            msg = re.sub(r"'[^']*'|\d+", "_", full_detail[0][2].split("\n")[0])[:80] if full_detail else "?"
            mutated = text.split("\n")[case.line - 1] if case is not None and case.line and 0 < case.line <= text.count("\n") else ""
            if "back-end" in (rule or "") and "$default byte_order" in mutated and "(" in mutated and msg.startswith("Attribute _ required"):
                key = "foreign-back-end-default-shadows-front-end-default"
            else:
                key = "realisable-module-rejected:%s" % msg
            viol(key, "%s rejected: %s" % (label, full_detail[:2]), replay)
            if key == "foreign-back-end-default-shadows-front-end-default":
                # reported with the module; the model follows the reference here, so no agreement is expected
                ctx.count("skipped:known-divergence-on-foreign-default")
                continue
        elif want_reject and full_st == "ok":
            viol("reserved-word-parameter-name-accepted" if str(rule).startswith("reserved-word:parameter-name") else
                 gt.C14_KNOWN.get(rule, "layout-accepts:%s" % rule), "unrealisable module accepted (rule %s, line %s)" % (rule, case.line if case else "?"), replay)
        elif want_reject and case is not None:
            ok_lines = set([case.line] + case.alt_lines)
            on_line = [e for e in full_detail if e[0] in ok_lines and not e[1]]
            if not on_line:
                nowhere = [e for e in full_detail if e[0] == 0]
                if nowhere:
                    viol("constraints-error-without-location:inner-array-dimension" if rule == "array-inner-dimension-omitted"
                         else "error-without-location:%s" % rule,
                         "rule %s (line %d): the error %r has no source location" % (rule, case.line, nowhere[0][2]), replay)
                else:
                    viol("error-site:%s" % rule, "rule %s planted on line %d; errors reported at %s" % (rule, case.line, [(e[0], e[1]) for e in full_detail][:4]), replay)
        if label.split(":")[0] in ("extern", "null", "sref", "backends") and case is not None:
            ctx.count("family:%s:%s" % (label.split(":")[0], "realisable-accepted" if case.doc_realisable and full_st == "ok" else
                                        "violation-rejected" if not case.doc_realisable and full_st == "errors" else "UNEXPECTED"))
        if label.startswith("ext:") and case is not None:
            # per new rule: both directions
            ctx.count("new-rule:%s:%s" % (rule, "accepted" if full_st == "ok" else "rejected"))
            ctx.count("new-rule-direction:%s" % ("realisable-accepted" if case.doc_realisable and full_st == "ok" else
                                                 "violation-rejected" if not case.doc_realisable and full_st == "errors" else "UNEXPECTED"))
        # --- model vs implementation ---
        lv = an["layout"][0]
        ctx.count("layout-verdict:" + lv)
        if an["oom"]:
            ctx.count("out-of-model:" + an["oom"].split(":")[0])
            if an["oom"].startswith("TRANSLATOR"):
                viol("translator", "IR translator failed on %s: %s" % (label, an["oom"][:300]), dict(replay, correspondence="types_x.LayoutTranslator"), found=False)
            continue
        ctx.case(("m", text, sorted((extra or {}).items())), nontrivial=True, sample={"label": label, "rule": rule, "compiler": lv})
        ctx.count("rule:" + str(rule).split(":")[0])
        for k, n in (an.get("ext_counts") or {}).items():
            ctx.count("model-input:" + k, n)
        if lv == "unmodelled-reject":
            ctx.count("skipped:rejected-only-by-unmodelled-check")
            continue
        verdict = (lv == "accept")
        bs = an.get("borders")
        ctx.count("effective-byte-orders-compared" if bs else "effective-byte-orders-not-available")
        # the back end runs only on what the front end accepts
        cpp = "None"
        if front_st == "ok" and be is not None and be[0] in ("ok", "errors"):
            cpp = "(Some %s)" % ("true" if be[0] == "ok" else "false")
            ctx.count("cpp-verdict-compared:" + be[0])
        coq_cases.append(("((%s,\n %s),\n %s)" % (an["ext"], an["ext2"], an["coq"]),
                          "(XExpect %s %s true %s)" % ("true" if verdict else "false", cpp, "(Some %s)" % bs if bs else "None"),
                          dict(label=label, text=text, rule=rule, an=an, case=case, extra=extra, full_st=full_st)))

    r = fw.CoqCases(ctx, "layout", hdr, "(run_layout_y T_run C_run)", "xout_agrees", "(ext_info * ext_info2 * module)", "xout", shard=24)
    bad = r.run(coq_cases) if coq_cases else []
    timing["layout-cases-evaluated"] = round(time.time() - t_start, 1)
    ctx.obligation("correspondence: %d modules: check_front_y(T_run) = the front end's verdict (attribute tables, layout incl. user-defined externals, [requires] placement, parameter rules, 64-bit gate, imported modules, constancy of static references, [expected_back_ends] syntax and declared qualifiers of every module), check_cpp(C_run) = the C++ back end's attribute verification, effective byte order of every field, maximum_bits/is_signed of every enum and fixed size of every structure = the unqualified attributes after normalisation" % len(coq_cases), not bad)
    shown = 0
    for idx, out in bad:
        a, b, obj = coq_cases[idx]
        case = obj["case"]
        full_st = obj["full_st"]
        # the concrete module is in hand: if the property itself fails on it, it has been reported above
        if case is not None and ((case.doc_realisable and full_st != "ok") or (not case.doc_realisable and full_st != "errors")):
            continue
        vtxt = "true" if obj["an"]["layout"][0] == "accept" else "false"
        be = obj["an"].get("backend")
        ctxt = ("true" if be[0] == "ok" else "false") if be is not None and be[0] in ("ok", "errors") else None
        flat = " ".join(out.split())
        same_verdicts = ("XModel %s " % vtxt) in flat and (ctxt is None or ("XModel %s %s " % (vtxt, ctxt)) in flat)
        if obj["an"].get("borders") and same_verdicts:
            # same verdict, different byte orders: by theorem defaults_inherited the model's value IS the nearest
            # enclosing $default, so the front end gave some field another byte order: a concrete failing module
            ctx.violation("effective-attributes-differ-from-documented",
                          "%s: the unqualified byte_order / maximum_bits / is_signed / fixed_size_in_bits after normalisation differ from what the reference gives (own attribute, nearest enclosing $default, Null; 64 / any negative value; largest field end)" % obj["label"],
                          dict(kind="module", module=obj["text"], extra_files=obj["extra"], rule=obj["rule"], theorem="defaults_inherited",
                               front_end_byte_orders=obj["an"]["borders"], model_outputs=out[:3000]), found_input=True)
            shown += 1
            continue
        ctx.violation("layout-model-mismatch", "model and compiler disagree on %s (compiler: %s)" % (obj["label"], b),
                      dict(kind="module", correspondence="Layout.ModelExt2.check_layout_y vs check_early_constraints+normalize_and_verify+check_constraints+header_generator._propagate_defaults_and_verify_attributes",
                           module=obj["text"], extra_files=obj["extra"], rule=obj["rule"], python=b, model_outputs=out[:1500]), found_input=False)
        shown += 1
        if shown >= 5:
            break

    # ---- string validators of the C++ back end, function level ------------------------------------
    if tables_ok:
        nstr = 4000 if ctx.thorough() else 900
        ns = gt.ns_strings(ctx.rng, nstr)
        ec = gt.ec_strings(ctx.rng, nstr // 2, cpp_supported)
        ns_cases, ec_cases = [], []
        for rule, sx in ns:
            try:
                cls, comps = tx.real_namespace_verdict(sx)
                ns_cases.append((tx.coq_bytes(sx), "(%s, [%s])" % (cls, "; ".join(tx.coq_bytes(x) for x in (comps if cls == "NsOk" or cls == "NsReserved" else []))), (rule, sx)))
            except tx.OutOfModel:
                ctx.count("out-of-model:namespace-string")
                continue
            ctx.case(("ns", sx), nontrivial=True)
            ctx.count("namespace-string:" + cls)
        for rule, sx in ec:
            try:
                ok, cs = tx.real_enum_case_verdict(sx)
                ec_cases.append((tx.coq_bytes(sx), "(%s, [%s])" % ("true" if ok else "false", "; ".join(tx.coq_bytes(x) for x in cs)), (rule, sx)))
            except tx.OutOfModel:
                ctx.count("out-of-model:enum-case-string")
                continue
            ctx.case(("ec", sx), nontrivial=True)
            ctx.count("enum-case-string:" + ("accepted" if ok else "rejected"))
        r1 = fw.CoqCases(ctx, "ns", hdr, "(run_ns (ct_reserved C_run))", "ns_out_eqb", "string", "(ns_class * list string)", shard=500)
        bad1 = r1.run(ns_cases)
        ctx.obligation("correspondence: %d strings: ns_classify / parse_ns = header_generator._verify_namespace_attribute (error class) and _get_namespace_components" % len(ns_cases), not bad1)
        r2 = fw.CoqCases(ctx, "ec", hdr, "(run_ec (ct_cases C_run))", "ec_out_eqb", "string", "(bool * list string)", shard=500)
        bad2 = r2.run(ec_cases)
        ctx.obligation("correspondence: %d strings: enum_case_okb / enum_cases = header_generator._verify_enum_case_attribute and _split_enum_case_values" % len(ec_cases), not bad2)
        for which, badl, cl in (("namespace", bad1, ns_cases), ("enum_case", bad2, ec_cases)):
            for idx, out in badl[:3]:
                # a value on which the scanner (proved to decide the documented grammar) and the back end differ
                ctx.violation("cpp-%s-validator-differs-from-grammar" % which,
                              "(cpp) %s value %r: back end says %s, the grammar decided by the model says %s" % (which, cl[idx][2][1], cl[idx][1], " ".join(out.split())[:200]),
                              dict(kind="attribute-value", attribute=which, value=cl[idx][2][1], theorem="namespace_rule" if which == "namespace" else "enum_case_rule",
                                   module='[(cpp) %s: "%s"]\nstruct Foo:\n  0 [+1]  UInt  x\n' % ("namespace" if which == "namespace" else "$default enum_case", cl[idx][2][1].replace("\\", "\\\\").replace('"', '\\"').replace("\n", "\\n"))),
                              found_input=True)

        # [expected_back_ends] strings: back_ends_okb / back_ends_of vs _valid_back_ends / _gather_expected_back_ends
        be_cases = []
        for sx in gx.be_strings(ctx.rng, 1200 if ctx.thorough() else 300):
            try:
                ok, got = tx.real_back_ends_verdict(sx)
                term = tx.coq_bytes(sx)
                exp = "(%s, [%s])" % ("true" if ok else "false", "; ".join(tx.coq_bytes(x) for x in sorted(got)))
            except tx.OutOfModel:
                ctx.count("out-of-model:back-ends-string")
                continue
            be_cases.append((term, exp, sx))
            ctx.case(("be", sx), nontrivial=True)
            ctx.count("back-ends-string:" + ("accepted" if ok else "rejected"))
        hdr_be = hdr + ("Definition be_agrees (a b : bool * list string) : bool := Bool.eqb (fst a) (fst b) && "
                        "forallb (fun x => str_in (\"\"%string :: snd a) x) (snd b) && forallb (fun x => str_in (snd b) x) (snd a).\n")
        r3 = fw.CoqCases(ctx, "be", hdr_be, "run_be", "be_agrees", "string", "(bool * list string)", shard=500)
        bad3 = r3.run(be_cases)
        ctx.obligation("correspondence: %d strings: back_ends_okb = attribute_checker._valid_back_ends accepts, back_ends_of (+ the empty qualifier) = _gather_expected_back_ends as a set" % len(be_cases), not bad3)
        for idx, out in bad3[:3]:
            sx = be_cases[idx][2]
            ctx.violation("expected-back-ends-validator-differs-from-grammar",
                          "[expected_back_ends: %r]: front end says %s, the grammar decided by the model says %s" % (sx, be_cases[idx][1], " ".join(out.split())[:200]),
                          dict(kind="attribute-value", attribute="expected_back_ends", value=sx, theorem="expected_back_ends_rule",
                               module='[expected_back_ends: "%s"]\nstruct Foo:\n  0 [+1]  UInt  x\n' % sx.replace("\\", "\\\\").replace('"', '\\"').replace("\n", "\\n")),
                          found_input=True)

    timing["strings-evaluated"] = round(time.time() - t_start, 1)
    # ---- a parameter named by a reserved word (repaired by /repo 8d5ef9f; theorem parameter_names_checked) ----------
    probe = "struct Foo(class: UInt:8):\n  0 [+1]  UInt  x\n"
    st_p, r_p = tx.compile_emb(probe, repo=fw.REPO)
    ctx.count("probe:reserved-word-parameter-name:" + st_p)
    lines_p = tx.error_lines(r_p) if st_p == "errors" else []
    ctx.obligation("probe: 'struct Foo(class: UInt:8)' is rejected on line 1", st_p == "errors" and any(e[0] == 1 and not e[1] for e in lines_p))
    if st_p == "ok":
        ctx.violation("reserved-word-parameter-name-accepted",
                      "a runtime parameter may be named by a reserved word ('struct Foo(class: UInt:8)' is accepted; the generated header "
                      "declares a constructor argument called 'class' and does not compile): the reserved-word list is not applied to parameter names",
                      dict(kind="module", module=probe, theorem="parameter_names_checked"), found_input=True)
    elif st_p == "errors" and not any(e[0] == 1 and not e[1] for e in lines_p):
        ctx.violation("error-site:reserved-word:parameter-name", "'struct Foo(class: UInt:8)': errors reported at %s, not on line 1" % [(e[0], e[1]) for e in lines_p][:4],
                      dict(kind="module", module=probe), found_input=True)
    elif st_p == "crash":
        ctx.violation(crash_key(tx._crash_plain(r_p)), "compiler crashed on the reserved-word parameter probe", dict(kind="module", module=probe), found_input=True)
    if not tables_ok and not [k for k in seen if not k.startswith(("bounds-assert", "attribute-crash", "constraints-error-without"))]:
        ctx.violation("layout-tables-changed", "regenerated tables differ from the ones the theorems are about",
                      dict(kind="table", theorem="check_layout_iff_realisable (t_req T = prelude_req) / prelude_requirements / check_layout_x_iff_realisable_x (C_run)",
                           detail=broken or "prelude_table_ok = false"), found_input=False)
    ctx.extra["violations_by_key"] = seen
