"""C14 — physical layout and attribute rules are enforced exactly as documented."""
import glob
import multiprocessing
import os
import re

from harness import fw, types_x as tx, gen_typed as gt

META = {
    "technique": "Coq proof that a Gallina mirror of attribute_checker.normalize_and_verify + constraints.check_constraints (on the modelled IR subset) decides the documented rules, for every attribute/reserved-word table; prelude static_requirements evaluated with the C05 model of ir_util.constant_value; tables regenerated each run (prelude.emb through the real front end, attribute tables by import+introspection, reserved_words from the file) + differential correspondence on generated realisable modules, boundary variants and single-rule violations",
    "level_text": "Machine-checked theorems (Coq 8.16, no axioms), for ALL modules of the modelled IR subset and ALL attribute and reserved-word tables: check_layout accepts <-> realisable (documented width ranges, enum range vs maximum_bits/is_signed, bits fixed-size <= 64 with bit-oriented members only, array element rules with only the outermost length omitted, explicit size = fixed size, byte order present iff it matters and Null only for one-unit fields, attribute scope/multiplicity/value tables, reserved words, integer parameter widths); prelude_requirements (UInt/Int/Bcd 1..64, Flag 1, Float 32|64) computed from the requirement expressions; $default byte_order inheritance = nearest enclosing default; _fixed_size_of_struct_or_bits = largest end of a physical field. The requirement expressions are compared each run with the translation of the working tree's prelude.emb; every generated case compares the mirror (on the regenerated tables) with the compiler and with what the catalogue says the reference demands.",
    "level_note": "Trusted: Coq kernel + vm_compute; harness/types_x.py (LayoutTranslator; ir_util.constant_value and the size bounds of expression_bounds are read from the IR, C05 covers them); harness/gen_typed.py decides the documented verdict of each generated case. Modelled, not verified: the Python source. Not modelled: the (cpp) back-end attribute tables (checked at header generation, not by parse_emboss_file), expected_back_ends syntax, user-defined externals, imported types, [requires] on arrays, the 64-bit gate (C05), constancy of static references; errors from those checks are excluded from the verdict comparison (counted).",
}

HEADER = "Require Import EmbossV.Bounds.Model EmbossV.Layout.Model EmbossV.Layout.Exec.\nFrom Coq Require Import String.\nOpen Scope string_scope.\nOpen Scope Z_scope.\n"


def crash_key(crash):
    fn = crash["function"]
    if crash["file"] == "attribute_util.py" and fn in ("_is_boolean", "_is_constant_boolean"):
        return "attribute-crash-boolean-checker"
    if fn == "_assert_integer_constraints":
        return "bounds-assert:zero-width-leaf"
    return "crash:%s:%s" % (crash["exception"].split("(")[0], fn)


def load_corpus_cases():
    out = []
    for p in sorted(glob.glob(os.path.join(fw.VERIF, "corpus", "C14", "*.emb"))):
        text = open(p).read()
        first = text.split("\n", 1)[0]
        exp = {}
        if first.startswith("# expect"):
            for kv in first[1:].split():
                if "=" in kv:
                    k, v = kv.split("=", 1)
                    exp[k] = v
        out.append((os.path.basename(p), text, exp))
    return out


def run(ctx):
    ctx.rule = ("bases: random well-typed realisable modules (module- or struct-level $default byte_order, enums with "
                "maximum_bits/is_signed, bits incl. a full 64-bit one, anonymous bits, arrays, parameters, attributes); "
                "cases: every entry of the C14 catalogue applied to the base: boundary variants that stay realisable "
                "(widths 1 and 64, 64-bit floats, enum values at both range ends, Null on a one-byte field ...) and single-rule "
                "violations (widths 0/65/72, 33/24/16-bit floats, 65-bit bits, byte-oriented member in bits, dynamic array "
                "element, inner dimension omitted/dynamic, missing/extra/Null byte order, attribute in wrong scope / duplicated / "
                "wrong value type / not defaultable / unknown, reserved words ...); plus every testdata/*.emb; distinct by module text")
    ctx.trusted = ["Coq 8.16.1 kernel, vm_compute", "harness/types_x.py", "harness/gen_typed.py", "harness/props/c14.py",
                   "CPython 3.12 running the working tree's front end"]
    ctx.assumptions = ["(cpp) back-end attribute tables, user externals, imported types and the checks listed in level_note are outside the model (counted)"]
    ctx.audit()
    ctx.check_theorems("EmbossV.Layout.Properties_C14", "Layout/Properties_C14.v", expect_min=10)

    # ---- cases ---------------------------------------------------------------------------
    cases = []
    for nm, text, exp in load_corpus_cases():
        cases.append(("corpus:" + nm, text, "m.emb", None, None, exp))
    for p in sorted(glob.glob(os.path.join(fw.REPO, "testdata", "*.emb"))):
        rel = os.path.relpath(p, fw.REPO)
        if not ctx.thorough() and os.path.getsize(p) > 2500:
            ctx.count("skipped-in-quick-tier:large-testdata-file")
            continue
        cases.append(("testdata:" + rel, open(p).read(), rel, None, None, {}))
    n_base = 24 if ctx.thorough() else 2
    for i in range(n_base):
        base = gt.Base(ctx.rng, depth=ctx.rng.choice([1, 2, 2]))
        c = base.case()
        cases.append(("gen:%d:base" % i, c.text(), "m.emb", None, c, {}))
        for v in gt.c14_cases(base, ctx.rng) + gt.backend_cases(base, ctx.rng, n=(49 if ctx.thorough() else 24)):
            cases.append(("gen:%d:%s" % (i, v.rule), v.text(), "m.emb", None, v, {}))
    for k, v in enumerate(gt.default_scope_cases(ctx.rng, n=(24 if ctx.thorough() else 9))):
        cases.append(("scope:%d:%s" % (k, v.rule), v.text(), "m.emb", None, v, {}))
    order = sorted(range(len(cases)), key=lambda i: -len(cases[i][1]))
    pool = multiprocessing.Pool(min(fw.NPROC, 16))
    pending = pool.map_async(tx.analyse_c14, [(cases[i][1], cases[i][2], cases[i][3], fw.REPO) for i in order], chunksize=1)

    # ---- (T) tables ------------------------------------------------------------------
    tables_ok = True
    broken = None
    try:
        tabs = tx.attribute_tables()
        words = tx.reserved_words(fw.REPO)
        reqf, fixf = tx.prelude_table()
    except tx.TranslatorError as ex:
        tables_ok = False
        broken = str(ex)
        ctx.note("tables could not be regenerated: %s" % ex)
        ctx.obligation("regenerated tables (attribute tables, reserved words, prelude requirements)", False)
    if tables_ok:
        hdr = (HEADER + "Definition tabs_run : attr_tables := %s.\n" % tabs
               + "Definition words_run : list string := [%s].\n" % "; ".join(tx.coq_str(w) for w in words)
               + "Definition req_run : prelude -> expr := %s.\nDefinition fixed_run : prelude -> option Z := %s.\n" % (reqf, fixf)
               + "Definition T_run : tables := mk_tables tabs_run words_run req_run.\n")
        ctx.extra["reserved_words"] = len(words)
        ctx.extra["regenerated_prelude_requirements"] = reqf
        r = fw.CoqCases(ctx, "prelude", hdr, "(fun _ : unit => prelude_table_ok req_run fixed_run)", "Bool.eqb", "unit", "bool")
        same = not r.run([("tt", "true", None)])
        ctx.obligation("regenerated prelude static_requirements / fixed sizes = Layout.Model.prelude_req / prelude_fixed", same)
        tables_ok = same
    else:
        hdr = (HEADER + "Definition T_run : tables := ex_T.\n")

    results_sorted = pending.get()
    pool.close()
    pool.join()
    results = [None] * len(cases)
    for k, i in enumerate(order):
        results[i] = results_sorted[k]

    seen = {}

    def viol(key, desc, replay, found=True):
        seen[key] = seen.get(key, 0) + 1
        ctx.violation(key, desc, replay, found_input=found)

    coq_cases = []
    base_bad = set()
    for (label, text, name, extra, case, exp), an in zip(cases, results):
        if label.startswith("gen:") and label.endswith(":base") and an["full"][0] != "ok":
            base_bad.add(label.split(":")[1])
    for (label, text, name, extra, case, exp), an in zip(cases, results):
        full_st, full_detail = an["full"]
        if label.startswith("gen:") and not label.endswith(":base") and label.split(":")[1] in base_bad:
            # the base itself is rejected (reported once, with the base): its variants say nothing new
            ctx.count("skipped:variant-of-rejected-base")
            continue
        ctx.count("compiler:" + full_st)
        rule = case.rule if case is not None else exp.get("rule")
        replay = dict(kind="module", label=label, file=name, module=text, rule=rule,
                      mutated_line=(case.line if case is not None else None), compiler=full_st, detail=full_detail)
        want_accept = (case is not None and case.doc_realisable) or exp.get("expect") == "accept"
        want_reject = (case is not None and not case.doc_realisable) or exp.get("expect") == "reject"
        if full_st == "crash":
            viol(crash_key(full_detail), "compiler raised %s in %s on %s" % (full_detail["exception"], full_detail["function"], label), replay)
        elif want_accept and full_st != "ok":
            msg = re.sub(r"'[^']*'|\d+", "_", full_detail[0][2].split("\n")[0])[:80] if full_detail else "?"
            mutated = text.split("\n")[case.line - 1] if case is not None and case.line and 0 < case.line <= text.count("\n") else ""
            if "back-end" in (rule or "") and "$default byte_order" in mutated and "(" in mutated and msg.startswith("Attribute _ required"):
                key = "foreign-back-end-default-shadows-front-end-default"
            else:
                key = "realisable-module-rejected:%s" % msg
            viol(key, "%s rejected: %s" % (label, full_detail[:2]), replay)
            if key == "foreign-back-end-default-shadows-front-end-default":
                # reported with the module; the model follows the reference here, so no agreement is expected
                ctx.count("skipped:known-divergence-on-foreign-default")
                continue
        elif want_reject and full_st == "ok":
            viol(gt.C14_KNOWN.get(rule, "layout-accepts:%s" % rule), "unrealisable module accepted (rule %s, line %s)" % (rule, case.line if case else "?"), replay)
        elif want_reject and case is not None:
            ok_lines = set([case.line] + case.alt_lines)
            on_line = [e for e in full_detail if e[0] in ok_lines and not e[1]]
            if not on_line:
                nowhere = [e for e in full_detail if e[0] == 0]
                if nowhere:
                    viol("constraints-error-without-location:inner-array-dimension" if rule == "array-inner-dimension-omitted"
                         else "error-without-location:%s" % rule,
                         "rule %s (line %d): the error %r has no source location" % (rule, case.line, nowhere[0][2]), replay)
                else:
                    viol("error-site:%s" % rule, "rule %s planted on line %d; errors reported at %s" % (rule, case.line, [(e[0], e[1]) for e in full_detail][:4]), replay)
        # --- model vs implementation ---
        lv = an["layout"][0]
        ctx.count("layout-verdict:" + lv)
        if an["oom"]:
            ctx.count("out-of-model:" + an["oom"].split(":")[0])
            if an["oom"].startswith("TRANSLATOR"):
                viol("translator", "IR translator failed on %s: %s" % (label, an["oom"][:300]), dict(replay, correspondence="types_x.LayoutTranslator"), found=False)
            continue
        ctx.case(("m", text), nontrivial=True, sample={"label": label, "rule": rule, "compiler": lv})
        ctx.count("rule:" + str(rule).split(":")[0])
        if lv == "unmodelled-reject":
            ctx.count("skipped:rejected-only-by-unmodelled-check")
            continue
        verdict = (lv == "accept")
        bs = an.get("borders")
        ctx.count("effective-byte-orders-compared" if bs else "effective-byte-orders-not-available")
        coq_cases.append((an["coq"], "(EExpect %s true %s)" % ("true" if verdict else "false", "(Some %s)" % bs if bs else "None"),
                          dict(label=label, text=text, rule=rule, an=an, case=case)))
        if case is not None and lv in ("accept", "reject") and verdict != case.doc_realisable and full_st != "crash":
            pass   # already reported above as a property violation with the concrete module

    r = fw.CoqCases(ctx, "layout", hdr, "(run_layout4 T_run)", "eout_agrees", "module", "eout", shard=20)
    bad = r.run(coq_cases) if coq_cases else []
    ctx.obligation("correspondence: %d modules: check_layout(T_run) = compiler's verdict on the modelled rules, effective byte order of every field, maximum_bits/is_signed of every enum and fixed size of every structure = the unqualified attributes after normalisation" % len(coq_cases), not bad)
    shown = 0
    for idx, out in bad:
        a, b, obj = coq_cases[idx]
        case = obj["case"]
        full_st = obj["an"]["full"][0]
        # the concrete module is in hand: if the property itself fails on it, it has been reported above
        if case is not None and ((case.doc_realisable and full_st != "ok") or (not case.doc_realisable and full_st != "errors")):
            continue
        vtxt = "true" if obj["an"]["layout"][0] == "accept" else "false"
        if obj["an"].get("borders") and ("EModel %s true" % vtxt) in " ".join(out.split()):
            # same verdict, different byte orders: by theorem defaults_inherited the model's value IS the nearest
            # enclosing $default, so the front end gave some field another byte order: a concrete failing module
            ctx.violation("effective-attributes-differ-from-documented",
                          "%s: the unqualified byte_order / maximum_bits / is_signed / fixed_size_in_bits after normalisation differ from what the reference gives (own attribute, nearest enclosing $default, Null; 64 / any negative value; largest field end)" % obj["label"],
                          dict(kind="module", module=obj["text"], rule=obj["rule"], theorem="defaults_inherited",
                               front_end_byte_orders=obj["an"]["borders"], model_outputs=out[:3000]), found_input=True)
            shown += 1
            continue
        ctx.violation("layout-model-mismatch", "model and compiler disagree on %s (compiler: %s)" % (obj["label"], b),
                      dict(kind="module", correspondence="Layout.Model.check_layout vs normalize_and_verify+check_constraints",
                           module=obj["text"], rule=obj["rule"], python=b, model_outputs=out[:1500]), found_input=False)
        shown += 1
        if shown >= 5:
            break
    if not tables_ok and not [k for k in seen if not k.startswith(("bounds-assert", "attribute-crash", "constraints-error-without"))]:
        ctx.violation("layout-tables-changed", "regenerated tables differ from the ones the theorems are about",
                      dict(kind="table", theorem="check_layout_iff_realisable (t_req T = prelude_req) / prelude_requirements",
                           detail=broken or "prelude_table_ok = false"), found_input=False)
    ctx.extra["violations_by_key"] = seen
