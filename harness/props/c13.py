"""C13 — expression typing: well-typed modules are accepted, ill-typed ones rejected."""
import glob
import multiprocessing
import os
import re
from concurrent.futures import ThreadPoolExecutor

from harness import fw, types_x as tx, gen_typed as gt

META = {
    "technique": "Coq proof that a table-driven Gallina mirror of type_check.py decides the documented typing relation (for the documented table: exactly; for the implementation's table: completeness + soundness outside an explicit boolean guard; refutation witnesses for the rest) + operator-signature table regenerated each run by executing type_check on ~770 probe expressions and probe modules + differential correspondence on generated modules and single-rule violations",
    "level_text": "Machine-checked theorems (Coq 8.16, no axioms), for ALL expression trees and ALL modules of the modelled item language: typecheck(doc_table) accepts <-> derivable in the documented relation; typecheck(impl_table) is complete, and sound under guard/mguard; the unguarded statement is refuted by the one remaining witness (ordering of two values of one enum, F13; the former witnesses F12, F14, non-integer enum value and the assertion on a boolean actual were repaired in /repo and are now positive theorems); well-typed expressions evaluate to a value of their type in every well-typed environment; a reported error lies at a node of the first item that is not well typed; neither table can reach a crash result. impl_table is compared each run with the table derived from probes of the working tree's type_check.py, and every probe outcome is re-checked against the model's operator-level function.",
    "level_note": "Trusted: Coq kernel + vm_compute; harness/types_x.py (probe construction, IR->item translator, leaf types taken from type_check.unbounded_expression_type_for_physical_type); harness/gen_typed.py decides what the language reference says about each generated case (its catalogue is the 'documented rule' side). Modelled, not verified: the Python source. Not modelled: what the checker does AFTER its first error (a second defect class found by the harness: unannotated operands crash a parent ==/?:), builtin references ($is_statically_sized), static references to physical fields, array-typed parameters (counted as out-of-model).",
}

HEADER = "Require Import EmbossV.Types.Model EmbossV.Types.Exec.\n"

QUIRK_RULES = {"ordering-enum-operands"}

KNOWN_BY_RULE = dict(gt.C13_KNOWN)


def crash_key(crash, rule=None):
    fn, exc = crash["function"], crash["exception"]
    if fn == "_type_name_for_error_messages":
        return "typecheck-crash-parameter-type-name-assert"
    if crash["file"] == "type_check.py" and "NoneType" in exc and "which_type" in exc:
        return "typecheck-crash-unannotated-operand"
    if fn == "_compute_constraints_of_existence_function" and "existence_condition" in exc:
        return "bounds-crash-present-parameter"
    if rule == "enum-value-not-integer":
        return "typecheck-enum-value-type-unchecked"
    return "crash:%s:%s" % (exc.split("(")[0], fn)


def expected_verdict(an):
    """Coq term of Exec.verdict from the implementation's typing verdict."""
    v, lines, crash = an["typing"]
    if v in ("accept", "other-crash"):
        return "VAccept"
    if v == "crash":
        if crash["function"] == "_type_name_for_error_messages":
            return "VCrash"
        return "VNotAccepted"
    if v == "reject":
        errl = {l for l, syn, _, _ in lines if not syn}
        idx = [i for i, (l, syn, _) in enumerate(an["items"]) if l in errl]
        if not idx:
            # every reported location is outside the items (or synthetic): no site information
            idx = list(range(len(an["items"])))
        return "(VReject [%s])" % "; ".join(str(i) for i in idx)
    raise ValueError(v)


def load_corpus_cases():
    out = []
    d = os.path.join(fw.VERIF, "corpus", "C13")
    for p in sorted(glob.glob(os.path.join(d, "*.emb"))):
        text = open(p).read()
        first = text.split("\n", 1)[0]
        exp = {}
        if first.startswith("# expect"):
            for kv in first[1:].split():
                if "=" in kv:
                    k, v = kv.split("=", 1)
                    exp[k] = v
        out.append((os.path.basename(p), text, exp))
    return out


def run(ctx):
    ctx.rule = ("bases: random well-typed realisable modules (enums, parameterised/dynamic structs, bits, arrays, "
                "conditions, virtual fields, requires); violations: every rule of the C13 catalogue planted at a random "
                "node of a random expression / position of the base (one case per rule per base); plus every "
                "testdata/*.emb; a case is non-trivial when it has at least one operator item; distinct by module text")
    ctx.trusted = ["Coq 8.16.1 kernel, vm_compute", "harness/types_x.py", "harness/gen_typed.py", "harness/props/c13.py",
                   "CPython 3.12 running the working tree's front end"]
    ctx.assumptions = ["behaviour after the first type error is not modelled (only the verdict and the first error site)",
                       "builtin references, static references to physical fields and array parameters are out of model (counted)"]
    ctx.audit()
    ctx.check_theorems("EmbossV.Types.Properties_C13", "Types/Properties_C13.v", expect_min=16)

    # ---- (T) regenerate the signature table -------------------------------------
    table_ok = True
    T = None
    try:
        T, probes = tx.probe_sig_table()
    except tx.TranslatorError as ex:
        ctx.note("signature table could not be regenerated: %s" % ex)
        ctx.obligation("regenerated sig_table (probe derivation)", False)
        table_ok = False
        probes = []
        broken = str(ex)
    # ---- cases ----------------------------------------------------------------------
    cases = []   # (label, text, name, extra, Case|None, expect dict)
    for nm, text, exp in load_corpus_cases():
        cases.append(("corpus:" + nm, text, "m.emb", None, None, exp))
    for p in sorted(glob.glob(os.path.join(fw.REPO, "testdata", "*.emb"))):
        rel = os.path.relpath(p, fw.REPO)
        if not ctx.thorough() and os.path.getsize(p) > 2500:
            ctx.count("skipped-in-quick-tier:large-testdata-file")
            continue
        cases.append(("testdata:" + rel, open(p).read(), rel, None, None, {}))
    n_base = 40 if ctx.thorough() else 3
    for i in range(n_base):
        base = gt.Base(ctx.rng, depth=ctx.rng.choice([1, 2, 2, 3]))
        c = base.case()
        cases.append(("gen:%d:base" % i, c.text(), "m.emb", None, c, {}))
        for v in gt.c13_violations(base, ctx.rng) + gt.c13_welltyped_extras(base, ctx.rng):
            cases.append(("gen:%d:%s" % (i, v.rule), v.text(), "m.emb", v.extra, v, {}))
    # largest inputs first, one per task, so that the tail of the pool is short
    order = sorted(range(len(cases)), key=lambda i: -len(cases[i][1]))
    pool = multiprocessing.Pool(min(fw.NPROC, 16))
    pending = pool.map_async(tx.analyse_c13, [(cases[i][1], cases[i][2], cases[i][3], fw.REPO) for i in order], chunksize=1)

    if T is not None:
        trun = tx.coq_table(T)
        hdr = HEADER + "Definition T_run : sig_table := %s.\n" % trun
        ctx.extra["regenerated_sig_table"] = trun
        r = fw.CoqCases(ctx, "table", hdr, "(fun _ : unit => sig_table_eqb T_run impl_table)", "Bool.eqb", "unit", "bool")
        tpool = ThreadPoolExecutor(4)
        fut_table = tpool.submit(r.run, [("tt", "true", None)])
        pc = [tx.probe_case(fn, names, res) + ((fn, names, res),) for fn, names, res in probes
              if not res.startswith("CRASH")]
        r = fw.CoqCases(ctx, "probes", hdr, "(run_probe T_run)", "tres_eqb", "(fn * list (shape * ty))", "tres", shard=300)
        badp = r.run(pc)
        same = not fut_table.result()
        ctx.obligation("regenerated sig_table = Types.Model.impl_table", same)
        table_ok = same
        for a, b, obj in pc:
            ctx.case(("probe", a), nontrivial=True, sample=None)
            ctx.count("probe:" + obj[0].name)
        ctx.obligation("correspondence: %d operator probes agree with op_check(T_run)" % len(pc), not badp)
        for idx, out in badp[:3]:
            a, b, obj = pc[idx]
            ctx.violation("typecheck-probe-mismatch", "probe %s%r: type_check gives %s, op_check(T_run) differs" % (obj[0].name, obj[1], b),
                          dict(kind="probe", correspondence="Types.Model.op_check vs type_check._type_check_operation",
                               function=obj[0].name, leaves=list(obj[1]), python=b, model_outputs=out[:1500]), found_input=False)
    else:
        hdr = HEADER + "Definition T_run : sig_table := impl_table.\n"

    results_sorted = pending.get()
    pool.close()
    pool.join()
    results = [None] * len(cases)
    for k, i in enumerate(order):
        results[i] = results_sorted[k]

    coq_full, coq_plain = [], []
    n_viol_seen = {}

    def viol(key, desc, replay, found=True):
        n_viol_seen[key] = n_viol_seen.get(key, 0) + 1
        ctx.violation(key, desc, replay, found_input=found)

    base_bad = set()
    for (label, text, name, extra, case, exp), an in zip(cases, results):
        if label.startswith("gen:") and label.endswith(":base") and an["full"][0] != "ok":
            base_bad.add(label.split(":")[1])
    for (label, text, name, extra, case, exp), an in zip(cases, results):
        full_st, full_detail = an["full"]
        if label.startswith("gen:") and not label.endswith(":base") and label.split(":")[1] in base_bad:
            # the base itself is rejected (reported once, with the base): its variants say nothing new
            ctx.count("skipped:variant-of-rejected-base")
            continue
        tv = an["typing"][0]
        ctx.count("compiler:" + full_st)
        rule = case.rule if case is not None else exp.get("rule")
        replay = dict(kind="module", label=label, file=name, module=text, rule=rule,
                      mutated_line=(case.line if case is not None else None),
                      compiler=full_st, detail=full_detail, replay_cmd="PYTHONPATH=/repo python -c 'see harness/types_x.compile_emb'")
        # --- the property on the implementation ---
        want_accept = (case is not None and case.doc_typed) or exp.get("expect") == "accept"
        want_reject = (case is not None and not case.doc_typed) or exp.get("expect") == "reject"
        prop_failed = False
        # the value type the front end gives a field of each referenced type, against the documented one
        for tname, mine, impl in an.get("leaf_mismatch", []):
            # the known defect concerns a TOP-LEVEL type called Flag (of another module) only
            key = ("typecheck-user-type-named-flag-is-boolean" if tname.split(":")[-1] == "Flag" and impl == "TBool"
                   else "typecheck-leaf-type:%s-as-%s:%s" % (mine.strip("()").split(" ")[0], impl.strip("()").split(" ")[0],
                                                            "nested-" + tname.split(".")[-1] if "." in tname.split(":")[-1] else tname.split(":")[-1]))
            viol(key, "a field of type %s has value type %s in the front end; the reference gives it %s (%s)" % (tname, impl, mine, label),
                 dict(replay, type=tname, documented=mine, implementation=impl))
            prop_failed = True
        if full_st == "crash":
            viol(crash_key(full_detail, rule), "compiler raised %s in %s on %s" % (full_detail["exception"], full_detail["function"], label), replay)
        elif want_accept and full_st != "ok":
            msg = re.sub(r"'[^']*'|\d+", "_", full_detail[0][2].split("\n")[0])[:80] if full_detail else "?"
            viol(KNOWN_BY_RULE.get(rule, "welltyped-module-rejected:%s" % msg), "%s rejected: %s" % (label, full_detail[:2]), replay)
            prop_failed = True
        elif want_reject and full_st == "ok":
            viol(KNOWN_BY_RULE.get(rule, "typecheck-accepts:%s" % rule), "ill-typed module accepted (rule %s, line %s)" % (rule, case.line if case else "?"), replay)
        elif want_reject and case is not None:
            on_line = [e for e in full_detail if e[0] == case.line and not e[1]]
            if not on_line:
                viol("error-site:%s" % rule, "rule %s planted on line %d; errors reported at %s" % (rule, case.line, [(e[0], e[1]) for e in full_detail][:4]), replay)
        # --- model vs implementation ---
        if an["oom"]:
            ctx.count("out-of-model:" + an["oom"].split(":")[0])
            if an["oom"].startswith("TRANSLATOR"):
                viol("translator", "IR translator failed on %s: %s" % (label, an["oom"]), dict(replay, correspondence="types_x.ModuleTranslator"), found=False)
            continue
        if prop_failed and (rule or "").startswith("ok:"):
            # a well-typed extra the compiler rejects (reported above with the module): the model, which
            # follows the reference here, is not expected to agree with the compiler on it
            ctx.count("skipped:known-divergence-on-welltyped-extra")
            continue
        if an.get("leaf_mismatch"):
            ctx.count("skipped:leaf-type-differs-from-reference")
            continue
        ev = expected_verdict(an)
        nontriv = "XFn" in an["coq"]
        ctx.case(("m", text), nontrivial=nontriv,
                 sample={"label": label, "rule": rule, "compiler": tv, "items": len(an["items"])})
        ctx.count("typing-verdict:" + tv)
        ctx.count("rule:" + str(rule))
        if case is not None:
            doc_ok = case.doc_typed
            guarded = rule not in QUIRK_RULES
            coq_full.append((an["coq"], "(CExpect %s %s %s)" % (ev, "true" if doc_ok else "false", "true" if guarded else "false"),
                             dict(label=label, text=text, rule=rule, an=an, doc_typed=case.doc_typed)))
        else:
            coq_plain.append((an["coq"], "(CExpectV %s)" % ev, dict(label=label, text=text, rule=None, an=an)))

    in_ty = "(list ty * list ty * list item)"
    r1 = fw.CoqCases(ctx, "gen", hdr, "(run_case T_run)", "cout_agrees", in_ty, "cout", shard=20)
    r2 = fw.CoqCases(ctx, "corpus", hdr, "(run_case T_run)", "cout_agrees", in_ty, "cout", shard=5)
    with ThreadPoolExecutor(2) as tp:
        f1 = tp.submit(r1.run, coq_full) if coq_full else None
        f2 = tp.submit(r2.run, coq_plain) if coq_plain else None
        bad1 = f1.result() if f1 else []
        bad2 = f2.result() if f2 else []
    ctx.obligation("correspondence: %d generated modules: model verdict/site = compiler, doc_table verdict = catalogue, guard = catalogue"
                   % len(coq_full), not bad1)
    ctx.obligation("correspondence: %d corpus modules: model verdict = compiler" % len(coq_plain), not bad2)
    shown = 0
    for lst, badl in ((coq_full, bad1), (coq_plain, bad2)):
        for idx, out in badl:
            a, b, obj = lst[idx]
            an = obj["an"]
            # a disagreement: the concrete module is already in hand; does the PROPERTY fail on it?
            full_st = an["full"][0]
            rule = obj["rule"]
            doc_ok = (obj.get("doc_typed", rule is None))
            prop_fails = (doc_ok and full_st != "ok") or (not doc_ok and full_st != "errors")
            if prop_fails and n_viol_seen:
                continue   # already reported above with the concrete input
            ctx.violation("typecheck-model-mismatch",
                          "model and type_check disagree on %s (expected %s)" % (obj["label"], b[:200]),
                          dict(kind="module", correspondence="Types.Model.typecheck_module vs type_check.annotate_types/check_types",
                               module=obj["text"], rule=rule, python=b, model_outputs=out[:1500]), found_input=False)
            shown += 1
            if shown >= 5:
                break

    if T is None or not table_ok:
        # the table moved: the catalogue above is the search for a concrete module
        unknown = [k for k in n_viol_seen if k not in KNOWN_BY_RULE.values()]
        if not unknown:
            ctx.violation("sig-table-changed", "regenerated signature table differs from Types.Model.impl_table (theorems are about impl_table)",
                          dict(kind="table", theorem="typecheck_sound_complete_partial / module_sound_complete_partial",
                               regenerated=(tx.coq_table(T) if T else "unavailable: " + broken)), found_input=False)
    ctx.extra["violations_by_key"] = n_viol_seen
