"""C16 — the compiler is total: output or well-formed located errors, never an uncaught exception."""
import concurrent.futures
import glob
import hashlib
import json
import os
import re
import shutil
import subprocess
import time

from harness import fw, gen_fuzz, pipe_worker as pw

META = {
    "technique": "Coq proof about a Gallina mirror of the error-reporting layer (process_ir orchestration, split_errors, "
                 "_Message.format, format_errors, make_error_from_parse_error, lr1's end-of-input marker, the tokenizer's "
                 "layout loop) + differential correspondence of each mirrored function (vm_compute) + generated inputs "
                 "through glue.parse_emboss_file / generate_header / format_errors / embossc with crash shrinking",
    "level_text": "Machine-checked theorems (Coq 8.16, no axioms) for every list of passes and every message: process_ir returns "
                  "(ir, []) or (None, non-empty list of non-empty groups); synthetic errors are shown only if no pass reported a "
                  "user-level error; _Message.format/format_errors are total, name file:line:column on every line and show the "
                  "source line with a caret when the location is inside the file; make_error_from_parse_error is defined for "
                  "every token lr1.Parser.parse can report, the end-of-input marker included; tokenizer errors lie inside the "
                  "file; every token lies inside the file except the end-of-file Dedents (refuted witness: they sit at "
                  "(last_line+1, 1)). Totality of the passes themselves is explored, not proved: generated inputs (random "
                  "bytes, token soup, grammar derivations, semantic soup, targeted families, mutations of testdata and of "
                  "generated modules) are fed to the real front end, back end, format_errors and the embossc CLI each run; "
                  "any uncaught exception is a violation keyed by (exception class, raising function) with a shrunk input.",
    "level_note": "partial. Trusted: Coq kernel + vm_compute; harness/props/c16.py, harness/pipe_worker.py, harness/gen_fuzz.py; "
                  "CPython 3.12 running /repo. Modelled, not verified: the Python sources; exceptions inside passes are outside "
                  "the model by construction (each observed class is reported, keyed by defect mechanism where one is recognised and "
                  "by (exception class, raising function) otherwise; none is assumed absent). The per-line tokenizer and the LR driver "
                  "are arguments of the model (they are modelled in Lex/ and LR/). corpus/C16 holds one shrunk input per class seen so "
                  "far and is replayed first, so the listed classes are re-derived on every run for every seed; every run also compiles the 1620 keyword-position "
                  "modules (each $-keyword of tokenizer.LITERAL_TOKEN_PATTERNS in each expression position); the quick tier adds "
                  "800 fresh inputs per run, the thorough tier 30000 (the tail of rare crash classes is long: about one new class per "
                  "20000 inputs in development). Generated field widths above 65536 are cut down: the front end computes 2**width for "
                  "them (minutes and gigabytes from about 2**30 on; recorded once as finding "
                  "crash:ValueError:integer-width-beyond-digit-limit and not re-run).",
    "category": "proof",
}

HEADER = ("Require Import EmbossV.Pipeline.Order EmbossV.Pipeline.Errors EmbossV.Pipeline.Determinism EmbossV.Pipeline.Exec.\n"
          "Open Scope N_scope.\n")

MAIN = "m.emb"


# ----------------------------------------------------------------------------
# Python value -> Coq term
# ----------------------------------------------------------------------------
def cstr(s):
    return "[" + ";".join("%d" % ord(c) for c in s) + "]"


def cloc(l):
    return "(mkLoc (mkPos %d %d) (mkPos %d %d) %s)" % (l[0], l[1], l[2], l[3], "true" if l[4] else "false")


def loc_tuple(loc):
    return [loc.start.line, loc.start.column, loc.end.line, loc.end.column, bool(loc.is_synthetic)]


SEV = {"error": "SError", "warning": "SWarning", "note": "SNote"}


def cmsg(file, loc5, sev, text):
    return "(mkMsg %s %s %s %s)" % (cstr(file or ""), cloc(loc5), SEV[sev], cstr(text))


def cmsg_obj(m):
    return cmsg(m.source_file, loc_tuple(m.location), m.severity, m.message)


def cerrors(errs):
    return "[" + "; ".join("[" + "; ".join(cmsg_obj(m) for m in g) + "]" for g in errs) + "]"


def csources(src):
    return "[" + "; ".join("(%s, %s)" % (cstr(k), cstr(v)) for k, v in src.items()) + "]"


def cparts(parts):
    return "[" + "; ".join("(%s, %s)" % (c, cstr(t)) for c, t in parts) + "]"


def copt(x, f):
    return "None" if x is None else "(Some %s)" % f(x)


def ctoken(t):
    """parser_types.Token (anything with symbol/text/source_location) -> Tok; lr1.Symbol -> EndOfInput."""
    if hasattr(t, "text") and hasattr(t, "source_location"):
        l = t.source_location
        return "(Tok %s %s %s)" % (cstr(t.symbol), cstr(t.text), copt(l, lambda x: cloc(loc_tuple(x))))
    return "EndOfInput"


def nonprintable(s):
    return sorted({ord(c) for c in s if ord(c) >= 256 and not c.isprintable()})


# ----------------------------------------------------------------------------
# model correspondence cases
# ----------------------------------------------------------------------------
BREAKS = ["\n", "\r", "\r\n", "\x0b", "\x0c", "\x1c", "\x1d", "\x1e", "\x85", " ", " "]


def rand_text(r, maxlines=5):
    out = []
    for _ in range(r.choice([0, 1, 2, 3, maxlines])):
        out.append("".join(r.choice("ab  \t:[]x9é") for _ in range(r.choice([0, 1, 3, 8, 17]))))
        out.append(r.choice(BREAKS) if r.random() < 0.9 else "")
    return "".join(out)


def rand_location(r, nlines):
    from compiler.util import parser_types
    k = r.random()
    if k < 0.12:
        return parser_types.SourceLocation((0, 0), (0, 0), is_synthetic=r.random() < 0.3)
    sl = r.choice([1, 1, 2, max(1, nlines), nlines + 1, nlines + 4, r.randint(1, 6)])
    sc = r.choice([1, 1, 2, 5, 9, 30])
    if r.random() < 0.75:
        el, ec = sl, sc + r.choice([0, 0, 1, 3, 10])
    else:
        el, ec = sl + r.choice([1, 2]), r.choice([1, 4])
    return parser_types.SourceLocation((sl, sc), (el, ec), is_synthetic=r.random() < 0.15)


def rand_message(r, sources):
    from compiler.util import error
    files = list(sources) + ["unknown.emb", ""]
    f = r.choice(files)
    n = len(sources.get(f, "").splitlines())
    loc = rand_location(r, n)
    text = r.choice(["Bad thing", "first\nsecond", "", "trailing\n", "a\n\nb", "x\r\ny", "Found 'é' (Q)", "\n", "l1\nl2\nl3"])
    sev = r.choice([error.ERROR, error.WARNING, error.NOTE])
    return error._Message(f, loc, sev, text)


def model_cases(ctx, n):
    """[(input_term, expected_term, info)] for run_c16; `info` has what is needed to judge a mismatch."""
    from compiler.util import error, parser_types
    from compiler.front_end import glue, lr1
    r = ctx.rng
    cases = []

    def add(kind, inp, exp, info):
        info = dict(info, kind=kind)
        cases.append((inp, exp, info))
        ctx.count("model:" + kind)

    def parts_of(m, src):
        return [(pw.color_name(c), t) for c, t in m.format(src)]

    # splitlines
    for _ in range(n // 4):
        s = rand_text(r, 6) + r.choice(["", "tail", "\r", "\n\n"])
        add("splitlines", "CSplitlines %s" % cstr(s), "RLines [%s]" % "; ".join(cstr(x) for x in s.splitlines()), {"text": s})
    # _Message.format
    for _ in range(n):
        src = {"m.emb": rand_text(r), "other.emb": rand_text(r, 2)}
        if r.random() < 0.1:
            src[""] = rand_text(r)
        m = rand_message(r, src)
        try:
            exp = "RParts %s" % cparts(parts_of(m, src))
            crash = None
        except Exception as ex:
            exp, crash = "RParts []", pw.crash_info(ex)
        add("format", "CFormat %s %s" % (csources(src), cmsg_obj(m)), exp,
            {"crash": crash, "sources": src, "message": repr(m)})
    # format_errors
    for _ in range(n // 3):
        src = {"m.emb": rand_text(r)}
        errs = [[rand_message(r, src) for _ in range(r.choice([0, 1, 1, 2, 3]))] for _ in range(r.choice([0, 1, 2, 3]))]
        crash = None
        try:
            exp = "RText (Some %s)" % cstr(error.format_errors(errs, src))
        except AssertionError:
            exp = "RText None"
        except Exception as ex:
            exp, crash = "RText None", pw.crash_info(ex)
        add("format_errors", "CFormatErrors %s %s" % (csources(src), cerrors(errs)), exp,
            {"crash": crash, "sources": src, "errors": repr(errs)})
    # split_errors
    for _ in range(n // 4):
        src = {"m.emb": rand_text(r)}
        errs = [[rand_message(r, src) for _ in range(r.choice([0, 1, 2, 3]))] for _ in range(r.choice([0, 1, 2, 4]))]
        u, s = error.split_errors(errs)
        add("split_errors", "CSplit %s" % cerrors(errs), "RSplit %s %s" % (cerrors(u), cerrors(s)), {"errors": repr(errs)})
    # process_ir with scripted passes
    pass_names = _pass_names()
    for _ in range(n // 2):
        src = {"m.emb": "a\nb\nc\n"}
        outs = []
        for _p in pass_names:
            k = r.random()
            if k < 0.78:
                outs.append([])
            else:
                outs.append([[rand_message(r, src) for _ in range(r.choice([1, 1, 2]))] for _ in range(r.choice([1, 2]))])
        if r.random() < 0.3:   # synthetic-only runs
            outs = [[[_force_syn(m) for m in g] for g in o] for o in outs]
        fn_names = [fn for _, fn in pass_names]
        stop = r.choice([None, None, None, r.choice(fn_names), "bogus_step"])
        res = _run_scripted_process_ir(pass_names, outs, stop)
        if res[0] == "assert":
            exp = "ROutcome false [] true"
        elif res[0] == "ok":
            exp = "ROutcome true [] false"
        else:
            exp = "ROutcome false %s false" % cerrors(res[1])
        add("process_ir", "CProcess [%s] [%s] %s" % ("; ".join(cstr(x) for x in fn_names), "; ".join(cerrors(o) for o in outs),
                                                     copt(stop, cstr)), exp, {"stop": stop, "outs": repr(outs)[:2000]})
    # make_error_from_parse_error
    toks = ['"["', '"("', "SnakeWord", "Number", '"\\n"', "Indent", "Dedent", "CamelWord", '"$default"', "é"]
    for _ in range(n // 2):
        k = r.random()
        text = r.choice(["Foo", "", "\n", "it's", 'say "hi"', "a'b\"c", "tab\there", "é x", "\x00\x7f", "back\\slash", "\U0001F600"])
        loc = None if r.random() < 0.15 else rand_location(r, 3)
        if k < 0.1:
            tok = lr1.Symbol("$")
        else:
            tok = parser_types.Token(r.choice(["SnakeWord", '"struct"', "Dedent", '"\\n"', "$"]), text, loc)
        expected = r.sample(toks, r.choice([0, 1, 2, 4, 7]))
        code = r.choice([None, None, "", "A custom message.", "Two\nlines"])
        pe = lr1.ParseError(code, 3, tok, 17, expected)          # a list: the enumeration order is ours
        crash = None
        try:
            g = error.make_error_from_parse_error("m.emb", pe)
            exp = "RGroup (Some [%s])" % "; ".join(cmsg_obj(m) for m in g)
        except AttributeError as ex:
            exp, crash = "RGroup None", pw.crash_info(ex)
        add("parse_error", "CParseError [%s] %s (mkPE %s %s [%s])" % (
            ";".join(str(c) for c in nonprintable(text)), cstr("m.emb"), copt(code, cstr), ctoken(tok),
            "; ".join(cstr(x) for x in expected)), exp, {"crash": crash, "token": repr(tok), "expected": expected})
    # the end-of-input marker of lr1.Parser.parse
    g = lr1.Grammar("S", [parser_types.Production.parse("S -> a b c")]).parser()
    for _ in range(max(8, n // 8)):
        k = r.choice([0, 1, 2])
        tl = []
        for i, sym in enumerate(["a", "b"][:k]):
            loc = None if r.random() < 0.25 else parser_types.SourceLocation((1 + i, 1 + 2 * i), (1 + i, 2 + 2 * i + r.choice([0, 3])))
            tl.append(parser_types.Token(sym, sym, loc))
        res = g.parse(tl)
        marker = res.error.token
        add("end_marker", "CEndMarker [%s]" % "; ".join(ctoken(t) for t in tl), "RToken %s" % ctoken(marker),
            {"tokens": repr(tl), "marker": repr(marker)})
    return cases


def _pass_names():
    """Names of the passes in glue.process_ir, in order (regenerated from the source each run)."""
    import ast
    from compiler.front_end import glue
    src = open(glue.__file__).read()
    tree = ast.parse(src)
    for node in ast.walk(tree):
        if isinstance(node, ast.FunctionDef) and node.name == "process_ir":
            for sub in ast.walk(node):
                if isinstance(sub, ast.Assign) and getattr(sub.targets[0], "id", None) == "passes":
                    return [(e.value.id, e.attr) for e in sub.value.elts]
    raise RuntimeError("process_ir: pass list not found")


def _force_syn(m):
    from compiler.util import error, parser_types
    l = m.location
    if not l.start.line:
        return m
    return error._Message(m.source_file, parser_types.SourceLocation(l.start, l.end, is_synthetic=True), m.severity, m.message)


def _run_scripted_process_ir(pass_names, outs, stop):
    import importlib
    from compiler.front_end import glue
    saved = []
    try:
        for (mod, fn), out in zip(pass_names, outs):
            module = getattr(glue, mod)
            orig = getattr(module, fn)
            saved.append((module, fn, orig))

            def fake(ir, _out=out):
                return list(_out)
            fake.__name__ = fn
            setattr(module, fn, fake)
        try:
            ir, errs = glue.process_ir(object(), stop)
        except AssertionError:
            return ("assert", None)
        if errs:
            assert ir is None
            return ("err", errs)
        return ("ok", None)
    finally:
        for module, fn, orig in saved:
            setattr(module, fn, orig)


# ----------------------------------------------------------------------------
# judging one compilation record
# ----------------------------------------------------------------------------
def classify_crash(c):
    """Key of an uncaught exception: the defect mechanism where one is recognised, otherwise
    (exception class, raising function of /repo)."""
    exc, func, fil, msg = c["exc"], c["func"], c.get("file") or "", c.get("msg") or ""
    base = func.split(".")[-1]
    if exc == "AttributeError" and "'NoneType' object has no attribute" in msg and (
            fil.endswith(("attribute_util.py", "attribute_checker.py"))
            or base in ("get_boolean_attribute", "get_integer_attribute", "get_attribute")):
        # attribute values are read (.text / .type / .has_field) before attribute_util has checked their kind
        return "crash:AttributeError:attribute-value-of-wrong-kind"
    if exc == "AssertionError" and func == "_FunctionCaller.invoke" and "missing" in msg and "current_scope" in msg:
        # a module-level attribute whose value contains a name or builtin: resolved without a scope
        return "crash:AssertionError:module-attribute-value-with-reference"
    if exc == "AssertionError" and base == "_type_check_builtin_reference" and "Unknown builtin" in msg:
        return "crash:AssertionError:next-keyword-in-attribute-value"
    if exc == "KeyError" and base == "strong_connect" and re.match(r"^\((['\"]).*\1,\)$", msg.strip()):
        # a module node (1-tuple) that is not in the dependency graph: an import alias used as a value
        return "crash:KeyError:import-alias-used-as-value"
    if exc == "TypeError" and base == "format" and "unhashable type" in msg:
        return "crash:TypeError:message-source-file-not-a-string"
    if exc == "UnicodeDecodeError":
        return "crash:UnicodeDecodeError:source-file-not-utf8"
    if exc == "RecursionError":
        # the frame in which the interpreter's limit is hit is arbitrary
        return "crash:RecursionError:recursion-limit"
    if exc == "ValueError" and "Exceeds the limit" in msg and "integer string conversion" in msg:
        return "crash:ValueError:integer-width-beyond-digit-limit"
    return pw.crash_key(c)


def judge(rec, files, main=MAIN):
    """[(key, description)] of property violations visible in one record."""
    out = []
    if rec["status"] == "crash":
        c = rec["crash"]
        out.append((classify_crash(c), "uncaught %s in %s (%s:%s, stage %s): %s"
                    % (c["exc"], c["func"], c["file"], c["line"], rec["stage"], c["msg"])))
        return out
    if rec["status"] != "rejected":
        return out
    msgs = rec["messages"]
    if not msgs:
        out.append(("empty-error-list", "errors is truthy but holds no group"))
    known = dict(files)
    for g in msgs:
        if not g:
            out.append(("empty-error-group", "an error group without messages"))
        for m in g:
            sl, sc, el, ec, syn = m["loc"]
            f = m["file"]
            if syn:
                # `$next` is the one user-written token that synthetics.py replaces by a synthesized expression; the
                # replacement must keep the user's position usable, so a synthetic location that exactly covers a
                # user-written `$next` is its own class (not the listed finding about synthesized size fields)
                covered = None
                if f in known and sl == el and 0 < sl <= len(known[f].splitlines()):
                    covered = known[f].splitlines()[sl - 1][sc - 1:ec - 1]
                if covered == "$next":
                    out.append(("compiler-bug-location-on-user-token:" + m["creator"],
                                "message %r carries a synthetic location although it points at the user's `$next` at %d:%d" % (m["text"][:80], sl, sc)))
                else:
                    out.append(("compiler-bug-location:" + m["creator"], "message %r carries a synthetic location" % m["text"][:80]))
                continue
            if f == "" or f is None:
                text = _prelude()
            elif f in known:
                text = known[f]
            else:
                out.append(("message-file-not-in-inputs:" + m["creator"],
                            "message %r names file %r which is not one of the inputs" % (m["text"][:60], f)))
                continue
            lines = text.splitlines()
            if sl == 0:
                out.append(("message-without-location:" + m["creator"], "message %r has location 0:0" % m["text"][:80]))
            elif sl > len(lines):
                if sl == len(lines) + 1 and sc == 1:
                    out.append(("eof-dedent-position-outside-file",
                                "message at %d:%d, one line past the end of the %d-line file (end-of-file Dedent)" % (sl, sc, len(lines))))
                else:
                    out.append(("message-position-outside-file:" + m["creator"], "message at %d:%d in a %d-line file" % (sl, sc, len(lines))))
            elif sc < 1 or sc > len(lines[sl - 1]) + 1:
                out.append(("message-column-outside-line:" + m["creator"], "message at %d:%d, line has %d characters" % (sl, sc, len(lines[sl - 1]))))
    if rec["stage"] == "front_end" and rec.get("ir_none") is False:
        out.append(("ir-with-errors", "parse_emboss_file returned an IR together with errors"))
    return out


_PRELUDE = None


def _prelude():
    global _PRELUDE
    if _PRELUDE is None:
        from compiler.util import resources
        _PRELUDE = resources.load("compiler.front_end", "prelude.emb")
    return _PRELUDE


def make_files(text, extra):
    files = dict(extra)
    files[MAIN] = text
    return files


def batch_worker(args):
    texts, extra = args
    out = []
    for label, text in texts:
        files = make_files(text, extra)
        rec = pw.strip(pw.compile_files(files, MAIN))
        out.append((label, text, rec, judge(rec, files)))
    return out


# ----------------------------------------------------------------------------
# shrinking (delta debugging over lines, then tokens)
# ----------------------------------------------------------------------------
def shrink(text, extra, key, budget=350):
    calls = [0]

    def fails(t):
        if calls[0] >= budget:
            return False
        calls[0] += 1
        files = make_files(t, extra)
        rec = pw.compile_files(files, MAIN)
        return any(k == key for k, _ in judge(pw.strip(rec), files))

    def ddmin(units, joiner):
        n = 2
        while len(units) >= 2 and calls[0] < budget:
            chunk = max(1, len(units) // n)
            reduced = False
            for i in range(0, len(units), chunk):
                cand = units[:i] + units[i + chunk:]
                if cand and fails(joiner(cand)):
                    units = cand
                    n = max(n - 1, 2)
                    reduced = True
                    break
            if not reduced:
                if chunk == 1:
                    break
                n = min(len(units), n * 2)
        return units

    if not fails(text):
        return text
    keepends = text.splitlines(True)
    keepends = ddmin(keepends, lambda u: "".join(u))
    text = "".join(keepends)
    toks = gen_fuzz.split_tokens(text)
    if len(toks) <= 400:
        toks = ddmin(toks, lambda u: "".join(u))
        text = "".join(toks)
    return text


# ----------------------------------------------------------------------------
# embossc CLI
# ----------------------------------------------------------------------------
_TB = re.compile(r'File "([^"]+)", line (\d+), in (\S+)')


def cli_crash_info(stderr):
    """{"exc", "func", "file", "line", "msg"} of the innermost /repo frame of a printed traceback."""
    import ast
    root = os.path.realpath(fw.REPO) + os.sep
    frames = [(os.path.realpath(f), int(l), fn) for f, l, fn in _TB.findall(stderr)]
    inner = [fr for fr in frames if fr[0].startswith(root)]
    exc, msg = "?", ""
    for line in reversed(stderr.strip().splitlines()):
        m = re.match(r"([A-Za-z_][\w.]*)(:|$)", line.strip())
        if m and not line.startswith(" "):
            exc = m.group(1).split(".")[-1]
            msg = line.strip()[len(m.group(1)) + 1:].strip()
            break
    if not inner:
        return {"exc": exc, "func": "?", "file": "", "line": 0, "msg": msg}
    f, ln, fn = inner[-1]
    qual = fn
    try:
        tree = ast.parse(open(f).read())

        def find(node, prefix):
            for ch in ast.iter_child_nodes(node):
                if isinstance(ch, (ast.FunctionDef, ast.AsyncFunctionDef, ast.ClassDef)):
                    if ch.lineno <= ln <= (ch.end_lineno or ch.lineno):
                        name = prefix + ch.name
                        sub = find(ch, name + (".<locals>." if not isinstance(ch, ast.ClassDef) else "."))
                        return sub or name
            return None
        qual = find(tree, "") or fn
    except Exception:
        pass
    return {"exc": exc, "func": qual, "file": os.path.relpath(f, root), "line": ln, "msg": msg}


def cli_crash_key(stderr):
    c = cli_crash_info(stderr)
    return "crash:%s:%s" % (c["exc"], c["func"])


def cli_key(err):
    return classify_crash(cli_crash_info(err))


def run_cli(ctx, d, data, name="m.emb", extra_args=(), extra_files=None):
    """Write `data` (bytes) as d/name and run the working tree's embossc on it.  Generated companion files that the
    text imports (the twin-span family) are written beside it: the in-process run has them in its file map."""
    os.makedirs(d, exist_ok=True)
    with open(os.path.join(d, name), "wb") as f:
        f.write(data)
    for xname, xtext in (extra_files or {}).items():
        if ('"%s"' % xname).encode("utf-8") in data and os.sep not in xname:
            with open(os.path.join(d, xname), "w", encoding="utf-8") as f:
                f.write(xtext)
    out = os.path.join(d, "out")
    cmd = [fw.PY, os.path.join(fw.REPO, "embossc"), "--import-dir", d, "--import-dir", fw.REPO, "--output-path", out,
           "--color-output", "never"] + list(extra_args) + [name]
    env = dict(os.environ)
    env.update(fw.repo_env())
    try:
        p = subprocess.run(cmd, cwd=d, env=env, stdin=subprocess.DEVNULL, stdout=subprocess.PIPE, stderr=subprocess.PIPE,
                           timeout=300)
    except subprocess.TimeoutExpired:
        return {"rc": None, "stderr": "[timeout]", "stdout": "", "header": None}
    hp = os.path.join(out, name + ".h")
    header = open(hp, "rb").read() if os.path.exists(hp) else None
    return {"rc": p.returncode, "stderr": p.stderr.decode("utf-8", "replace"), "stdout": p.stdout.decode("utf-8", "replace"),
            "header": header}


def clean_stderr(s):
    return "\n".join(l for l in s.splitlines() if "WARNING conda" not in l)


# ----------------------------------------------------------------------------
def load_corpus():
    out = []
    for p in sorted(glob.glob(os.path.join(fw.VERIF, "corpus", "C16", "*.json"))):
        j = json.load(open(p, encoding="utf-8"))
        out.append(("corpus:" + os.path.basename(p), j["text"], j.get("key")))
    return out


def build_inputs(ctx, n_fuzz):
    """The corpus of minimised past failures first, then n_fuzz distinct generated inputs."""
    inputs = [(lab, txt) for lab, txt, _ in load_corpus()]
    # seed-independent: every `$`-keyword, in six forms, in every expression position
    inputs += gen_fuzz.keyword_position_cases()
    # seed-independent: diagnostics whose notes point into an imported file or the prelude
    inputs += gen_fuzz.cross_file_cases()
    # seed-independent: static references x forms x positions; attribute names x back ends x values x scopes
    inputs += gen_fuzz.static_reference_cases()
    inputs += gen_fuzz.leaf_kind_cases()
    inputs += gen_fuzz.param_kind_cases()
    inputs += gen_fuzz.twin_cases()[0]
    inputs += gen_fuzz.attribute_cases()
    # seed-independent: identifier shapes in every naming position; 64-bit ranges with user-written and synthesized expressions
    inputs += gen_fuzz.identifier_shape_cases()
    inputs += gen_fuzz.wide_range_cases()
    n_corpus = len(inputs)
    seen = set()
    while len(inputs) < n_fuzz + n_corpus:
        lab, txt = gen_fuzz.generate(ctx.rng, fw.REPO)
        h = hashlib.sha1(txt.encode("utf-8", "surrogatepass")).digest()
        if h in seen:
            ctx.count("duplicate-input")
            if len(seen) > 3 * n_fuzz:
                break
            continue
        seen.add(h)
        inputs.append((lab, txt))
    return inputs


N_MODEL_QUICK, N_FUZZ_QUICK = 120, 800


def run(ctx):
    ctx.rule = ("model: random sources/messages/error lists/scripted pass outputs/parse errors against each mirrored Python function; "
                "pipeline: mixture of random bytes, token soup, grammar derivations from module_ir.PRODUCTIONS, semantic soup, "
                "the full enumeration of every $-keyword x 6 forms x 18 expression positions (seed independent), "
                "targeted families (block opened at EOF, $present(param), param.member, bound-of-constant, zero width, odd references, "
                "multi-cycle, deep nesting), token/line mutations of testdata/*.emb and of gen_expr modules, <= 300 lines; "
                "a case is non-trivial when the tokenizer accepts it; distinct by text")
    ctx.trusted = ["Coq 8.16.1 kernel, vm_compute", "harness/props/c16.py, harness/pipe_worker.py, harness/gen_fuzz.py",
                   "CPython 3.12 running /repo's front end, back end and embossc"]
    ctx.assumptions = ["exceptions raised inside passes are outside the Coq model; they are searched for, not proved absent",
                       "the per-line tokenizer and the LR driver are arguments of the model (modelled by the C10 and C08/C09 checks)"]
    phases = ctx.extra.setdefault("phase_seconds", {})
    t_phase = [time.time()]

    def phase(name):
        now = time.time()
        phases[name] = round(now - t_phase[0], 1)
        t_phase[0] = now

    ctx.audit()
    ctx.check_theorems("EmbossV.Pipeline.Properties_C16", "Pipeline/Properties_C16.v", expect_min=20)
    phase("coq")

    extra = {name: text for name, text in gen_fuzz.corpus(fw.REPO)}
    extra.update(gen_fuzz.twin_cases()[1])

    # ---- replay of one recorded violation ------------------------------------------
    if getattr(ctx, "replay_path", None):
        rp = json.load(open(ctx.replay_path, encoding="utf-8"))
        r = rp.get("replay", {})
        if r.get("kind") == "emb":
            files = make_files(r["text"], extra)
            rec = pw.strip(pw.compile_files(files, MAIN))
            probs = judge(rec, files)
            ctx.case(("replay", r["text"]), nontrivial=True, sample={"replay": ctx.replay_path, "outcome": rec["status"]})
            ctx.obligation("replay: %s no longer fails" % rp.get("key"), not probs)
            for key, desc in probs:
                ctx.violation(key, desc, dict(kind="emb", main=MAIN, text=r["text"]), found_input=True)
            return
        if r.get("kind") == "cli" and r.get("file_bytes_hex") is not None:
            res = run_cli(ctx, os.path.join(ctx.bdir, "replay"), bytes.fromhex(r["file_bytes_hex"]))
            err = clean_stderr(res["stderr"])
            bad = "Traceback (most recent call last)" in err or res["rc"] not in (0, 1)
            ctx.case(("replay-cli", r["file_bytes_hex"]), nontrivial=True)
            ctx.obligation("replay: %s no longer fails" % rp.get("key"), not bad)
            if bad:
                ctx.violation(cli_key(err) if "Traceback" in err else "cli-exit-status", err.strip().splitlines()[-1][:200],
                              dict(kind="cli", file_bytes_hex=r["file_bytes_hex"], stderr=err[-1500:]), found_input=True)
            return
        ctx.note("replay file of kind %r: running the whole check" % r.get("kind"))

    # ---- (i) the mirrored functions ---------------------------------------------
    n_model = 600 if ctx.thorough() else N_MODEL_QUICK
    mc = model_cases(ctx, n_model)
    phase("model-cases")

    # ---- (ii) generated inputs through the real pipeline ------------------------
    n_fuzz = 30000 if ctx.thorough() else N_FUZZ_QUICK
    inputs = build_inputs(ctx, n_fuzz)
    phase("generate")
    nproc = min(fw.NPROC, 16)
    chunks = [inputs[i::nproc * 4] for i in range(nproc * 4)]
    results = []
    import multiprocessing
    mpctx = multiprocessing.get_context("fork")
    with concurrent.futures.ProcessPoolExecutor(max_workers=nproc, mp_context=mpctx) as ex:
        for part in ex.map(batch_worker, [(c, extra) for c in chunks]):
            results += part

    phase("pipeline")
    found = {}          # key -> (text, desc, label, count)
    fmt_cases = []
    replay_chars = [0]
    for label, text, rec, probs in results:
        fam = label.split(":")[0]
        ctx.count("input:" + fam)
        ctx.count("outcome:" + rec["status"] + (":" + rec["stage"] if rec["status"] != "ok" else ""))
        tokenizes = not (rec["status"] == "rejected" and rec["messages"] and rec["messages"][0]
                         and rec["messages"][0][0]["creator"] in ("_tokenize_line", "tokenize"))
        ctx.case(("t", text), nontrivial=tokenizes,
                 sample={"family": label, "text": text[:200], "outcome": rec["status"],
                         "first_message": (rec.get("formatted_nosrc") or "")[:160]})
        for key, desc in probs:
            old = found.get(key)
            if old is None or len(text) < len(old[0]):
                found[key] = (text, desc, label, (old[3] if old else 0) + 1)
            else:
                found[key] = (old[0], old[1], old[2], old[3] + 1)
        # replay of the real Message objects through the model's format
        if rec["status"] == "rejected" and rec.get("parts") and len(fmt_cases) < (1500 if ctx.thorough() else 200):
            flat = [m for g in rec["messages"][:3] for m in g[:3]]
            files = make_files(text, extra)
            for m, parts in zip(flat, rec["parts"]):
                if len(text) <= 2500 and replay_chars[0] < (1500000 if ctx.thorough() else 150000):   # Coq parses ~20k code points/s
                    replay_chars[0] += len(text)
                    src = {k: files[k] for k in {m["file"], MAIN} if k in files}   # as passed to format_errors
                    fmt_cases.append(("CFormat %s %s" % (csources(src), cmsg(m["file"], m["loc"], m["severity"], m["text"])),
                                      "RParts %s" % cparts(parts), {"kind": "format-replay", "text": text, "message": m, "crash": None}))
                    ctx.count("model:format-replay")
    n_viol0 = len(ctx.violations)
    # shrink one representative per class (in parallel); classes already listed as known keep their shortest input
    listed = {k["key"] for k in ctx.known if k.get("status") == "known"}
    budget = 600 if ctx.thorough() else 150
    small = {key: found[key][0] for key in found}
    todo = [key for key in sorted(found) if key not in listed and not found[key][2].startswith("corpus:")]
    with concurrent.futures.ProcessPoolExecutor(max_workers=nproc, mp_context=mpctx) as ex:
        futs = {key: ex.submit(shrink, found[key][0], extra, key, budget) for key in todo}
        for key, f in futs.items():
            small[key] = f.result()
    for key in sorted(found):
        text, desc, label, cnt = found[key]
        ctx.violation(key, "%s [family %s, %d inputs]" % (desc, label, cnt),
                      dict(kind="emb", entry="glue.parse_emboss_file + header_generator.generate_header + error.format_errors",
                           main=MAIN, text=small[key], original_text=text if text != small[key] else None, occurrences=cnt),
                      found_input=True)

    ctx.obligation("pipeline: %d generated inputs, every outcome is output or well-formed located errors "
                   "(apart from %d classes listed as known findings)" % (len(results), len(ctx.known_hits)),
                   len(ctx.violations) == n_viol0)
    phase("shrink")
    # ---- model cases through Coq ------------------------------------------------
    allc = mc + fmt_cases
    runner = fw.CoqCases(ctx, "c16", HEADER, "run_c16", "c16_res_eqb", "c16_call", "c16_res", shard=120, timeout=1500)
    # a Python exception where the model is total is a finding by itself
    for inp, exp, info in allc:
        if info.get("crash") and info["kind"] != "parse_error":
            ctx.violation(classify_crash(info["crash"]), "uncaught %s in %s on a constructed %s call" % (
                info["crash"]["exc"], info["crash"]["func"], info["kind"]),
                dict(kind="call", function=info["kind"], arguments={k: str(v)[:1500] for k, v in info.items() if k != "crash"},
                     exception=info["crash"]), found_input=True)
    bad = runner.run(allc)
    ctx.obligation("correspondence: %d calls of splitlines/format/format_errors/split_errors/process_ir/"
                   "make_error_from_parse_error/end marker agree with the model" % len(allc), not bad)
    kinds_bad = {}
    for idx, out in bad:
        kinds_bad.setdefault(allc[idx][2]["kind"], []).append((idx, out))
    for kind, lst in sorted(kinds_bad.items()):
        idx, out = lst[0]
        inp, exp, info = allc[idx]
        if kind == "parse_error" and info.get("crash"):
            # the implementation raised where the model says "defined" (or the reverse): a real end-of-input error?
            rec = pw.strip(pw.compile_files(make_files("struct Foo:\n", extra), MAIN))
            probs = judge(rec, make_files("struct Foo:\n", extra))
            if probs:
                ctx.violation(probs[0][0], probs[0][1], dict(kind="emb", main=MAIN, text="struct Foo:\n"), found_input=True)
                continue
        if kind == "end_marker":
            rec = pw.strip(pw.compile_files(make_files("struct Foo:\n", extra), MAIN))
            probs = judge(rec, make_files("struct Foo:\n", extra))
            if probs:
                ctx.violation(probs[0][0], probs[0][1], dict(kind="emb", main=MAIN, text="struct Foo:\n"), found_input=True)
                continue
        ctx.violation("model-mismatch:" + kind, "the model of %s disagrees with the implementation on %d of the cases" % (kind, len(lst)),
                      dict(kind="correspondence", correspondence="Pipeline.Exec.run_c16 vs compiler (%s)" % kind, call=inp[:3000],
                           python=exp[:3000], model_outputs=out[:3000], info={k: str(v)[:800] for k, v in info.items()}),
                      found_input=False)

    phase("coq-cases")
    # ---- (iii) the embossc CLI --------------------------------------------------
    n_cli = 160 if ctx.thorough() else 30
    by_status = {}
    for label, text, rec, probs in results:
        by_status.setdefault((rec["status"], rec["stage"]), []).append((label, text, rec))
    sample = []
    keys = sorted(by_status)
    i = 0
    while len(sample) < n_cli - 6 and keys:
        k = keys[i % len(keys)]
        if by_status[k]:
            sample.append(by_status[k].pop(ctx.rng.randrange(len(by_status[k]))))
        else:
            keys.remove(k)
            continue
        i += 1
    cdir = os.path.join(ctx.bdir, "cli")
    shutil.rmtree(cdir, ignore_errors=True)
    jobs = []
    for j, (label, text, rec) in enumerate(sample):
        try:
            data = text.encode("utf-8")
        except UnicodeEncodeError:
            ctx.count("cli:skip-unencodable")
            continue
        if "\r" in text:
            ctx.count("cli:skip-universal-newlines")     # open() translates \r; the in-process text would differ
            continue
        jobs.append((os.path.join(cdir, "c%d" % j), data, label, text, rec))
    # raw byte strings that are not UTF-8, an empty file, a directory in place of the file
    raw = [b"struct Foo:\n  0 [+1]  UInt  x  # \xff\xfe\n", b"\xff", b"\xc3", b"", b"struct Foo:\n  0 [+1]  UInt  x\n\x80"]
    for j, data in enumerate(raw):
        jobs.append((os.path.join(cdir, "r%d" % j), data, "cli-raw", None, None))
    cli_found = {}
    with concurrent.futures.ThreadPoolExecutor(max_workers=min(fw.NPROC, 16)) as ex:
        twins = gen_fuzz.twin_cases()[1]
        futs = [(ex.submit(run_cli, ctx, d, data, "m.emb", (), twins), d, data, label, text, rec) for d, data, label, text, rec in jobs]
        for fut, d, data, label, text, rec in futs:
            res = fut.result()
            ctx.count("cli:" + label.split(":")[0])
            err = clean_stderr(res["stderr"])
            key = desc = None
            if res["rc"] is None:
                key, desc = "cli-timeout", "embossc did not finish in 300 s"
            elif "Traceback (most recent call last)" in err:
                key = cli_key(err)
                desc = "embossc printed a traceback: " + err.strip().splitlines()[-1][:200]
            elif res["rc"] not in (0, 1):
                key, desc = "cli-exit-status", "embossc exit status %r" % res["rc"]
            elif rec is not None and rec["status"] == "rejected":
                want = rec["formatted_nosrc"] if rec["stage"] == "front_end" else rec["formatted"]
                unreadable = any(m["creator"] == "parse_module" for g in rec["messages"] for m in g)
                if unreadable:
                    # the notes quote the operating system's error text for each import directory
                    ctx.count("cli:unreadable-import-not-compared")
                    if res["rc"] != 1 or "Unable to read file." not in err:
                        key, desc = "cli-differs-from-library", "embossc does not report the unreadable import the library reports"
                elif res["rc"] != 1 or err.strip("\n") != (want or "").strip("\n"):
                    key, desc = "cli-differs-from-library", "embossc's diagnostics differ from error.format_errors of the in-process run"
            elif rec is not None and rec["status"] == "ok":
                # the in-process run has compiled other modules before: anonymous fields are numbered differently (C17)
                if res["rc"] != 0 or res["header"] is None or hashlib.sha1(
                        pw.canon_anon(res["header"].decode("utf-8", "surrogatepass")).encode("utf-8", "surrogatepass")
                ).hexdigest() != rec["header_canon_sha"]:
                    key, desc = "cli-differs-from-library", "embossc's header differs from generate_header of the in-process run"
            elif rec is not None and rec["status"] == "crash":
                key, desc = "cli-no-crash", "the in-process run crashed (%s) but embossc did not" % classify_crash(rec["crash"])
            elif rec is None and res["rc"] == 0 and res["header"] is None:
                key, desc = "cli-no-output", "exit status 0 without a header"
            ctx.case(("cli", data), nontrivial=True)
            if key and key not in cli_found:
                cli_found[key] = (desc, data, err, text)
    n_viol1 = len(ctx.violations)
    for key, (desc, data, err, text) in sorted(cli_found.items()):
        if key in found:
            continue        # same crash class already reported with a shrunk input
        ctx.violation(key, desc, dict(kind="cli", entry="embossc", file_bytes_hex=data.hex() if len(data) < 4000 else None,
                                      text=text, stderr=err[-1500:]), found_input=True)
    ctx.obligation("embossc CLI: %d runs, no traceback, exit status 0/1, diagnostics/header equal to the library's "
                   "(apart from classes listed as known findings)" % len(jobs), len(ctx.violations) == n_viol1)
    phase("cli")
    ctx.extra["distinct_violation_keys"] = sorted(set(found) | set(cli_found))
