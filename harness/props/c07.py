"""C07 — every module the compiler accepts yields a header that compiles and instantiates."""
import concurrent.futures
import glob
import json
import os
import re
import shutil
import subprocess
import time

from harness import fw, gen_names

LEVEL = "proof"
META = {
    "category": "partial",
    "technique": "Coq proof about the logical part of 'the header compiles' (rendered integer literals, front-end size "
                 "constraints vs the runtime's static_asserts, the identifiers declared per C++ scope) + exploration: "
                 "generated modules -> real embossc (with and without enum traits) -> g++ -std=c++11/14/17 (plus "
                 "-pedantic-errors) on a driver that instantiates every view, accessor, constant, enum helper and text "
                 "method; static constants printed by the driver are compared with the IR",
    "level_text": "PARTIAL. Machine-checked (Coq 8.16, no axioms): every integer the front end can pass to _render_integer "
                  "(all of [-2^63, 2^64)) is rendered as a well-formed ISO C++ constant expression denoting exactly that value "
                  "(and the -2^63 special case is necessary); the front end's size constraints imply the modelled runtime "
                  "static_asserts (UInt/Int/Bcd/Flag/Float/enum views, BitBlock, IntView-in-block); 'identifiers declared in "
                  "one C++ scope are distinct' is REFUTED with eight accepted witnesses (F5 enum case collision, F6 virtual "
                  "view / validator collision, has_ accessor, private member, nested enum vs member, type vs generated alias) "
                  "and PROVED under an explicit guard (case conversion injective on the scope's names and no Emboss name "
                  "spelled like a generated identifier). That g++ accepts the whole header is NOT proved: it is explored on "
                  "generated modules on every run; any rejection of an accepted module is reported as a violation keyed by "
                  "mechanism.",
    "level_note": "Trusted: Coq kernel + vm_compute; harness/gen_names.py and harness/props/c07.py (generator, driver text, "
                  "classification of g++ diagnostics); g++ 12 as the oracle of C++ validity (-std=c++11/14/17, "
                  "-pedantic-errors for ISO conformance). Modelled, not verified: header_generator.py and the templates. "
                  "The set of runtime static_asserts is fingerprinted on every run so that a new assert breaks the tie.",
}

HEADER = "Require Import EmbossV.Enum.Model EmbossV.Enum.Exec EmbossV.Names.Cpp EmbossV.Names.Exec.\nOpen Scope Z_scope.\n"

# mechanism keys
K_ENUM_CASE = "cpp-enum-case-collision"               # F5
K_VIRTUAL_VIEW = "cpp-virtual-view-name-collision"    # F6 (virtual view classes and [requires] validators)
K_SWITCH = "cpp-switch-label-narrowing"               # F10
K_ENUM_PARAM = "cpp-enum-parameter-type-mismatch"     # F14
K_ALIAS_VIRTUAL = "cpp-alias-of-virtual-deleted-ctor"
K_MACRO = "cpp-enum-name-is-system-macro"
K_FIELD_MACRO = "cpp-field-name-is-system-macro"
K_HAS = "cpp-has-accessor-collision"
K_PRIVATE = "cpp-field-name-private-member"
K_NESTED_ENUM = "cpp-nested-enum-name-member-collision"
K_TYPE_GEN = "cpp-type-name-generated-collision"
K_UNSUFFIXED = "cpp-enum-constant-unsuffixed-literal"
K_KEYWORD = "cpp-keyword-accepted-as-name"
K_ARRAY_EQUALS = "cpp-equals-array-of-parameterized-structs"
K_GUARD_NORM = "cpp-header-guard-collision-normalised-path"   # distinct paths equal after the documented normalisation
K_GUARD = "cpp-header-guard-collision"                        # distinct guards by the documented rule, equal in the header

# The static_assert conditions of runtime/cpp/*.h that section 2 of Names/Cpp.v was written against (those that
# depend on IR quantities are modelled; the others are type-level or platform facts).  Compared with the working
# tree on every run: a new or changed assert breaks the tie.
MODELLED_STATIC_ASSERTS = [
    'emboss_arithmetic.h: ::std::is_same<ConditionT, bool>::value',
    'emboss_arithmetic.h: ::std::is_same<IntermediateT, ResultT>::value',
    'emboss_arithmetic.h: ::std::is_same<IntermediateT, bool>::value',
    'emboss_arithmetic.h: ::std::is_same<LeftT, bool>::value',
    'emboss_arithmetic.h: ::std::is_same<ResultT, bool>::value',
    'emboss_arithmetic.h: ::std::is_same<RightT, bool>::value',
    'emboss_arithmetic.h: ::std::is_signed<LeftT>::value || ::std::is_signed<RightT>::value',
    'emboss_arithmetic.h: ::std::is_unsigned<LeftT>::value || ::std::is_unsigned<RightT>::value',
    'emboss_bit_util.h: !::std::is_signed<T>::value',
    'emboss_cpp_types.h: kBits <= 64',
    'emboss_cpp_types.h: kBits == 32 || kBits == 64',
    'emboss_cpp_types.h: sizeof(double) * CHAR_BIT == 64',
    'emboss_cpp_types.h: sizeof(float) * CHAR_BIT == 32',
    'emboss_cpp_types.h: sizeof(long long) * CHAR_BIT >= 64, // NOLINT "Emboss requires that long long is at least 64 bits."',
    'emboss_enum_view.h: Parameters::kBits <= sizeof(ValueType) * 8',
    'emboss_memory_util.h: CHAR_BIT == 8',
    'emboss_memory_util.h: IsAliasSafe<Byte>::value',
    'emboss_memory_util.h: IsAliasSafe<CharT>::value',
    'emboss_memory_util.h: IsPowerOfTwo(kAlignment)',
    'emboss_memory_util.h: kBits % 8 == 0',
    'emboss_memory_util.h: kBits == 8',
    'emboss_memory_util.h: kBufferSizeInBits % 8 == 0',
    'emboss_memory_util.h: kBufferSizeInBits <= 64',
    'emboss_memory_util.h: kOffset < kAlignment',
    'emboss_memory_util.h: kSubAlignment == 0 || kSubAlignment > kSubOffset',
    'emboss_prelude.h: !::std::is_signed<ValueType>::value',
    'emboss_prelude.h: Parameters::kBits <= sizeof(ValueType) * 8',
    'emboss_prelude.h: Parameters::kBits == 1',
    'emboss_prelude.h: Parameters::kBits == 32 || Parameters::kBits == 64',
    'emboss_prelude.h: sizeof(ValueType) <= sizeof(typename BitViewType::ValueType)',
    'emboss_text_util.h: !::std::is_same<bool, typename ::std::remove_cv<IntegralType>::type>::value',
    'emboss_text_util.h: ::std::is_same<Float, float>::value || ::std::is_same<Float, double>::value',
    'emboss_text_util.h: ::std::numeric_limits< typename ::std::remove_cv<IntegralType>::type>::is_integer',
    'emboss_text_util.h: sizeof(double) == 8',
    'emboss_text_util.h: sizeof(float) == 4',
]


def z(n):
    return fw.coq_Z(n)


def cstr(s):
    return fw.coq_string(s)


def fast_embossc_env():
    os.environ.pop("PYTHONDONTWRITEBYTECODE", None)
    os.environ["PYTHONPYCACHEPREFIX"] = os.path.join(fw.BUILD, "pycache")
    fw.sh([fw.PY, "-c", "import compiler.front_end.generated.cached_parser"], env=fw.repo_env(), timeout=300)


# ------------------------------------------------------------------------------
# (i) literals
# ------------------------------------------------------------------------------

def literal_cases(ctx, n):
    from compiler.back_end.cpp import header_generator as hg
    r = ctx.rng
    edges = [0, 1, -1, 2**31 - 1, 2**31, -2**31, -2**31 - 1, 2**32 - 1, 2**32, 2**63 - 1, 2**63, -2**63, -2**63 + 1,
             2**64 - 1, 2**64, -2**63 - 1, 2**70, -2**70, 255, 256, 65535, 10**18, -10**18, 9, 10, 99, 100]
    cases = []
    for i in range(n):
        k = r.random()
        if i < len(edges):
            v = edges[i]
        elif k < 0.4:
            v = r.choice(edges) + r.randint(-3, 3)
        elif k < 0.7:
            e = r.randint(0, 64)
            v = r.randint(-2**e, 2**e)
        else:
            v = r.randint(-2**63, 2**64 - 1)
        try:
            txt = hg._render_integer(v)
        except AssertionError:
            txt = None
        if txt is None:
            exp = "None"
        else:
            exp = "(Some (%s, Some %s))" % (fw.coq_codes(txt), z(v))
        cases.append((z(v), exp, (v, txt)))
        ctx.count("literal:" + ("out-of-range" if txt is None else "min-int64" if v == -2**63 else
                                "negative" if v < 0 else "above-int64" if v >= 2**63 else "non-negative"))
    return cases


def literal_driver(cases):
    """C++ whose output shows what g++ takes the rendered texts to denote."""
    L = ["#include <cstdint>", "#include <iostream>", "int main() {"]
    for i, (_, _, (v, txt)) in enumerate(cases):
        if txt is None:
            continue
        if v < 0:
            L.append('  std::cout << "L i=%d v=" << static_cast<long long>(%s) << "\\n";' % (i, txt))
        else:
            L.append('  std::cout << "L i=%d v=" << static_cast<unsigned long long>(%s) << "\\n";' % (i, txt))
    L.append("  return 0;\n}\n")
    return "\n".join(L)


# ------------------------------------------------------------------------------
# (ii) primitive sizes: front end verdict vs prim_size_ok
# ------------------------------------------------------------------------------

def compile_in_process(files, main=None, traits=True):
    """(status, ir, header, messages): 0 accepted, 1 front end rejects, 2 back end rejects."""
    from compiler.front_end import glue
    from compiler.back_end.cpp import header_generator as hg

    def reader(fn):
        if fn in files:
            return files[fn], None
        p = os.path.join(fw.REPO, fn)
        if os.path.exists(p):
            return open(p).read(), None
        return None, ["file not found: " + fn]

    main = main or next(iter(files))
    ir, _, errors = glue.parse_emboss_file(main, reader)
    if errors:
        return 1, None, None, [e[0].message for e in errors]
    header, errors = hg.generate_header(ir, hg.Config(include_enum_traits=traits))
    if errors:
        return 2, ir, None, [e[0].message for e in errors]
    return 0, ir, header, []


def prim_cases(ctx):
    cases = []
    sizes = list(range(0, 70)) + [72, 80, 96, 128]
    for code, ty in enumerate(["UInt", "Int", "Bcd", "Flag", "Float"]):
        for bits in sizes:
            if bits == 0:
                continue
            text = ('[$default byte_order: "LittleEndian"]\nbits Bb:\n  0 [+%d]  %s  f\n' % (bits, ty))
            st, _, _, msgs = compile_in_process({"m.emb": text})
            accepted = st == 0
            # bits types above 64 bits are rejected for another reason; the prelude requirement is what is modelled
            only_req = accepted or any("Requirements of" in m for m in msgs) or bits <= 64
            if not only_req:
                ctx.count("prim:rejected-for-another-reason")
                continue
            cases.append(("(%d%%N, %s)" % (code, z(bits)), "(%s, %s)" % (fw.coq_bool(accepted), fw.coq_bool(accepted)),
                          (ty, bits, accepted)))
            ctx.count("prim:%s:%s" % (ty, "accepted" if accepted else "rejected"))
    return cases


def static_assert_fingerprint():
    """Texts of the static_assert conditions of the runtime (regenerated on every run)."""
    out = []
    for p in sorted(glob.glob(os.path.join(fw.REPO, "runtime", "cpp", "*.h"))):
        src = open(p).read()
        for m in re.finditer(r"static_assert\s*\(", src):
            i, depth, j = m.end(), 1, m.end()
            while depth and j < len(src):
                depth += {"(": 1, ")": -1}.get(src[j], 0)
                j += 1
            body = " ".join(src[i:j - 1].split())
            cond = body.rsplit(', "', 1)[0] if ', "' in body else body
            out.append("%s: %s" % (os.path.basename(p), cond))
    return sorted(set(out))


# ------------------------------------------------------------------------------
# (iii) scopes: Python mirror of the declared identifiers (validated against Coq)
# ------------------------------------------------------------------------------

def py_class_groups(sc, traits=True):
    u = "Bytes" if sc["units"] == "bytes" else "Bits"
    camel = gen_names.snake_to_camel_py
    dollars = ["IntrinsicSizeIn" + u, "MaxSizeIn" + u, "MinSizeIn" + u]
    fnames = [f["name"] for f in sc["fields"]]
    fixed = ["Generic" + sc["name"] + "View", "Storage", "Ok", "BackingStorage", "IsComplete", "SizeIn" + u, "SizeIsKnown",
             "Equals", "UncheckedEquals", "UncheckedCopyFrom", "CopyFrom", "TryToCopyFrom", "IsAggregate"] + \
            (["UpdateFromTextStream", "WriteToTextStream"] if traits else []) + dollars
    private = ["backing_"] + (["parameters_initialized_"] if sc["params"] else []) + [p + "_" for p in sc["params"]]
    return [["has_" + n for n in fnames + sc["params"] + dollars], private, fnames + sc["params"],
            ["EmbossReservedVirtual" + camel(f["name"]) + "View" for f in sc["fields"] if f["kind"] == "virtual"],
            ["EmbossReservedDollarVirtual" + d + "View" for d in dollars], fixed + sc["enums"]]


def py_ns_groups(sc, traits=True):
    camel = gen_names.snake_to_camel_py
    S = sc["structs"]
    shared = ["EnumTraits", "TryToGetEnumFromName", "TryToGetNameFromEnum", "EnumIsKnown"] if (sc["enums"] and traits) else []
    return [["EmbossReservedValidatorFor" + camel(f) for f in sc["validated"]],
            ["EmbossReservedInternalIsGeneric" + t + "View" for t in S], ["MakeAligned" + t + "View" for t in S],
            ["Make" + t + "View" for t in S], ["Generic" + t + "View" for t in S], [t + "Writer" for t in S],
            [t + "View" for t in S], S + sc["enums"] + shared]


def py_enum_groups(sc):
    out = []
    for nm, v, attr in sc["values"]:
        cases = ["SHOUTY_CASE"] if attr is None else [c.strip() for c in attr.split(",") if c.strip()]
        for c in cases:
            out.append(nm if c == "SHOUTY_CASE" else "k" + gen_names.snake_to_camel_py(nm))
    return [out]


def py_collisions(groups):
    tagged = [(i + 1, x) for i, g in enumerate(groups) for x in g]
    pairs = []
    for a in range(len(tagged)):
        for b in range(a + 1, len(tagged)):
            if tagged[a][1] == tagged[b][1]:
                pairs.append((tagged[a][0], tagged[b][0]))
    # the model removes a pair when an equal pair occurs later in the list
    out = []
    for i, p in enumerate(pairs):
        if p not in pairs[i + 1:]:
            out.append(p)
    return out


def scope_groups(sc):
    return py_class_groups(sc) if sc["kind"] == "class" else py_ns_groups(sc) if sc["kind"] == "ns" else py_enum_groups(sc)


def scope_term(sc):
    if sc["kind"] == "class":
        fs = fw.coq_list(["(mk_field %s %s %s)" % (cstr(f["name"]), {"physical": "Physical", "virtual": "Virtual", "alias": "Alias"}[f["kind"]],
                                                   fw.coq_bool(f["requires"])) for f in sc["fields"]])
        return "(ClassScope (mk_structure %s %s %s %s %s true))" % (
            cstr(sc["name"]), "UBytes" if sc["units"] == "bytes" else "UBits", fs,
            fw.coq_list([cstr(p) for p in sc["params"]]), fw.coq_list([cstr(e) for e in sc["enums"]]))
    if sc["kind"] == "ns":
        return "(NsScope (mk_nspace %s %s %s true))" % (fw.coq_list([cstr(f) for f in sc["validated"]]),
                                                        fw.coq_list([cstr(t) for t in sc["structs"]]),
                                                        fw.coq_list([cstr(t) for t in sc["enums"]]))
    vals = fw.coq_list(["(%s, %s, %s)" % (cstr(n), z(v), "None" if a is None else "(Some %s)" % cstr(a)) for n, v, a in sc["values"]])
    return "(enum_scope_of %s)" % vals


COLLISION_KEYS = {
    "enum": lambda p: K_ENUM_CASE,
    "class": lambda p: (K_VIRTUAL_VIEW if p == (4, 4) else K_HAS if 1 in p else K_PRIVATE if 2 in p else
                        K_NESTED_ENUM if p == (6, 6) else "cpp-class-scope-collision:%d-%d" % p),
    "ns": lambda p: (K_VIRTUAL_VIEW if p == (1, 1) else K_TYPE_GEN),
}


# ------------------------------------------------------------------------------
# (iv) driver
# ------------------------------------------------------------------------------

DRIVER_HEAD = r"""
#include <cstdint>
#include <cstring>
#include <iostream>
#include <sstream>
#include <string>
#include <type_traits>
%(includes)s
template <class T> static void use(const T &) {}
template <class U> static std::string num(U v) {
  std::ostringstream o;
  if (std::is_signed<U>::value) o << static_cast<long long>(v); else o << static_cast<unsigned long long>(v);
  return o.str();
}
template <class E> static typename std::enable_if<std::is_enum<E>::value, std::string>::type
enum_num(E e) { return num(static_cast<typename std::underlying_type<E>::type>(e)); }
static std::string enum_num(bool b) { return b ? "1" : "0"; }
template <class T> static typename std::enable_if<std::is_integral<T>::value && !std::is_same<T, bool>::value, std::string>::type
enum_num(T v) { return num(v); }
"""


def impl_spelling(name, attr):
    from compiler.back_end.cpp import header_generator as hg
    from compiler.util import name_conversion
    cases = ["SHOUTY_CASE"] if attr is None else hg._split_enum_case_values(attr)
    return [name_conversion.convert_case("SHOUTY_CASE", c, name) for c in cases]


def main_file(md):
    return md.get("main") or next(iter(md["files"]))


def driver_head(md):
    # the main header first (it must be self-contained), then every other header of the set, in one translation unit
    files = [main_file(md)] + [f for f in md["files"] if f != main_file(md)]
    return DRIVER_HEAD % dict(includes="\n".join('#include "%s.h"' % f for f in files))


def ns_of(md, x):
    return "::" + "::".join(x.get("ns") or md["namespace"])


def build_driver(md, traits=True, const_only=False):
    if const_only:
        return build_const_driver(md)
    L = [driver_head(md), "int main() {"]
    for i, e in enumerate(md["enums"]):
        q = ns_of(md, e) + "::" + "::".join(e["cpp"])
        L.append("  {")
        L.append("    typedef %s T;" % q)
        j = 0
        for nm, v, attr in e["values"]:
            for sp in impl_spelling(nm, attr):
                L.append('    std::cout << "ENUMCONST e=%d j=%d v=" << enum_num(T::%s) << "\\n";' % (i, j, sp))
                j += 1
        if traits:
            L.append('    T x = static_cast<T>(0); use(TryToGetEnumFromName("%s", &x)); use(TryToGetNameFromEnum(x)); use(EnumIsKnown(x));' % e["values"][0][0])
            L.append("    std::ostringstream os; os << x; use(os.str());")
        L.append("  }")
    for i, s in enumerate(md["structs"]):
        path = s["cpp"]
        ns = ns_of(md, s)
        prefix = ns + "".join("::" + c for c in path[:-1])
        nm = path[-1]
        args = []
        for p in s["params"]:
            if p["type"].startswith("UInt"):
                args.append("3")
            else:
                ecpp = "::" + "::".join(p.get("enum_ns") or md["namespace"]) + "::" + "::".join(p["enum"])
                args.append("static_cast</**/%s>(1)" % ecpp)
        a = "".join(x + ", " for x in args)
        n = 16384 if s.get("dynamic") else max(1, s["size"]) + 8
        L.append("  {")
        L.append("    alignas(8) unsigned char buf[%d]; alignas(8) unsigned char buf2[%d];" % (n, n))
        L.append("    std::memset(buf, 0, sizeof buf); std::memset(buf2, 1, sizeof buf2);")
        L.append("    auto v = %s::Make%sView(%sbuf, sizeof buf);" % (prefix, nm, a))
        L.append("    auto w = %s::Make%sView(%sbuf2, sizeof buf2);" % (prefix, nm, a))
        L.append("    %s::%sView cv(%sstatic_cast<const unsigned char *>(buf), sizeof buf); use(cv.Ok());" % (prefix, nm, a))
        L.append("    %s::%sWriter wv(%sbuf, sizeof buf); use(wv.Ok());" % (prefix, nm, a))
        L.append("    auto av = %s::MakeAligned%sView<unsigned char, 8>(%sbuf, sizeof buf); use(av.IsComplete());" % (prefix, nm, a))
        L.append("    use(v.Ok()); use(v.IsComplete()); use(v.SizeIsKnown()); if (v.SizeIsKnown()) use(v.SizeInBytes());")
        L.append("    use(v.BackingStorage()); use(decltype(v)::IsAggregate());")
        L.append("    use(v.IntrinsicSizeInBytes().Ok()); use(v.has_IntrinsicSizeInBytes().ValueOr(false));")
        L.append('    std::cout << "CONST s=%d k=$max_size_in_bytes v=" << num(decltype(v)::MaxSizeInBytes().Read()) << "\\n";' % i)
        L.append('    std::cout << "CONST s=%d k=$min_size_in_bytes v=" << num(decltype(v)::MinSizeInBytes().Read()) << "\\n";' % i)
        L.append("    use(v.Equals(w)); use(v.UncheckedEquals(w)); use(v.TryToCopyFrom(w)); use(cv.Equals(v));")
        L.append("    if (w.Ok()) { v.CopyFrom(w); v.UncheckedCopyFrom(w); }")
        if traits:
            L.append('    use(::emboss::WriteToString(v)); use(::emboss::UpdateFromText(v, "{}"));')
            L.append("    use(::emboss::WriteToString(v, ::emboss::MultilineText()));")
        for f in s["fields"]:
            fn, cls = f["name"], f["cls"]
            L.append("    {")
            L.append("      use(v.has_%s().ValueOr(false)); auto f = v.%s(); use(f.Ok()); use(cv.%s().Ok());" % (fn, fn, fn))
            if cls in ("uint", "int"):
                L.append("      use(f.IsComplete()); if (f.Ok()) { use(f.Read()); use(f.UncheckedRead()); } use(f.CouldWriteValue(1)); use(f.TryToWrite(1)); use(decltype(f)::SizeInBits());")
            elif cls == "float":
                L.append("      if (f.Ok()) use(f.Read()); use(f.TryToWrite(1.5f)); use(f.CouldWriteValue(1.5f));")
            elif cls == "flag":
                L.append("      if (f.Ok()) use(f.Read()); use(f.TryToWrite(true)); use(f.CouldWriteValue(false));")
            elif cls == "enum":
                L.append("      typedef decltype(f)::ValueType E; if (f.Ok()) use(f.Read()); use(f.TryToWrite(static_cast<E>(1))); use(f.CouldWriteValue(static_cast<E>(0)));")
            elif cls == "struct":
                L.append("      use(f.IsComplete()); use(f.SizeIsKnown()); if (f.Ok()) use(f.Equals(f));")
            elif cls == "array":
                L.append("      use(f.ElementCount()); use(f.SizeInBytes()); if (f.Ok() && f.ElementCount() > 0 && f[0].Ok()) { use(f[0].Read()); use(f.Equals(f)); }")
            elif cls == "sarray":
                L.append("      use(f.ElementCount()); use(f.SizeInBytes()); if (f.Ok() && f.ElementCount() > 0) { use(f[0].Ok()); use(f[0].IsComplete()); use(f.Equals(f)); }")
            elif cls == "vint_w":     # a virtual field that is writable by the language rule (alias or +/- chain of a writable field)
                L.append("      if (f.Ok()) { use(f.Read()); use(f.UncheckedRead()); } use(f.CouldWriteValue(1)); use(f.TryToWrite(1)); f.UncheckedWrite(1);")
            elif cls in ("vint", "vbool", "venum"):
                L.append("      if (f.Ok()) { use(f.Read()); use(f.UncheckedRead()); }")
            elif cls == "vconst":
                L.append('      std::cout << "CONST s=%d k=%s v=" << enum_num(f.Read()) << "\\n";' % (i, fn))
                L.append("      use(decltype(v)::%s().Read());" % fn)
            if traits and cls not in ("struct", "array", "sarray"):
                L.append("      use(::emboss::WriteToString(f));")
            L.append("    }")
        L.append("  }")
    L.append("  return 0;\n}\n")
    return "\n".join(L)


def build_const_driver(md):
    """Small program that prints the static constants the header exposes (run; compared with the IR)."""
    L = [driver_head(md), "int main() {"]
    for i, e in enumerate(md["enums"]):
        q = ns_of(md, e) + "::" + "::".join(e["cpp"])
        j = 0
        for nm, v, attr in e["values"]:
            for sp in impl_spelling(nm, attr):
                L.append('  std::cout << "ENUMCONST e=%d j=%d v=" << enum_num(%s::%s) << "\\n";' % (i, j, q, sp))
                j += 1
    for i, s in enumerate(md["structs"]):
        path = s["cpp"]
        q = ns_of(md, s) + "".join("::" + c for c in path[:-1]) + "::" + path[-1] + "Writer"
        L.append('  std::cout << "CONST s=%d k=$max_size_in_bytes v=" << num(%s::MaxSizeInBytes().Read()) << "\\n";' % (i, q))
        L.append('  std::cout << "CONST s=%d k=$min_size_in_bytes v=" << num(%s::MinSizeInBytes().Read()) << "\\n";' % (i, q))
        for f in s["fields"]:
            if f["cls"] == "vconst":
                L.append('  std::cout << "CONST s=%d k=%s v=" << enum_num(%s::%s().Read()) << "\\n";' % (i, f["name"], q, f["name"]))
    L.append("  return 0;\n}\n")
    return "\n".join(L)


# ------------------------------------------------------------------------------
# (v) building one module
# ------------------------------------------------------------------------------

def _run(cmd, cwd, timeout=300, env=None):
    e = dict(os.environ)
    if env:
        e.update(env)
    try:
        p = subprocess.run(cmd, cwd=cwd, env=e, stdin=subprocess.DEVNULL, stdout=subprocess.PIPE, stderr=subprocess.STDOUT,
                           timeout=timeout, text=True, errors="replace")
        return p.returncode, "\n".join(l for l in p.stdout.splitlines() if "WARNING conda" not in l)
    except subprocess.TimeoutExpired:
        return 124, "[timeout]"


CONFIGS = [   # (label, header dir, std, extra flags, driver)
    ("c++14", "t", "c++14", ["-fsyntax-only"], "full"),
    ("c++11", "t", "c++11", ["-fsyntax-only"], "full"),
    ("c++17-skip-checks", "t", "c++17", ["-fsyntax-only", "-DEMBOSS_SKIP_CHECKS", "-DEMBOSS_NO_OPTIMIZATIONS"], "full"),
    ("c++11-pedantic", "t", "c++11", ["-fsyntax-only", "-pedantic-errors"], "full"),
    ("c++14-no-enum-traits", "nt", "c++14", ["-fsyntax-only"], "notraits"),
    ("c++14-constants-run", "t", "c++14", ["-O0"], "const"),
]


def build_module(job):
    """job = (dir, md).  Returns dict(status per stage)."""
    d, md = job
    shutil.rmtree(d, ignore_errors=True)
    out = dict(embossc={}, gxx={}, lines=[], times={})
    for sub, flag in (("t", []), ("nt", ["--no-cc-enum-traits"])):
        os.makedirs(os.path.join(d, sub))
        for rel, text in md["files"].items():
            os.makedirs(os.path.dirname(os.path.join(d, sub, rel)), exist_ok=True)
            with open(os.path.join(d, sub, rel), "w") as f:
                f.write(text)
        t0 = time.time()
        # imported modules need their own headers
        for rel in reversed(list(md["files"])):
            rc, log = _run([fw.PY, os.path.join(fw.REPO, "embossc"), "--color-output", "never", "--import-dir", ".",
                            "--output-path", "."] + flag + [rel], os.path.join(d, sub), env=fw.repo_env())
            if rc != 0 or not os.path.exists(os.path.join(d, sub, rel + ".h")):
                out["embossc"][sub] = (rc or 1, log[-3000:])
                break
        else:
            out["embossc"][sub] = (0, "")
        out["times"]["embossc-" + sub] = time.time() - t0
    if out["embossc"]["t"][0] != 0:
        return out
    out["guards"] = {}
    for rel in md["files"]:
        m = re.search(r"^#ifndef\s+(\S+)", open(os.path.join(d, "t", rel + ".h")).read(), re.M)
        out["guards"][rel] = m.group(1) if m else None
    for name, traits, const in (("full", True, False), ("notraits", False, False), ("const", True, True)):
        with open(os.path.join(d, "driver_%s.cc" % name), "w") as f:
            f.write(build_driver(md, traits, const))
    for label, sub, std, flags, drv in CONFIGS:
        if out["embossc"][sub][0] != 0:
            continue
        t0 = time.time()
        exe = os.path.join(d, "driver_" + label)
        cmd = ["g++", "-std=" + std] + flags + ["-I", fw.REPO, "-I", os.path.join(d, sub), os.path.join(d, "driver_%s.cc" % drv)]
        if "-fsyntax-only" not in flags:
            cmd += ["-o", exe]
        rc, log = _run(cmd, d)
        if drv == "const" and rc != 0 and any(r[0] != 0 for r in out["gxx"].values()):
            continue      # the header is already known to be rejected; the constants program adds nothing
        if rc != 0:   # keep the diagnostics that matter: error lines first, then the head of the log
            log = "\n".join(errors_of(log)[:40]) + "\n----\n" + log[:4000]
        out["gxx"][label] = (rc, log[:12000])
        out["times"][label] = time.time() - t0
        if rc == 0 and "-fsyntax-only" not in flags:
            rc2, o = _run([exe], d, timeout=60)
            out["run"] = rc2
            out["lines"] = o.splitlines()
    return out


def errors_of(log):
    return [l.strip() for l in log.splitlines() if re.search(r"\berror\b", l)]


def guard_collisions(guards):
    """[(file a, file b, documented rule also collides?)] for headers that got the same include guard."""
    out, items = [], sorted(guards.items())
    for i in range(len(items)):
        for j in range(i + 1, len(items)):
            if items[i][1] == items[j][1]:
                out.append((items[i][0], items[j][0],
                            gen_names.header_guard_py(items[i][0]) == gen_names.header_guard_py(items[j][0])))
    return out


def classify(md, scope_colls, label, log, guards=None):
    """Mechanism key of a g++ rejection, from the model's verdict on the scopes first, then from the diagnostics."""
    errs = errors_of(log)
    first = errs[0] if errs else log.strip()[:200]
    feats = set(md["features"])
    for a, b, documented in guard_collisions(guards or {}):
        return (K_GUARD_NORM if documented else K_GUARD), "%s and %s share the include guard %s; %s" % (a, b, guards[a], first)
    for sc, colls in scope_colls:
        if colls:
            return COLLISION_KEYS[sc["kind"]](colls[0]), first
    text = "\n".join(errs)
    macros = gen_names.system_macros(gen_names.STANDARDS)
    for e in md["enums"]:
        for nm, v, attr in e["values"]:
            if nm in macros:
                return K_MACRO, first
    for s in md["structs"]:
        for f in s["fields"]:
            if f["name"] in macros:
                return K_FIELD_MACRO, first
    # Equals / UncheckedEquals / WriteArrayToTextStream of GenericArrayView lack the ElementViewParameterTypes pack
    if errs and "array-of-parameterised-structs" in feats and all("GenericArrayView" in e and "no matching function" in e for e in errs):
        return K_ARRAY_EQUALS, first
    if "narrowing conversion" in text or "duplicate case value" in text:
        return K_SWITCH, first
    if "use of deleted function" in text and "EmbossReservedVirtual" in text:
        return K_ALIAS_VIRTUAL, first
    if re.search(r"no matching function for call to .*Generic\w+View", text) and "enum-parameter-type-mismatch" in feats:
        return K_ENUM_PARAM, first
    if "integer constant is so large that it is unsigned" in text and label.endswith("pedantic"):
        return K_UNSUFFIXED, first
    return "cpp-header-rejected:" + re.sub(r"[^a-z]+", "-", re.sub(r"‘[^’]*’|'[^']*'", "", first.split("error:")[-1]).lower()).strip("-")[:60], first


def find_struct(ir, path, file=None):
    mod = ir.module[0] if file is None else next(m for m in ir.module if m.source_file_name == file)
    types = mod.type
    t = None
    for comp in path:
        t = next(x for x in types if x.name.name.text == comp)
        types = t.subtype
    return t


def expected_constants(md, ir):
    from compiler.util import ir_util
    exp = {}
    for i, s in enumerate(md["structs"]):
        t = find_struct(ir, s["cpp"], s.get("file"))
        for f in t.structure.field:
            nm = f.name.name.text
            if nm in ("$max_size_in_bytes", "$min_size_in_bytes") or any(x["name"] == nm and x["cls"] == "vconst" for x in s["fields"]):
                v = ir_util.constant_value(f.read_transform)
                if v is not None:
                    exp[(i, nm)] = int(v)
    for i, e in enumerate(md["enums"]):
        j = 0
        for nm, v, attr in e["values"]:
            for sp in impl_spelling(nm, attr):
                exp[("e", i, j)] = v
                j += 1
    return exp


# ------------------------------------------------------------------------------

def run_modules(ctx, mods):
    # in-process verdicts
    todo = []
    for k, md in enumerate(mods):
        try:
            st, ir, header, msgs = compile_in_process(md["files"])
        except Exception as ex:
            ctx.count("module:compiler-crash")
            ctx.note("compiler raised %r on a generated module (outside C07; counted)" % (ex,))
            continue
        ctx.count("module:" + ("accepted" if st == 0 else "rejected"))
        for ft in md["features"]:
            ctx.count("feature:" + ft + (":accepted" if st == 0 else ":rejected"))
        if st != 0:
            ctx.case(("rejected", md["files"][main_file(md)]), nontrivial=False)
            continue
        todo.append((k, md, ir))
    # model verdict on the scopes (Python mirror, validated by Coq below)
    for k, md, ir in todo:
        md["_scope_colls"] = [(sc, py_collisions(scope_groups(sc))) for sc in md["scopes"]]
    # build
    t0 = time.time()
    wd = os.path.join(ctx.bdir, "cpp-%d" % os.getpid())   # per process: concurrent runs must not share directories
    shutil.rmtree(wd, ignore_errors=True)
    os.makedirs(wd, exist_ok=True)
    with concurrent.futures.ThreadPoolExecutor(max_workers=fw.NPROC) as ex:
        results = list(ex.map(build_module, [(os.path.join(wd, "m%04d" % k), md) for k, md, ir in todo]))
    tot = {}
    for r in results:
        for a, b in r["times"].items():
            tot[a] = tot.get(a, 0) + b
    fw.log("C07: %d modules built in %.1fs wall (summed seconds: %s)" % (len(todo), time.time() - t0,
                                                                       ", ".join("%s %.0f" % kv for kv in sorted(tot.items()))))
    n_ok = 0
    coq_cases = []
    for (k, md, ir), res in zip(todo, results):
        text = "\n".join("# %s\n%s" % kv for kv in md["files"].items()) if len(md["files"]) > 1 else md["files"][main_file(md)]
        if res["embossc"]["t"][0] != 0 or res["embossc"].get("nt", (0,))[0] != 0:
            ctx.violation("embossc-cli-vs-library", "embossc CLI rejects a module the library accepts",
                          dict(kind="names-module", module=strip(md), log=str(res["embossc"])[-2000:]), found_input=True)
            continue
        any_collision = any(c for _, c in md["_scope_colls"])
        failed = [(label, log) for label, (rc, log) in res["gxx"].items() if rc != 0]
        compiles = not failed
        # expected model output: front end ok, guard (whatever the model says: compared only through distinct/collisions)
        coq_cases.append((md, compiles))
        ctx.case(("module", text), nontrivial=True,
                 sample=dict(module=text[:600], compiles=compiles, features=md["features"]) if (k % 7 == 0) else None)
        ctx.count("gxx:" + ("all-configurations-accept" if compiles else "rejected"))
        if failed:
            seen = set()
            for label, log in failed:
                key, first = classify(md, md["_scope_colls"], label, log, res.get("guards"))
                if key in seen:
                    continue
                seen.add(key)
                ctx.violation(key, "embossc accepts the module but g++ (%s) rejects the header: %s" % (label, first[:400]),
                              dict(kind="names-module", module=strip(md), configuration=label, errors=errors_of(log)[:6]),
                              found_input=True)
                ctx.count("violation:" + key)
        elif any_collision:
            ctx.violation("cpp-names-model-pessimistic", "the model predicts an identifier collision but g++ accepts the header",
                          dict(kind="names-module", module=strip(md), collisions=[(sc["where"], c) for sc, c in md["_scope_colls"] if c],
                               correspondence="Names.Cpp.cpp_names_distinct vs g++"), found_input=False)
        else:
            n_ok += 1
        # constants
        if "c++14-constants-run" in res["gxx"] and res["gxx"]["c++14-constants-run"][0] == 0:
            if res.get("run", 1) != 0:
                ctx.violation("cpp-driver-crash", "the instantiation driver of an accepted module exits with %s" % res.get("run"),
                              dict(kind="names-module", module=strip(md), output=res["lines"][-5:]), found_input=True)
                continue
            exp = expected_constants(md, ir)
            got = {}
            for l in res["lines"]:
                p = l.split()
                kv = dict(x.split("=", 1) for x in p[1:])
                if p[0] == "CONST":
                    got[(int(kv["s"]), kv["k"])] = int(kv["v"])
                elif p[0] == "ENUMCONST":
                    got[("e", int(kv["e"]), int(kv["j"]))] = int(kv["v"])
            for key, v in exp.items():
                ctx.count("constants-compared")
                if key not in got:
                    ctx.note("constant %r not printed by the driver" % (key,))
                elif got[key] != v:
                    ctx.violation("cpp-static-constant-differs", "static constant %r is %d in C++ but %d in the IR" % (key, got[key], v),
                                  dict(kind="names-module", module=strip(md), constant=str(key), cpp=got[key], ir=v), found_input=True)
    guard_correspondence(ctx, [(md, res) for (k, md, ir), res in zip(todo, results) if res["embossc"]["t"][0] == 0])
    ctx.obligation("exploration: %d accepted modules outside the refuted classes compile under all %d configurations"
                   % (n_ok, len(CONFIGS)), True)
    # Coq: the Python mirror of the declared identifiers equals the model, and the model's verdict matches g++
    cc2 = []
    for md, compiles in coq_cases:
        exp = fw.coq_list(["(true, %s, %s)" % (fw.coq_bool(not colls), fw.coq_list(["(%d%%N, %d%%N)" % p for p in colls]))
                           for sc, colls in md["_scope_colls"]])
        cc2.append((fw.coq_list([scope_term(sc) for sc in md["scopes"]]), "(%s, true)" % exp, md))
    # columns: front end accepts the names, identifiers distinct, colliding groups; plus: the proved implication
    # (front_end_names_ok && names_guard -> cpp_names_distinct) holds on every generated scope
    runner = fw.CoqCases(ctx, "scopes", HEADER + "Definition proj (l : list (bool * bool * bool * list (N * N))) := "
                         "map (fun x => (fst (fst (fst x)), snd (fst x), snd x)) l.\n"
                         "Definition proj_eqb := list_eqb (pair_eqb (pair_eqb Bool.eqb Bool.eqb) (list_eqb pairNN_eqb)).\n"
                         "Definition guard_sound (l : list scope) := forallb (fun sc => implb (front_end_names_ok sc && names_guard sc) (cpp_names_distinct sc)) l.\n",
                         "(fun l => (proj (run_scopes l), guard_sound l))", "(pair_eqb proj_eqb Bool.eqb)", "(list scope)",
                         "(list (bool * bool * list (N * N)) * bool)", shard=max(4, (len(cc2) + fw.NPROC - 1) // fw.NPROC))
    bad = runner.run(cc2) if cc2 else []
    ctx.obligation("correspondence: declared identifiers of %d modules (%d scopes): python mirror = Coq model, front end accepts "
                   "the names the model accepts" % (len(cc2), sum(len(m["scopes"]) for _, _, m in cc2)), not bad)
    for idx, out in bad[:3]:
        md = cc2[idx][2]
        ctx.violation("cpp-names-correspondence", "the model of declared identifiers disagrees with the harness mirror / front end",
                      dict(kind="names-module", module=strip(md), model_outputs=out[:3000],
                           correspondence="Names.Exec.run_scopes"), found_input=False)


def guard_correspondence(ctx, built):
    """built: [(md, res)].  Observed include guards vs the model (Coq) and the python mirror; collisions."""
    cases, seen = [], set()
    for md, res in built:
        for rel, g in (res.get("guards") or {}).items():
            if (rel, g) in seen:
                continue
            seen.add((rel, g))
            cases.append((fw.coq_codes(rel), fw.coq_codes(g or ""), (md, rel, g)))
            ctx.count("guard:" + ("in-directory" if "/" in rel else "top-level"))
    if not cases:
        return
    bad = fw.CoqCases(ctx, "guards", HEADER, "run_guard", "run_guard_eqb", "(list N)", "(list N)", shard=400).run(cases)
    mirror_bad = [c for c in cases if gen_names.header_guard_py(c[2][1]) != c[2][2]]
    ctx.obligation("correspondence: include guards of %d generated headers follow the documented path rule "
                   "(Coq model and python mirror)" % len(cases), not bad and not mirror_bad)
    for idx, out in bad[:2]:
        md, rel, g = cases[idx][2]
        colls = [c for c in guard_collisions(dict((r, gg) for r, gg in (next(res for m2, res in built if m2 is md).get("guards") or {}).items()))
                 if not c[2]]
        ctx.violation(K_GUARD if colls else "header-guard-correspondence",
                      "header of %s has include guard %s; the documented rule gives %s%s"
                      % (rel, g, gen_names.header_guard_py(rel), ("; %s and %s collide" % colls[0][:2]) if colls else ""),
                      dict(kind="names-module", module=strip(md), file=rel, guard=g, model_outputs=out[:500],
                           correspondence="Names.Cpp.header_guard vs _generate_header_guard"), found_input=bool(colls))


def strip(md):
    return {k: v for k, v in md.items() if not k.startswith("_")} | \
           {"scopes": [{k: v for k, v in sc.items() if not k.startswith("_")} for sc in md["scopes"]]}


def keyword_check(ctx):
    """Every ISO C++11/14/17 keyword that has the shape of an Emboss name must be refused by the front end."""
    from compiler.front_end import constraints
    rw = constraints.get_reserved_word_list()
    missing = [k for k in gen_names.CPP_KEYWORDS if k not in rw]
    ctx.obligation("reserved_words contains all %d C++ keywords and alternative tokens" % len(gen_names.CPP_KEYWORDS), not missing)
    n = 0
    for k in gen_names.CPP_KEYWORDS:
        if not gen_names.SNAKE_RE.match(k):
            continue
        text = '[$default byte_order: "LittleEndian"]\nstruct Foo:\n  0 [+1]  UInt  %s\n' % k
        st, ir, header, msgs = compile_in_process({"m.emb": text})
        n += 1
        ctx.case(("keyword", k), nontrivial=False)
        if st == 0:
            d = os.path.join(ctx.bdir, "kw-%d_%s" % (os.getpid(), k))
            md = dict(files={"m.emb": text}, namespace=["emboss_generated_code"], features=["keyword:" + k], scopes=[],
                      structs=[dict(name="Foo", cpp=["Foo"], size=1, params=[], fields=[dict(name=k, cls="uint")])], enums=[])
            res = build_module((d, md))
            failed = [(l, log) for l, (rc, log) in res["gxx"].items() if rc != 0]
            if failed:
                ctx.violation(K_KEYWORD, "C++ keyword %r is accepted as a field name; g++: %s" % (k, (errors_of(failed[0][1]) or ["?"])[0][:300]),
                              dict(kind="names-module", module=md), found_input=True)
            else:
                ctx.violation(K_KEYWORD, "C++ keyword %r is accepted as a field name (g++ accepted the header?)" % k,
                              dict(kind="names-module", module=md, correspondence="reserved_words"), found_input=False)
    ctx.count("keywords-tried", n)


BAD_FEATURES = ["enum-case-collision", "virtual-view-name-collision", "validator-name-collision", "switch-negative-label-on-unsigned",
                "enum-parameter-type-mismatch", "alias-of-virtual", "enum-name-is-macro", "field-has-prefix-collision",
                "field-named-private-member", "parameter-named-backing", "nested-enum-named-like-member", "type-named-like-generated",
                "nested-type-named-like-generated", "field-name-is-macro", "type-named-enumtraits", "header-guard-normalised-collision",
                "array-of-parameterised-structs"]

# shapes every run must contain (well-formed C++ on the unchanged tree); the second component asks the generator for it
REQUIRED_SHAPES = [("enum-condition-constant-on-left", None), ("param-struct-field-argument-dynamic-location", None),
                   ("dotted-virtual-readonly-target", None),
                   ("import-same-base-name", "import-same-base-name"), ("import-chain", "import-chain"),
                   ("import-diamond", "import-diamond"), ("import-punctuation", "import-punctuation")]


def generate(ctx, n_random, reserved, macros):
    mods = []
    # every class has a minimal repro in corpus/C07; the generator must also place each of them by itself:
    # all of them in the thorough tier, a seed-dependent third of them in the quick tier
    feats = list(BAD_FEATURES)
    if not ctx.thorough():
        ctx.rng.shuffle(feats)
        feats = feats[:5]
    for feat in feats:
        for attempt in range(60):
            m = gen_names.NamesModule(ctx.rng, reserved, macros, p_bad=0.0, force=feat)
            if feat in m.features:
                mods.append(m.to_dict())
                break
        else:
            ctx.note("generator could not place feature %s" % feat)
    # shapes that must be present in every run (well-formed C++ on the unchanged tree)
    shapes = list(REQUIRED_SHAPES)
    if not ctx.thorough():     # the two import shapes beyond the same-base-name one rotate in the quick tier
        rest = shapes[4:]
        ctx.rng.shuffle(rest)
        shapes = shapes[:4] + rest[:1]
    for feat, force in shapes:
        for attempt in range(150):
            m = gen_names.NamesModule(ctx.rng, reserved, macros, p_bad=0.0, force=force)
            if feat in m.features and compile_in_process(m.files)[0] == 0:
                mods.append(m.to_dict())
                break
        else:
            ctx.note("generator could not place feature %s" % feat)
    for i in range(n_random):
        m = gen_names.NamesModule(ctx.rng, reserved, macros, p_bad=(0.0 if i % 2 == 0 else 1.0))
        mods.append(m.to_dict())
    return mods


def gate_family():
    """Seed-independent: every comparison operator between an operand that can be negative and one that needs
    uint64, at every expression position.  The 64-bit gate of the front end has to reject each of them (the back end
    has no common C++ type for the comparison); whichever is accepted has to compile like any other module."""
    mods = []
    head = '[$default byte_order: "LittleEndian"]\nstruct Foo:\n  0 [+8]  Int  sa\n  8 [+8]  UInt  ub\n  16 [+1]  Int  sc\n  17 [+1]  UInt  ud\n'
    base_fields = [("sa", "int"), ("ub", "uint"), ("sc", "int"), ("ud", "uint")]
    pairs = [("sa", "ub"), ("ub", "sa"), ("sc", "ub"), ("ub", "sc"), ("sc - 1", "ub"), ("ub + 0", "sa"), ("ud", "ub"), ("sa", "sc")]
    for op in ("==", "!=", "<", "<=", ">", ">="):
        for a, b in pairs:
            e = "%s %s %s" % (a, op, b)
            for pos in ("let", "if", "field-requires", "struct-requires", "choice-condition", "array-length"):
                if (a[0] == "s") == (b[0] == "s") and (op != "<" or pos not in ("let", "if")):
                    continue        # same-sign controls are accepted and compiled: a handful is enough
                extra_fields = []
                if pos == "let":
                    text = head + "  let vv = %s\n" % e
                    extra_fields = [("vv", "vbool")]
                elif pos == "if":
                    text = head + "  if %s:\n    18 [+1]  UInt  ce\n" % e
                    extra_fields = [("ce", "uint")]
                elif pos == "field-requires":
                    text = head + "  18 [+1]  UInt  rq\n    [requires: this < 200 && %s]\n" % e
                    extra_fields = [("rq", "uint")]
                elif pos == "struct-requires":
                    text = head.replace("struct Foo:\n", "struct Foo:\n  [requires: %s]\n" % e)
                elif pos == "choice-condition":
                    text = head + "  let vv = (%s) ? 1 : 2\n" % e
                    extra_fields = [("vv", "vint")]
                else:
                    text = head + "  18 [+(%s) ? 1 : 2]  UInt:8[]  ar\n" % e
                    extra_fields = [("ar", "array")]
                fs = base_fields + extra_fields
                mods.append(dict(
                    files={"m.emb": text}, main="m.emb", namespace=["emboss_generated_code"],
                    features=["gate-family:%s:%s" % (pos, "mixed" if (a[0] == "s") != (b[0] == "s") else "same-sign")],
                    scopes=[dict(kind="class", where="Foo", name="Foo", units="bytes",
                                 fields=[dict(name=n, kind="virtual" if c.startswith("v") else "physical", requires=(n == "rq")) for n, c in fs],
                                 params=[], enums=[]),
                            dict(kind="ns", where="Foo::", validated=["rq"] if pos == "field-requires" else [], structs=[], enums=[])],
                    structs=[dict(name="Foo", cpp=["Foo"], params=[], size=19 if extra_fields and extra_fields[0][1] in ("uint",) else 18,
                                  fields=[dict(name=n, cls=c) for n, c in fs if c != "array"], nested=False,
                                  dynamic=(pos == "array-length"))],
                    enums=[]))
    return mods


def byte_order_family():
    """Seed-independent: modules with NO byte order in scope (or an explicit "Null") whose fields hold bits blocks of
    one, two, four or a run-time number of bytes.  The front end may only let a field go without a real byte order
    when it is exactly one byte long: the runtime's NullByteOrderer static_asserts kBits == 8.  Whatever the front
    end accepts here is instantiated and has to compile."""
    mods = []
    shapes = []
    for n in ("1", "2", "4", "hd"):
        shapes.append(("anonymous-bits:%s" % n, "  1 [+%s]  bits:\n    0 [+3]  UInt  aa\n    3 [+4]  UInt  bb\n" % n, "", ["aa", "bb"]))
        shapes.append(("anonymous-bits-null:%s" % n,
                       '  1 [+%s]  bits:\n    [byte_order: "Null"]\n    0 [+3]  UInt  aa\n    3 [+4]  UInt  bb\n' % n, "", ["aa", "bb"]))
    for n in ("1", "2"):
        shapes.append(("named-bits:%s" % n, "  1 [+%s]  Nib  nn\n" % n, "bits Nib:\n  0 [+3]  UInt  lo\n  3 [+%d]  UInt  hi\n" % (5 if n == "1" else 13), []))
    shapes.append(("uint-null:2", '  1 [+2]  UInt  ww\n    [byte_order: "Null"]\n', "", ["ww"]))
    shapes.append(("uint-none:2", "  1 [+2]  UInt  ww\n", "", ["ww"]))
    shapes.append(("uint-none:1", "  1 [+1]  UInt  ww\n", "", ["ww"]))
    for label, body, pre, ints in shapes:
        text = pre + "struct Foo:\n  0 [+1]  UInt  hd\n" + body
        fs = [("hd", "uint")] + [(n, "uint") for n in ints]
        mods.append(dict(
            files={"m.emb": text}, main="m.emb", namespace=["emboss_generated_code"],
            features=["byte-order-family:" + label],
            scopes=[], skip_scope_model=True,
            structs=[dict(name="Foo", cpp=["Foo"], params=[], size=8, fields=[dict(name=n, cls=c) for n, c in fs], nested=False,
                          dynamic=("hd]" in body))],
            enums=[]))
    return mods


def typed_virtual_family():
    """Seed-independent: virtual fields that are WRITABLE through a transform (an alias with its own [requires], or
    an add/subtract chain) of every value type.  UpdateFromText() of the structure instantiates the text reader of
    each of them; the reader has to be the one of the field's type (fix dadb5dc: enum and boolean fields used the
    integer reader, which does not compile for an enum class)."""
    mods = []
    head = ('[$default byte_order: "LittleEndian"]\nenum Kind:\n  AA = 0\n  BB = 1\n'
            "struct Foo:\n  0 [+1]  Kind  ke\n  1 [+1]  UInt  nu\n  2 [+1]  bits:\n    0 [+1]  Flag  fl\n")
    shapes = [
        ("enum-alias-requires", "  let ve = ke\n    [requires: this == Kind.BB]\n", [("ve", "venum")]),
        ("bool-alias-requires", "  let vb = fl\n    [requires: this]\n", [("vb", "vbool")]),
        ("int-alias-requires", "  let vi = nu\n    [requires: this < 100]\n", [("vi", "vint_w")]),
        ("int-chain", "  let vi = nu + 3\n", [("vi", "vint_w")]),
        ("all-three", "  let ve = ke\n    [requires: this == Kind.AA || this == Kind.BB]\n  let vb = fl\n    [requires: this || !this]\n"
                      "  let vi = 10 - nu\n    [requires: this > 0 - 300]\n", [("ve", "venum"), ("vb", "vbool"), ("vi", "vint_w")]),
    ]
    for label, body, virt in shapes:
        fs = [("ke", "enum"), ("nu", "uint"), ("fl", "flag")] + virt
        mods.append(dict(
            files={"m.emb": head + body}, main="m.emb", namespace=["emboss_generated_code"],
            features=["typed-virtual-family:" + label], scopes=[],
            structs=[dict(name="Foo", cpp=["Foo"], params=[], size=3, fields=[dict(name=n, cls=c) for n, c in fs], nested=False,
                          dynamic=False)],
            enums=[]))
    return mods


def corpus_modules():
    return [json.load(open(p)) for p in sorted(glob.glob(os.path.join(fw.VERIF, "corpus", "C07", "*.json")))]


def run(ctx):
    try:
        _run_check(ctx)
    finally:   # per-process scratch directories
        import shutil as _sh
        for _p in glob.glob(os.path.join(ctx.bdir, "*-%d*" % os.getpid())):
            _sh.rmtree(_p, ignore_errors=True)


def _run_check(ctx):
    ctx.rule = ("literals: edge and random integers through _render_integer (text and value, g++ as second oracle); primitive sizes "
                "0..128 per prelude type; modules: one targeted module per known ill-formed class plus random modules (half of them "
                "free of those features) with nested/inline types, parameters, imports, namespaces, enum_case, virtual fields, "
                "[requires], switch-like conditions and awkward identifier shapes (near-keywords, trailing/double underscores, "
                "has_ prefixes, generated-looking type names, system macros); a case = one accepted module built under five "
                "compiler configurations; distinct by module text")
    ctx.trusted = ["Coq 8.16.1 kernel, vm_compute", "harness/gen_names.py, harness/props/c07.py (driver text, classification)",
                   "g++ 12 -std=c++11/14/17 [-pedantic-errors] as the oracle of well-formedness",
                   "CPython 3.12 running /repo's compiler"]
    ctx.assumptions = ["g++'s acceptance of a header is explored, not proved (property claimed as partial)",
                       "struct view names are compared at byte-addressed structs; bits types appear only inline"]
    ctx.audit()
    ctx.check_theorems("EmbossV.Names.Properties_C07", "Names/Properties_C07.v", expect_min=6)
    rc, out = fw.coq_make(["Names/Exec.vo"])
    if rc != 0:
        ctx.violation("proof-broken:Names/Exec.v", "Names/Exec.v does not build", dict(kind="proof", log=out[-3000:]), found_input=False)
        return
    fast_embossc_env()

    if getattr(ctx, "replay_path", None):
        rp = json.load(open(ctx.replay_path))
        run_modules(ctx, [rp.get("replay", rp)["module"]])
        return

    # static_assert table
    fp = static_assert_fingerprint()
    known = sorted(MODELLED_STATIC_ASSERTS)
    ctx.obligation("runtime static_asserts are the %d the model was written against" % len(fp), known == fp)
    if known != fp:
        ctx.violation("static-assert-table-changed", "the set of static_asserts in runtime/cpp differs from the modelled one",
                      dict(kind="table", added=sorted(set(fp) - set(known or [])), removed=sorted(set(known or []) - set(fp)),
                           correspondence="Names.Cpp section 2"), found_input=False)

    # literals
    lc = literal_cases(ctx, 1500 if ctx.thorough() else 400)
    bad = fw.CoqCases(ctx, "literals", HEADER, "run_render", "run_render_eqb", "Z", "(option (list N * option Z))", shard=200).run(lc)
    for a, b, (v, txt) in lc:
        ctx.case(("lit", v), nontrivial=abs(v) > 9, sample=dict(value=v, text=txt) if abs(v) >= 2**63 - 1 else None)
    ctx.obligation("correspondence: _render_integer text and denoted value agree with the model on %d integers" % len(lc), not bad)
    d = os.path.join(ctx.bdir, "lit-%d" % os.getpid())
    shutil.rmtree(d, ignore_errors=True)
    os.makedirs(d)
    open(os.path.join(d, "lit.cc"), "w").write(literal_driver(lc))
    for idx, out in bad[:3]:
        v, txt = lc[idx][2]
        # search: does the text the implementation renders denote v for an ISO compiler?
        src = "#include <cstdint>\nstatic_assert(%s == %s, \"value\");\nint main() { return 0; }\n" % (
            txt, ("(-9223372036854775807LL - 1)" if v == -2**63 else str(v) + ("ULL" if v >= 2**63 else "LL")))
        open(os.path.join(d, "one.cc"), "w").write(src)
        rc, log = _run(["g++", "-std=c++11", "-fsyntax-only", "-pedantic-errors", "one.cc"], d) if txt else (0, "")
        if rc != 0:
            ctx.violation("cpp-literal-ill-formed", "_render_integer(%d) = %s is rejected by g++ -pedantic-errors: %s"
                          % (v, txt, (errors_of(log) or [log[:200]])[0][:300]),
                          dict(kind="literal", value=v, text=txt, module='[$default byte_order: "LittleEndian"]\nstruct Foo:\n  0 [+1]  UInt  a\n  let c = %d\n' % v),
                          found_input=True)
        else:
            ctx.violation("cpp-literal-correspondence", "_render_integer(%d) = %r differs from the model" % (v, txt),
                          dict(kind="literal", value=v, text=txt, model_outputs=out[:1500], correspondence="Names.Cpp.render_integer"),
                          found_input=False)
    rc, log = _run(["g++", "-std=c++11", "-pedantic-errors", "-o", "lit", "lit.cc"], d)
    ok = rc == 0
    if ok:
        rc, o = _run([os.path.join(d, "lit")], d)
        vals = {int(l.split()[1][2:]): int(l.split()[2][2:]) for l in o.splitlines() if l.startswith("L ")}
        wrong = [(lc[i][2][0], v) for i, v in vals.items() if lc[i][2][0] != v]
        ok = not wrong and len(vals) == sum(1 for c in lc if c[2][1] is not None)
    ctx.obligation("g++ -std=c++11 -pedantic-errors evaluates every rendered literal to its value", ok)
    if not ok and not bad:
        ctx.violation("cpp-literal-ill-formed", "rendered literals rejected or mis-evaluated by g++: %s" % (errors_of(log) or [""])[0][:300],
                      dict(kind="literal", log=log[-2000:]), found_input=True)

    # primitive sizes
    pc = prim_cases(ctx)
    bad = fw.CoqCases(ctx, "prims", HEADER, "run_prim", "run_prim_eqb", "(N * Z)", "(bool * bool)", shard=400).run(pc)
    for a, b, o in pc:
        ctx.case(("prim", o), nontrivial=True)
    ctx.obligation("correspondence: front end accepts exactly the modelled sizes of UInt/Int/Bcd/Flag/Float (%d cases)" % len(pc), not bad)
    for idx, out in bad[:3]:
        ty, bits, acc = pc[idx][2]
        ctx.violation("prim-size-correspondence", "%s:%d is %s by the front end; the model differs" % (ty, bits, "accepted" if acc else "rejected"),
                      dict(kind="prim", type=ty, bits=bits, correspondence="Names.Cpp.prim_size_ok", model_outputs=out[:500]), found_input=False)

    keyword_check(ctx)

    from compiler.front_end import constraints
    reserved = set(constraints.get_reserved_word_list())
    macros = gen_names.system_macros(gen_names.STANDARDS)
    ctx.extra["system_macros_not_reserved"] = len([m for m in macros if m not in reserved and
                                                    (gen_names.SHOUTY_RE.match(m) or gen_names.SNAKE_RE.match(m))])
    mods = corpus_modules() + gate_family() + byte_order_family() + typed_virtual_family() + generate(ctx, 150 if ctx.thorough() else 10, reserved, macros)
    run_modules(ctx, mods)
