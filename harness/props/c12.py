"""C12 — names resolve to the one lexically visible definition, or the module is rejected."""
import glob
import json
import os
import re
import time
import traceback

from harness import fw, gen_scope, scope_x

META = {
    "technique": "Coq proof about a Gallina mirror of symbol_resolver.py (_construct_symbol_tables, _find_target_of_reference, "
                 "_resolve_field_reference) and ir_util.find_object + differential correspondence with the real passes on "
                 "generated scope trees and the testdata corpus (vm_compute) + by-construction oracle of intended targets",
    "level_text": "Machine-checked theorems (Coq 8.16, no axioms), for all scope trees and all references, no size bound: "
                  "(resolve_unique) an ordinary reference is bound to cn without error iff its head has exactly one visible "
                  "definition under the declarative visibility relation (own scope: every name; enclosing types, module, "
                  "prelude: type names and import aliases) and the dotted name leads from it to cn; unresolved iff an error is "
                  "reported iff nothing is designated (missing-name error when none is visible, ambiguity error when two or more "
                  "are); (no_precedence) a name visible from two scopes is never resolved, except is_local_name references "
                  "(types of inline fields), which bind to the innermost visible scope exactly and never report ambiguity; "
                  "(pass) resolve_symbols accepts an IR iff no scope holds a name twice, no import alias repeats and every "
                  "reference resolves alone; (canonical_name_roundtrip) in an IR without duplicate errors find_object returns "
                  "every definition from its canonical name and canonical names are pairwise distinct; duplicate errors iff some "
                  "scope is asked to hold a name twice; (members) a field reference a.b.c resolves to cns iff the member relation "
                  "(members of the referenced field's type, through virtual aliases) designates cns; (abbreviation_private) "
                  "non-SEARCHABLE names (abbreviations, `this`, fields, parameters, enum values) are never found as a head from "
                  "another scope, and a member lookup returns an object carrying the requested name.  Refuted, witness proved and "
                  "replayed each run: an abbreviation IS reached through the tail of a static reference `Type.abbr` (the real "
                  "resolver binds it; the module is rejected only later, by type_check).  The model is tied to /repo on every run: "
                  "model and real passes run on the same surface IR; the canonical name of every reference or every error (kind, "
                  "file, line, name, notes) is compared, for accepted and rejected modules; independently every generated reference "
                  "carries its intended target by construction and is compared with the compiler's binding.",
    "level_note": "Trusted: Coq kernel + vm_compute; harness/scope_x.py (IR translator; the order of references is taken "
                  "from traverse_ir, their scope context is computed independently); harness/gen_scope.py's oracle for the "
                  "by-construction labels.  Modelled not verified: the Python source itself.  The four-traversal table "
                  "construction is mirrored by effect (per-dict candidate list in phase order), which the correspondence "
                  "checks including duplicate-error locations.  Python exceptions are the distinct model result Stuck; "
                  "member access on a parameter (F15, fixed by e48f2e2 + 6efa7de) is mirrored as the noncomposite error and replayed "
                  "from corpus/C12; three other crash classes of the resolver stage are listed findings.",
}

HEADER = ("Require Import EmbossV.Scope.Model EmbossV.Scope.Exec.\n"
          "Open Scope string_scope.\nOpen Scope list_scope.\n")

CORPUS = os.path.join(fw.VERIF, "corpus", "C12")

# fixed probes: each is (key, files, what is expected of the real compiler)
PROBES = [
    ("abbr-static-leak", {"m.emb": "struct Foo:\n  0 [+1]  UInt  apple (a)\nstruct Bar:\n  0 [+1]  UInt  x\n  let y = Foo.a\n"},
     "resolver binds Foo.a to Foo.apple; the full compiler must still reject the module"),
    ("anonymous-bits-in-inline-struct", {"m.emb": "struct Foo:\n  0 [+4]  struct bar:\n    0 [+1]  bits:\n      0 [+1]  Flag  x\n"
                                                  "    1 [+1]  UInt  y\n"}, "crash"),
]


def make_reader(files):
    def reader(fn):
        if fn in files:
            return files[fn], None
        p = os.path.join(fw.REPO, fn)
        if os.path.exists(p):
            return open(p).read(), None
        return None, ["file not found: " + fn]
    return reader


def parse(files, name, stop="resolve_symbols"):
    from compiler.front_end import glue
    return glue.parse_emboss_file(name, make_reader(files), stop_before_step=stop)


_ANON = re.compile(r"(EmbossReservedAnonymousField|emboss_reserved_anonymous_field_)(\d+)")


def anon_ranks(ir):
    """{file: {number: rank}}: anonymous-bits counter values met in each module, ranked by the
    source line of the `bits` keyword (the counter itself follows the order in which module_ir
    builds the IR, which is not textual order)"""
    ranks = {}
    for m in ir.module:
        found = []

        def scan(t):
            mm = _ANON.fullmatch(t.name.name.text)
            if mm:
                found.append((scope_x.line_of(t.name.name.source_location), int(mm.group(2))))
            for s in t.subtype or []:
                scan(s)
        for t in m.type:
            scan(t)
        ranks[m.source_file_name] = {n: i for i, (_, n) in enumerate(sorted(found))}
    return ranks


def norm_name(ranks, file, s):
    def rep(m):
        return "%s#%d" % (m.group(1), ranks.get(file, {}).get(int(m.group(2)), -1))
    return _ANON.sub(rep, s)


def crash_key(ob):
    stage, rep, fn, exc = ob.crash[:4]
    if stage == "resolve_field_references" and exc == "AttributeError" and "RuntimeParameter" in rep:
        return "resolver-crash-parameter-member"       # F15, fixed by e48f2e2 + 6efa7de: a regression fires
    if stage == "dependency_checker" and exc == "KeyError":
        return "resolver-crash-import-alias-as-field"
    if stage == "resolve_symbols" and exc == "AssertionError" and "current_scope" in rep:
        return "resolver-crash-module-attribute-reference"
    return "resolver-crash:%s:%s" % (exc, fn)


class Case:
    def __init__(self, label, files, main):
        self.label, self.files, self.main = label, files, main
        self.gen = None
        self.term = self.expected = None
        self.ob = None
        self.tr = None
        self.ir = None
        self.status = None


def prepare(ctx, case):
    """parse, translate, run the real passes; returns False when the case is out of model"""
    try:
        ir, dbg, errs = parse(case.files, case.main)
    except Exception as ex:
        ctx.count("parse-crash")
        ctx.note(("front end crashed before resolve_symbols on %s: %r" % (case.label, ex))[:300])
        case.status = "parse-crash"
        case.parse_exception = ex
        return False
    if errs or ir is None:
        case.status = "parse-rejected"
        case.parse_errors = errs
        ctx.count("parse-rejected")
        return False
    case.ir = ir
    try:
        tr = scope_x.Translation(ir)
        case.tr = tr
        case.term = tr.input_term()
    except scope_x.ModuleLevelReference:
        case.status = "module-level-reference"
        ctx.count("out-of-model:module-level-reference")
        case.ob = scope_x.observe(ir, tr)
        return False
    except scope_x.OutOfModel as ex:
        case.status = "out-of-model"
        ctx.count("out-of-model:" + str(ex).split(" ")[0])
        return False
    case.ranks = anon_ranks(ir)
    case.ob = scope_x.observe(ir, tr)
    case.status = case.ob.summary()
    ctx.count("impl:" + case.status)
    if case.ob.crash and case.ob.crash[0] == "resolve_symbols":
        return False        # nothing to compare: the pass raised (recorded as a crash by the caller)
    case.expected = case.ob.term()
    return True


def replay_of(case, **kw):
    d = dict(kind="module", main=case.main, files=case.files, label=case.label)
    d.update(kw)
    return d


def record_crash(ctx, case):
    ob = case.ob
    key = crash_key(ob)
    ctx.count("impl-crash:" + key)
    ctx.violation(key, "the resolver stage crashed on %s: %s in %s (%s)" % (case.label, ob.crash[1], ob.crash[2], ob.crash[0]),
                  replay_of(case, exception=ob.crash[1], function=ob.crash[2], stage=ob.crash[0]), found_input=True)


def full_pipeline_rejects(case):
    try:
        ir, dbg, errs = parse(case.files, case.main, stop=None)
    except Exception as ex:
        return "crash:%r" % (ex,)
    return bool(errs)


def by_construction(ctx, case):
    """The property itself, on one generated module: intended targets vs the real compiler.
    Returns a list of (key, description, extra) violations (empty = holds)."""
    g, ob, tr = case.gen, case.ob, case.tr
    out = []
    if ob.crash:
        return out      # recorded separately
    exp = set(g.expected_errors)
    if any(e[0] == "out-of-scope" for e in exp):
        ctx.count("by-construction:skipped-cycle")
        return out
    ranks = case.ranks

    def nerr(e):
        return (e[0], e[1], e[2], norm_name(ranks, e[1], e[3]))

    comp = [nerr(e) for e in (ob.errors1 or [])] + [nerr(e) for e in (ob.errors2 or [])]
    rejected = bool(comp)
    if ob.errors1 is None and ob.stage2 is None:
        ctx.count("by-construction:dependency-cycle")
        return out
    if exp:
        if not rejected:
            leak_only = all(any(rf.fault == "abbr-outside-static" and rf.line == e[2] for rf in g.refs) for e in exp)
            if leak_only:
                fp = full_pipeline_rejects(case)
                ctx.count("abbr-static-leak:" + ("rejected-later" if fp is True else str(fp)))
                if fp is True:
                    return out
                out.append(("abbreviation-visible-outside-structure",
                            "an abbreviation used through a static reference from outside its structure is accepted",
                            dict(expected=sorted(exp))))
                return out
            out.append(("invalid-name-silently-resolved",
                        "construction made a name missing/duplicate/ambiguous (%s) but the resolver accepted the module"
                        % sorted(exp)[:3], dict(expected=sorted(exp))))
            return out
        bad = [e for e in comp if e not in exp]
        if bad:
            out.append(("unintended-resolution-error",
                        "the resolver reported %s, not among the errors the construction made (%s)" % (bad[:3], sorted(exp)[:4]),
                        dict(expected=sorted(exp), reported=comp)))
        return out
    if rejected:
        out.append(("valid-name-rejected", "every name is defined once and visible from one scope, yet the resolver reported %s"
                    % comp[:3], dict(reported=comp)))
        return out
    # accepted: every reference is bound to the intended definition
    reg = g.registry()
    seen = 0

    def check(file, line, text, cn, what):
        nonlocal seen
        key = (file, line, norm_name(ranks, file, text))
        if key not in reg:
            return "unregistered"
        for rf in reg[key]:
            it = rf.intended
            if it[0] != "ok":
                continue
            seen += 1
            want = (it[1], [norm_name(ranks, it[1], p) for p in it[2]])
            got = (cn.module_file or "", [norm_name(ranks, cn.module_file or "", p) for p in cn.object_path])
            if want != got:
                out.append(("resolved-to-unintended-definition",
                            "%s `%s` at %s:%d is bound to %s, the scoping rules designate %s" % (what, text, file, line, got, want),
                            dict(reference=text, line=line, bound_to=got, intended=want)))
        return "ok"

    for r in tr.refsA:
        loc = r.source_location
        file = tr.site[id(r)][0]
        text = ".".join(w.text for w in r.source_name)
        st = check(file, scope_x.line_of(loc), text, r.canonical_name, "reference")
        if st == "unregistered":
            if loc is not None and getattr(loc, "is_synthetic", False):
                ctx.count("by-construction:synthetic-reference")
            elif r.is_local_name and file != "":
                ctx.count("by-construction:unregistered-local")
            elif file == "":
                pass
            else:
                out.append(("generator-registry", "reference %s at %s:%d is not registered by the generator" %
                            (text, file, scope_x.line_of(loc)), {}))
    for f in tr.frs:
        file = tr.site[id(f)][0]
        text = ".".join(r.source_name[0].text for r in f.path)
        loc = f.path[0].source_name[0].source_location
        st = check(file, scope_x.line_of(loc), text, f.path[-1].canonical_name, "field reference")
        if st == "unregistered":
            ctx.count("by-construction:synthetic-field-reference")
    ctx.count("by-construction:references-checked", seen)
    return out


def gen_case(sub_seed, i, fault, big):
    import random
    g = gen_scope.Gen(random.Random(sub_seed), fault=fault, big=big)
    c = Case("gen:%d:%s" % (i, fault or "none"), dict(g.texts), "m.emb")
    c.gen = g
    return c


def corpus_jobs():
    out = []
    for p in sorted(glob.glob(os.path.join(CORPUS, "*.json"))):
        d = json.load(open(p))
        out.append(dict(label="corpus:" + os.path.basename(p), files=d["files"], main=d["main"], gen=None,
                        expect=d.get("expect")))
    return out


class Rec:
    """what a worker process records (same interface as the part of fw.Ctx used here)"""

    def __init__(self):
        self.counts, self.notes = {}, []

    def count(self, key, n=1):
        self.counts[key] = self.counts.get(key, 0) + n

    def note(self, s):
        self.notes.append(s)


def work(job):
    """One module set, in a worker process: generate (if asked), parse, translate, run the real
    passes, label by construction.  Returns only plain data."""
    rec = Rec()
    res = dict(label=job["label"], files=job.get("files"), main=job.get("main"), gen=job.get("gen"),
               ok=False, term=None, expected=None, status=None, nrefs=0, crash=None, violations=[], checked=False,
               fault=None, counts=rec.counts, notes=rec.notes, error=None)
    try:
        if job.get("gen") is not None:
            sub_seed, i, fault, big = job["gen"]
            c = gen_case(sub_seed, i, fault, big)
            res["files"], res["main"] = c.files, c.main
            res["fault"] = fault if c.gen.fault_applied else None
            rec.count("fault:" + (fault if fault and c.gen.fault_applied else "none"))
        else:
            c = Case(job["label"], job["files"], job["main"])
        ok = prepare(rec, c)
        res["ok"], res["status"] = ok, c.status
        if c.gen is not None and c.status == "parse-rejected":
            rec.count("generator-syntax-rejected")
            rec.note("generated module rejected by the parser (%s): %s" % (c.label, c.parse_errors[0][0].message[:200]))
        if c.status == "parse-crash":
            res["crash"] = ("parse", repr(c.parse_exception)[:300], "", type(c.parse_exception).__name__)
        if c.ob is not None and c.ob.crash:
            res["crash"] = c.ob.crash
        if ok:
            res["term"], res["expected"] = c.term, c.expected
            res["nrefs"] = len(c.tr.refsA) + len(c.tr.frs)
            if c.gen is not None:
                res["violations"] = by_construction(rec, c)
                res["checked"] = True
            elif job.get("expect") and not c.ob.crash:
                # hand-made corpus module: the verdict the scoping rules demand
                rejected = bool(c.ob.errors1) or bool(c.ob.errors2)
                reached = c.ob.errors1 is not None or c.ob.stage2 is not None
                if job["expect"] == "accept" and rejected:
                    res["violations"] = [("valid-name-rejected", "corpus module that the scoping rules accept is rejected: %s"
                                          % ((c.ob.errors1 or []) + (c.ob.errors2 or []))[:3], {})]
                elif job["expect"] == "reject" and reached and not rejected:
                    res["violations"] = [("invalid-name-silently-resolved",
                                          "corpus module with an undefined/duplicate/ambiguous name is accepted", {})]
                res["checked"] = True
    except Exception as ex:
        res["error"] = (repr(ex), traceback.format_exc())
    return res


def run_jobs(jobs):
    import multiprocessing
    n = max(1, min(12, fw.NPROC - 2))
    parse({"m.emb": "struct W:\n  0 [+1]  UInt  x\n"}, "m.emb")     # build the parser once, before forking
    if len(jobs) < 4 or n == 1:
        return [work(j) for j in jobs]
    with multiprocessing.get_context("fork").Pool(n) as pool:
        return pool.map(work, jobs, chunksize=4)


def replay_of_res(res, **kw):
    d = dict(kind="module", main=res["main"], files=res["files"], label=res["label"])
    d.update(kw)
    return d


def crash_key_of(crash):
    class _O:
        pass
    o = _O()
    o.crash = crash
    if crash[0] == "parse":
        if crash[3] == "AssertionError" and "Unable to find corresponding type" in crash[1]:
            return "desugar-crash-anonymous-bits-in-inline-struct"
        return "front-end-crash-before-resolver:%s" % crash[3]
    return crash_key(o)


def absorb(ctx, results):
    """merge worker results into ctx; returns the list of results that are ready for Coq"""
    ready = []
    for r in results:
        for k, v in r["counts"].items():
            ctx.count(k, v)
        for n in r["notes"][:3]:
            ctx.note(n)
        if r["error"]:
            ctx.count("harness-error")
            ctx.obligation("harness handled %s" % r["label"], False)
            ctx.violation("harness-crash", "check machinery crashed on %s: %s" % (r["label"], r["error"][0]),
                          replay_of_res(r, traceback=r["error"][1]), found_input=False)
            continue
        if r["crash"]:
            key = crash_key_of(r["crash"])
            ctx.count("impl-crash:" + key)
            ctx.violation(key, "the front end crashed in the resolver stage on %s: %s in %s (%s)"
                          % (r["label"], r["crash"][1], r["crash"][2], r["crash"][0]),
                          replay_of_res(r, exception=r["crash"][1], function=r["crash"][2], stage=r["crash"][0]),
                          found_input=True)
        if r["ok"]:
            ready.append(r)
    return ready


def run(ctx):
    ctx.rule = ("modules from a random scope tree (harness/gen_scope.py: nested/inline/anonymous types, parameters, abbreviations, "
                "enum values, virtual aliases, imports with aliases; names from small pools so that they repeat across scopes), "
                "about half with one injected fault from %d classes; plus /repo/testdata/*.emb and corpus/C12; one case = one "
                "module set (all references of all modules); non-trivial = has at least one reference in a user module; "
                "distinct by module text" % len(gen_scope.FAULTS))
    ctx.trusted = ["Coq 8.16.1 kernel, vm_compute", "harness/scope_x.py (translator)", "harness/gen_scope.py (generator and oracle)",
                   "harness/props/c12.py", "CPython 3.12 running /repo's front end up to resolve_field_references"]
    ctx.assumptions = ["the order in which references are visited is read from compiler.util.traverse_ir"]
    ctx.audit()
    ctx.check_theorems("EmbossV.Scope.Properties_C12", "Scope/Properties_C12.v", expect_min=20)

    t0 = time.time()
    jobs = corpus_jobs()
    for p in sorted(glob.glob(os.path.join(fw.REPO, "testdata", "*.emb"))):
        rel = os.path.relpath(p, fw.REPO)
        jobs.append(dict(label="testdata:" + rel, files={}, main=rel, gen=None))
    n_gen = 900 if ctx.thorough() else 150
    faults = list(gen_scope.FAULTS)
    for i in range(n_gen):
        fault = None if ctx.rng.random() < 0.45 else faults[i % len(faults)]
        jobs.append(dict(label="gen:%d:%s" % (i, fault or "none"),
                         gen=(ctx.rng.getrandbits(64), i, fault, ctx.rng.random() < 0.3)))
    results = run_jobs(jobs)
    ready = absorb(ctx, results)
    ctx.extra["prepare_s"] = round(time.time() - t0, 1)
    n_syntax = sum(1 for r in results if r["gen"] is not None and r["status"] == "parse-rejected")
    ctx.obligation("generator: at most 5%% of the %d modules fail to parse (%d did)" % (n_gen, n_syntax), n_syntax <= n_gen // 20)
    if n_syntax > n_gen // 20:
        ctx.violation("harness-generator", "too many generated modules are syntactically invalid", dict(kind="harness"), found_input=False)

    # --- correspondence: model vs real passes -----------------------------------
    coq_cases = [(r["term"], r["expected"], r) for r in ready]
    header = HEADER + scope_x.string_definitions([t for a, b, _ in coq_cases for t in (a, b)])
    runner = fw.CoqCases(ctx, "scope", header, "run_case", "case_eqb", "input", "(outcome1 * option outcome2)", shard=24)
    bad = runner.run(coq_cases)
    ctx.extra["coq_cases_s"] = round(time.time() - t0 - ctx.extra["prepare_s"], 1)
    for r in ready:
        ctx.case((r["label"], sorted(r["files"].items()), r["main"]), nontrivial=r["nrefs"] > 0,
                 sample={"case": r["label"], "references": r["nrefs"], "implementation": r["status"],
                         "text": (r["files"].get("m.emb", "") or r["main"])[:400]})
        ctx.count("references", r["nrefs"])
    ctx.obligation("correspondence: model = resolve_symbols/resolve_field_references on %d module sets "
                   "(canonical name of every reference, or every error with kind/file/line/name/notes)" % len(ready), not bad)
    bad_labels = {coq_cases[i][2]["label"]: out for i, out in bad}

    # --- the property by construction (this is also the search) ------------------------
    flagged = set()
    n_checked = 0

    def report(r):
        for key, desc, extra in r["violations"]:
            flagged.add(r["label"])
            if key == "generator-registry":
                ctx.violation("harness-generator", desc, replay_of_res(r, **extra), found_input=False)
            else:
                ctx.violation(key, desc + " [%s]" % r["label"], replay_of_res(r, fault=r["fault"], **extra), found_input=True)

    for r in ready:
        if not r.get("checked"):
            continue
        n_checked += 1
        report(r)
    ctx.obligation("by construction: intended target = resolved canonical name, error iff the construction made the name "
                   "missing/duplicate/ambiguous, on %d generated and hand-labelled module sets" % n_checked, not flagged)

    if bad_labels:
        unexplained = [l for l in bad_labels if l not in flagged]
        found = bool(flagged)
        if unexplained and not found:
            # search: more generated modules, the property only (no Coq)
            import random
            srng = random.Random(ctx.seed * 7919 + 12)
            sjobs = []
            for i in range(2000 if ctx.thorough() else 600):
                fault = faults[i % len(faults)] if i % 2 else None
                sjobs.append(dict(label="search:%d:%s" % (i, fault or "none"), gen=(srng.getrandbits(64), 100000 + i, fault, i % 3 == 0)))
            for r in run_jobs(sjobs):
                if r["error"] or not r["ok"]:
                    continue
                v = [x for x in r["violations"] if x[0] != "generator-registry"]
                if v:
                    key, desc, extra = v[0]
                    ctx.violation(key, desc + " [%s]" % r["label"], replay_of_res(r, fault=r["fault"], **extra), found_input=True)
                    found = True
                    break
        if not found:
            l = unexplained[0] if unexplained else list(bad_labels)[0]
            r = [x for x in ready if x["label"] == l][0]
            ctx.violation("scope-correspondence",
                          "Scope.Model.run_pass1/run_pass2 and symbol_resolver disagree on %s (%d module sets)" % (l, len(bad_labels)),
                          replay_of_res(r, correspondence="EmbossV.Scope.Model.run_pass1/run_pass2 vs "
                                        "symbol_resolver.resolve_symbols/resolve_field_references",
                                        implementation=r["expected"][:3000], model_outputs=bad_labels[l][:3000]), found_input=False)

    # --- fixed probes -------------------------------------------------------------------
    for key, files, what in PROBES:
        c = Case("probe:" + key, files, "m.emb")
        ok = prepare(ctx, c)
        if key == "abbr-static-leak":
            # the refuted theorem's witness, replayed: the resolver binds the abbreviation ...
            bound = ok and c.ob.errors1 is None
            rej = full_pipeline_rejects(c)
            ctx.extra["abbreviation_static_reference"] = {"resolver_binds_it": bool(bound), "full_compiler_rejects": rej}
            ctx.obligation("witness of abbreviation_private_static_tail_refuted replayed: the real resolver binds Type.abbr "
                           "(if it stops doing so the refuted clause must be re-examined)", bool(bound))
            if not bound:
                ctx.violation("refuted-witness-no-longer-replays", "the resolver no longer binds Foo.a; the model's refuted "
                              "theorem abbreviation_private_static_tail_refuted no longer matches the implementation",
                              replay_of(c, theorem="abbreviation_private_static_tail_refuted"), found_input=False)
            if rej is not True:
                ctx.violation("abbreviation-visible-outside-structure", "Foo.a (abbreviation of Foo.apple) used from struct Bar is accepted",
                              replay_of(c), found_input=True)
        elif c.status == "parse-crash":
            crash = ("parse", repr(c.parse_exception)[:300], "", type(c.parse_exception).__name__)
            k = crash_key_of(crash)
            ctx.count("impl-crash:" + k)
            ctx.violation(k, "the front end crashed before symbol resolution on %s: %s" % (c.label, crash[1]),
                          replay_of(c, exception=crash[1]), found_input=True)
        elif c.ob is not None and c.ob.crash:
            record_crash(ctx, c)
        else:
            ctx.count("probe-no-longer-crashes:" + key)
    ctx.extra["total_s"] = round(time.time() - t0, 1)
