"""C09 — the shipped (cached) parser tables are the parser of the documented grammar."""
import glob
import json
import os

from harness import fw
from harness import lr_tables as L

META = {
    "technique": "Coq proof that a table-bisimulation checker is sound for the model of Parser.parse (run A = run B on all inputs) + the checker run (extracted OCaml; inside Coq in thorough) on the cached and the freshly generated tables of the working tree + production-set equality module_ir / doc/grammar.md / cached + differential correspondence Parser.parse vs model",
    "level_text": "Machine-checked theorems (Coq 8.16, no axioms) for all tables, token lists and fuel: bisim_check R A B = true implies run A = run B (accept/reject, tree, error index, token, code, state, expected set, crashes, step count); load (the mirror of parser._load_module_parser) behaves like the fresh parser; equal production sets have the same derivation trees. Each run re-reads generated/cached_parser.py, regenerates the module and expression parsers with make_parser, dumps both into the model's first-order format and decides bisim_check on them, decides production-set equality of module_ir.PRODUCTIONS, doc/grammar.md and the cached production set, and runs the real Parser.parse and the model on derived sentences, token-level mutations, the error examples and tokenized testdata.",
    "level_note": "Trusted: Coq kernel + vm_compute; in quick tier the instance bisim_check is evaluated by the extracted checker (OCaml 4.13, ExtrOcamlBasic, 30-line driver) and only the production-set instances are proved inside Coq; thorough also evaluates bisim_check inside Coq. Trusted translator harness/lr_tables.py (fail closed; relation and certificates it computes are untrusted inputs of verified checkers). Modelled, not verified: lr1.Parser.parse itself (tied by correspondence); Reduction.source_location is checked on the Python side only. The tokenizer pattern table of grammar.md is compared textually (regex semantics belong to C10).",
}

FUEL = lambda n: 4000 + 300 * n


def _load_repo_parsers(ctx):
    """Import the working tree's modules; fail closed if they do not come from fw.REPO."""
    from compiler.front_end.generated import cached_parser
    from compiler.front_end import make_parser, module_ir, lr1, parser
    for m in (cached_parser, make_parser, module_ir, lr1, parser):
        f = os.path.realpath(m.__file__)
        if not f.startswith(os.path.realpath(fw.REPO) + os.sep):
            raise L.TranslationError("module %s was imported from %s, not from %s" % (m.__name__, f, fw.REPO))
    return cached_parser, make_parser, module_ir, lr1, parser


def _names(I, syms):
    return [I.sym_names[x] for x in syms]


def _decode(I, line):
    """human-readable form of an encoded result line"""
    if line[:2] == [13, 4]:
        return "out-of-fuel"
    if line[1] == 3:
        return "crash:%s" % {v: k for k, v in L.CRASH.items()}.get(line[2], line[2])
    if line[1] == 1:
        return "accepted(tree of %d numbers)" % (len(line) - 2)
    if line[1] == 2:
        return dict(error_code=I.code_vals[line[2]] if line[2] < len(I.code_vals) else line[2], index=line[3],
                    token=I.sym_names[line[4]], state=line[5], expected=_names(I, line[7:]))
    return line


def production_checks(ctx, bench, module_ir, lr1, loaded):
    """module_ir.PRODUCTIONS vs doc/grammar.md vs the cached parsers' production sets."""
    from compiler.util import parser_types
    ir = list(module_ir.PRODUCTIONS)
    doc_text = open(os.path.join(fw.REPO, "doc", "grammar.md"), encoding="utf-8").read()
    doc = L.doc_productions(doc_text)
    ctx.extra["productions"] = dict(module_ir=len(ir), grammar_md=len(doc))
    ir_i, doc_i = bench.prod_indices(ir), bench.prod_indices(doc)
    results = {}
    bench.cmd([15, len(ir_i)] + ir_i + doc_i, lambda o: results.__setitem__("doc", o))
    seeds = {"module": module_ir.START_SYMBOL, "expression": module_ir.EXPRESSION_START_SYMBOL}
    for name, (slot_c, slot_f, cached, fresh, mismatch) in loaded.items():
        want = ir + [parser_types.Production(lr1.START_PRIME, (seeds[name],))]
        want_i = bench.prod_indices(want)
        bench.cmd([14, slot_c, slot_f] + want_i, lambda o, name=name: results.__setitem__("load:" + name, o))
    dup = len(ir) != len(set(ir)) or len(doc) != len(set(doc))
    return ir, doc, results, dup


def sentence_with_production(prod, productions, start):
    """A shortest-ish sentence whose derivation uses `prod` (None if prod is unreachable/unproductive)."""
    nts = set(p.lhs for p in productions) | {prod.lhs}
    my = L.min_yields(list(productions) + [prod])
    # shortest context: BFS over nonterminals from start; ctx[X] = (left, right) terminal strings
    ctxs = {start: ((), ())}
    queue = [start]
    while queue:
        x = queue.pop(0)
        for p in productions:
            if p.lhs != x:
                continue
            if not all((y not in nts) or (y in my) for y in p.rhs):
                continue
            for k, y in enumerate(p.rhs):
                if y in nts and y not in ctxs:
                    left = ctxs[x][0] + tuple(L.expand_path(p.rhs[:k], list(productions) + [prod]))
                    right = tuple(L.expand_path(p.rhs[k + 1:], list(productions) + [prod])) + ctxs[x][1]
                    ctxs[y] = (left, right)
                    queue.append(y)
    if prod.lhs not in ctxs:
        return None
    mid = L.expand_path(prod.rhs, list(productions) + [prod])
    if mid is None:
        return None
    return list(ctxs[prod.lhs][0]) + list(mid) + list(ctxs[prod.lhs][1])


def search_production_difference(ctx, ir, doc, fresh_module, bench):
    """doc/grammar.md and module_ir disagree: look for a token string on which the real
    parser and the documented grammar disagree."""
    from compiler.front_end import module_ir
    irs, docs = set(ir), set(doc)
    only_doc, only_ir = sorted(docs - irs), sorted(irs - docs)
    cp = L.counting_parser(fresh_module)
    start = module_ir.START_SYMBOL
    for where, p in [("doc", q) for q in only_doc] + [("ir", q) for q in only_ir]:
        base = doc if where == "doc" else ir
        other = ir if where == "doc" else doc
        s0 = sentence_with_production(p, base, start)
        if s0 is None or "$" in s0:
            continue
        # the shortest sentence through p, then random expansions of p's right-hand side in its shortest context
        mid0 = L.expand_path(list(p.rhs), base)
        k0 = [k for k in range(len(s0) - len(mid0) + 1) if s0[k:k + len(mid0)] == mid0]
        cands = [s0]
        nts = set(q.lhs for q in base)
        if k0:
            left, right = s0[:k0[0]], s0[k0[0] + len(mid0):]
            for _ in range(40):
                mid = []
                for x in p.rhs:
                    if x in nts:
                        mid += L.random_sentence(ctx.rng, base, x, ctx.rng.choice([1, 2, 4, 8])) or []
                    else:
                        mid.append(x)
                cands.append(left + mid + right)
        e_doc = L.Earley(start, [(q.lhs, q.rhs) for q in doc])
        e_ir = L.Earley(start, [(q.lhs, q.rhs) for q in ir])
        for s in cands:
            in_doc, in_ir = e_doc.accepts(s), e_ir.accepts(s)
            res, _ = L.py_run_safe(cp, s, FUEL(len(s)), bench.I)
            accepted = res[1] == 1
            if in_doc == accepted:
                continue
            return dict(kind="tokens", parser="module", tokens=s, production="%s -> %s" % (p.lhs, " ".join(p.rhs) or "<empty>"),
                        only_in=("doc/grammar.md" if where == "doc" else "module_ir.PRODUCTIONS"),
                        derivable_in_grammar_md=in_doc, derivable_in_module_ir=in_ir,
                        parse_module=_decode(bench.I, res))
    return None


def add_cases(ctx, bench, name, slots, parsers, inputs, sink):
    """queue model runs + run the real parsers; sink gets (kind, symbols, [python results], [model results])"""
    cps = [L.counting_parser(p) for p in parsers]
    for kind, syms in inputs:
        fuel = FUEL(len(syms))
        py = []
        for cp in cps:
            r, problems = L.py_run_safe(cp, syms, fuel, bench.I)
            py.append(r)
            for pr in problems:
                ctx.violation("lr1-parse-exception" if pr.startswith("exception:") else "parse-tree-metadata",
                          "Parser.parse result inconsistent: " + pr,
                              dict(kind="tokens", parser=name, tokens=syms, problem=pr), found_input=True)
        nums = [bench.I.s(x) for x in syms]
        entry = dict(kind=kind, syms=syms, py=py, model=[None] * len(slots), name=name)
        for k, slot in enumerate(slots):
            bench.cmd([13, slot, fuel] + nums, lambda o, entry=entry, k=k: entry["model"].__setitem__(k, o))
        sink.append(entry)


def gather_inputs(ctx, name, productions, start, terminals, n_sent, budgets, extra_symbols):
    rng = ctx.rng
    inputs = []
    for _ in range(n_sent):
        s = L.random_sentence(rng, productions, start, rng.choice(budgets))
        inputs.append(("sentence", s))
        for _ in range(3):
            k, m = L.mutate_tokens(rng, s, terminals, extra_symbols)
            inputs.append(("mut-" + k, m))
    return inputs


def run(ctx):
    ctx.rule = ("inputs per parser (module, expression): random sentences derived from module_ir.PRODUCTIONS (size budgets 5..400), "
                "3 single token-level mutations of each (delete/insert/replace/swap/truncate/duplicate/alien symbol incl. '$' and "
                "nonterminal names), the token strings of compiler/front_end/error_examples, tokenized testdata/*.emb; a case is "
                "non-trivial when it has >= 3 tokens; distinct by token string.  Each case: real Parser.parse on the loaded (cached) "
                "and on the freshly generated parser, model `run` on both table dumps; all four encoded results must be equal")
    ctx.trusted = ["Coq 8.16.1 kernel, vm_compute", "OCaml 4.13.1 + extraction (ExtrOcamlBasic) + extract/lr/driver.ml (quick tier instance checks)",
                   "harness/lr_tables.py translator", "harness/props/c09.py", "CPython 3.12 running /repo's lr1.py"]
    ctx.assumptions = ["Reduction.source_location is outside the model (checked against the leaves on the Python side)",
                       "python -O (asserts stripped) is outside the model"]
    ctx.audit(extra_files=[os.path.join(fw.VERIF, "extract", "lr", "Extract.v")])
    ctx.check_theorems("EmbossV.LR.Properties_C09", "LR/Properties_C09.v", expect_min=6)

    driver = L.build_driver(ctx)
    ctx.obligation("extracted checker builds (coqc Extract.v, ocamlfind ocamlopt)", driver is not None)
    if driver is None:
        ctx.violation("extraction-broken", "the extracted model could not be built", dict(kind="build"), found_input=False)
        return

    # ---- (T) regenerate tables from the working tree ------------------------------------
    try:
        cached_parser, make_parser, module_ir, lr1, parser_mod = _load_repo_parsers(ctx)
        from compiler.front_end import tokenizer
        bench = L.Bench(ctx, driver)
        loaded_m, loaded_e = parser_mod._load_module_parser(), parser_mod._load_expression_parser()
        raw_cached = {"module": cached_parser.module_parser(), "expression": cached_parser.expression_parser()}
        try:
            fresh = {"module": make_parser.build_module_parser(), "expression": make_parser.build_expression_parser()}
        except Exception as ex:   # ParserGenerationError, AssertionError in lr1, ...
            ctx.obligation("fresh parsers generate from module_ir + error_examples", False)
            ctx.violation("fresh-parser-generation-failed", "make_parser failed on the working tree: %r" % (ex,),
                          dict(kind="generation", exception=repr(ex)[:2000],
                               correspondence="cached tables vs make_parser.build_*_parser()"), found_input=False)
            return
        ctx.obligation("fresh parsers generate from module_ir + error_examples", True)
        loaded = {}
        tabs = {}
        slot = 1
        for name, ld in (("module", loaded_m), ("expression", loaded_e)):
            mismatch = ld.cache_mismatch != (set(), set())
            tabs[name] = (bench.add_table(ld.parser, slot), bench.add_table(fresh[name], slot + 1),
                          bench.add_table(raw_cached[name], slot + 2))
            loaded[name] = (slot + 2, slot + 1, ld.parser, fresh[name], mismatch)
            ctx.count("load:%s:%s" % (name, "fresh(cache mismatch)" if mismatch else "cached"))
            if mismatch:
                ctx.note("%s parser: cached production set differs from module_ir; parser.py regenerates at load time "
                         "(cached-only: %d, module_ir-only: %d)" % (name, len(ld.cache_mismatch[0]), len(ld.cache_mismatch[1])))
            slot += 3
        ir, doc, presults, dup = production_checks(ctx, bench, module_ir, lr1, loaded)
    except L.TranslationError as ex:
        ctx.obligation("tables translate (fail-closed translator)", False)
        ctx.violation("translator-failed", "table translation failed: %s" % ex,
                      dict(kind="translator", error=str(ex), correspondence="harness/lr_tables.py vs working tree"), found_input=False)
        return
    ctx.obligation("tables translate (fail-closed translator)", True)
    ctx.extra["table_sizes"] = {n: dict(states=len(t[1].action), action_entries=sum(len(r) for r in t[1].action.values()),
                                        goto_entries=sum(len(r) for r in t[1].goto.values()),
                                        default_errors=len(t[1].derr)) for n, t in tabs.items()}

    # ---- bisimulation: loaded (= cached unless parser.py fell back) vs fresh ---------------
    bis = {}
    explored = {}
    for name, sl in (("module", 1), ("expression", 4)):
        rel, diffs, parent = L.explore_pairs(tabs[name][0], tabs[name][1])
        explored[name] = (rel, diffs, parent)
        bench.cmd_relation(rel, sl, sl + 1, lambda o, name=name: bis.__setitem__(name, o))
        ctx.count("pairs:" + name, sum(len(v) for v in rel.values()))

    # ---- correspondence inputs ----------------------------------------------------------------
    thorough = ctx.thorough()
    sink = []
    terms = {}
    for name, start in (("module", module_ir.START_SYMBOL), ("expression", module_ir.EXPRESSION_START_SYMBOL)):
        terms[name] = sorted(set(fresh[name].terminals) - {lr1.END_OF_INPUT})
        inputs = []
        # corpus and replay first
        paths = sorted(glob.glob(os.path.join(fw.VERIF, "corpus", "C09", "*.json")))
        if getattr(ctx, "replay_path", None):
            paths.insert(0, ctx.replay_path)
        for p in paths:
            try:
                rp = json.load(open(p))
                rp = rp.get("replay", rp)
                if rp.get("parser") == name and isinstance(rp.get("tokens"), list):
                    inputs.append(("corpus", [str(x) for x in rp["tokens"]]))
            except (OSError, ValueError):
                ctx.note("unreadable corpus file " + p)
        if name == "module":
            text = open(os.path.join(fw.REPO, "compiler", "front_end", "error_examples")).read()
            for toks, err_tok, msg, src in make_parser.parse_error_examples(text):
                if any(t is lr1.ANY_TOKEN for t in toks):
                    i = [k for k, t in enumerate(toks) if t is lr1.ANY_TOKEN][0]
                    for sub in ctx.rng.sample(terms[name], 3) + ["BadWord"]:
                        inputs.append(("error-example-any", [t.symbol for t in toks[:i]] + [sub] + [t.symbol for t in toks[i + 1:]]))
                else:
                    inputs.append(("error-example", [t.symbol for t in toks]))
            files = sorted(glob.glob(os.path.join(fw.REPO, "testdata", "*.emb"))) + \
                sorted(glob.glob(os.path.join(fw.REPO, "compiler", "front_end", "*.emb")))
            for p in files:
                toks, errs = tokenizer.tokenize(open(p).read(), p)
                if errs:
                    ctx.count("file-tokenize-error")
                    continue
                syms = [t.symbol for t in toks]
                inputs.append(("file", syms))
                if len(syms) < 1500:
                    k, m = L.mutate_tokens(ctx.rng, syms, terms[name], ["BadWord", "$"])
                    inputs.append(("file-mut-" + k, m))
            n_sent, budgets = (3000, [5, 20, 60, 150, 400]) if thorough else (350, [5, 20, 60, 150, 400])
        else:
            n_sent, budgets = (3000, [3, 10, 30, 80]) if thorough else (350, [3, 10, 30, 80])
        inputs += gather_inputs(ctx, name, module_ir.PRODUCTIONS, start, terms[name], n_sent, budgets,
                                ["BadWord", "$", "module", "expression", "Comment"])
        base = 1 if name == "module" else 4
        add_cases(ctx, bench, name, [base, base + 1], [loaded[name][2], fresh[name]], inputs, sink)

    try:
        bench.flush("main")
    except L.TranslationError as ex:
        ctx.obligation("extracted model ran", False)
        ctx.violation("model-run-failed", str(ex), dict(kind="model", error=str(ex)), found_input=False)
        return
    ctx.obligation("extracted model ran", True)

    # ---- production sets ---------------------------------------------------------------------
    ok_doc = presults.get("doc") == [15, 1] and not dup
    ctx.obligation("production set of doc/grammar.md = module_ir.PRODUCTIONS (prodset_eqb, %d productions)" % len(ir), ok_doc)
    if not ok_doc:
        found = search_production_difference(ctx, ir, doc, fresh["module"], bench)
        only_doc = ["%s -> %s" % (p.lhs, " ".join(p.rhs) or "<empty>") for p in sorted(set(doc) - set(ir))]
        only_ir = ["%s -> %s" % (p.lhs, " ".join(p.rhs) or "<empty>") for p in sorted(set(ir) - set(doc))]
        desc = "doc/grammar.md and module_ir.PRODUCTIONS differ (only in grammar.md: %s; only in module_ir: %s)" % (only_doc[:3], only_ir[:3])
        if found:
            ctx.violation("grammar-md-differs-from-module-ir", desc + "; token string on which grammar.md and the parser disagree found",
                          found, found_input=True)
        else:
            ctx.violation("grammar-md-differs-from-module-ir", desc,
                          dict(kind="theorem", theorem="doc_grammar_equal instance (prodset_eqb doc_prods ir_prods = true)",
                               only_in_grammar_md=only_doc, only_in_module_ir=only_ir, duplicates=dup), found_input=False)
    for name in ("module", "expression"):
        o = presults.get("load:" + name)
        picked_cached_model = o == [14, 1]
        picked_cached_py = not loaded[name][4]
        ctx.obligation("load (model) picks the same parser as parser._load_%s_parser: %s" % (name, "cached" if picked_cached_py else "fresh"),
                       picked_cached_model == picked_cached_py)
        if picked_cached_model != picked_cached_py:
            ctx.violation("load-correspondence", "model `load` and parser.py disagree on whether the cached %s parser is used" % name,
                          dict(kind="correspondence", correspondence="LR.Bisim.load vs parser._load_%s_parser" % name), found_input=False)
    # tokenizer table of grammar.md (textual)
    try:
        doc_text = open(os.path.join(fw.REPO, "doc", "grammar.md"), encoding="utf-8").read()
        same_tok = L.doc_token_table(doc_text) == L.source_token_table()
    except L.TranslationError as ex:
        same_tok = False
        ctx.note("token table of grammar.md not understood: %s" % ex)
    ctx.obligation("tokenizer pattern table of doc/grammar.md = tokenizer.py tables (textual)", same_tok)
    if not same_tok:
        ctx.violation("grammar-md-token-table-differs", "the tokenizer table in doc/grammar.md differs from tokenizer.py",
                      dict(kind="theorem", theorem="doc token table equality (textual)"), found_input=False)

    # ---- in-Coq instance theorems ----------------------------------------------------------
    instance_theorems(ctx, bench, ir, doc, loaded, module_ir, lr1, tabs, explored)

    # ---- bisimulation verdicts + search ---------------------------------------------------
    for name in ("module", "expression"):
        rel, diffs, parent = explored[name]
        hard = [d for d in diffs if not d.get("soft")]
        ok_model = bis.get(name, [])[3:] == [1, 1]
        ctx.obligation("bisim_check R loaded_%s fresh_%s = true (extracted checker; %d state pairs)"
                       % (name, name, sum(len(v) for v in rel.values())), ok_model)
        if ok_model and not diffs:
            continue
        if ok_model != (not diffs):
            ctx.note("python exploration (%d differences) and bisim_check (%s) disagree for %s" % (len(diffs), ok_model, name))
        found = search_table_difference(ctx, bench, name, diffs, parent, loaded[name][2], fresh[name], terms[name], module_ir)
        first = (diffs or [dict(what="bisim_check = false", pair=None)])[0]
        desc = "loaded %s parser differs from the freshly generated one: %s at state pair %s%s" % (
            name, first["what"], first.get("pair"), (" on " + bench.I.sym_names[first["sym"]]) if "sym" in first else "")
        cat = "state-numbering" if (diffs and not hard) else "table-entry"
        if found:
            ctx.violation("cached-parser-differs-from-fresh:" + cat, desc, found, found_input=True)
        else:
            ctx.violation("cached-parser-differs-from-fresh:" + cat, desc,
                          dict(kind="theorem", theorem="cached_%s_equiv: bisim_check R loaded fresh = true" % name,
                               differences=[dict(what=d["what"], pair=d.get("pair"),
                                                 symbol=bench.I.sym_names[d["sym"]] if "sym" in d else None) for d in diffs[:10]]),
                          found_input=False)

    # ---- correspondence verdicts -----------------------------------------------------------
    n_bad_model = n_bad_py = 0
    for e in sink:
        outcome = {1: "accept", 2: "reject", 3: "crash", 4: "out-of-fuel"}.get(e["py"][1][1], "?")
        ctx.count("%s:%s:%s" % (e["name"], e["kind"], outcome))
        ctx.count("%s:tokens" % e["name"], len(e["syms"]))
        ctx.case((e["name"], tuple(e["syms"])), nontrivial=len(e["syms"]) >= 3,
                 sample=dict(parser=e["name"], kind=e["kind"], tokens=e["syms"][:40], python=str(_decode(bench.I, e["py"][1]))[:300]))
        if e["py"][0] != e["py"][1]:
            n_bad_py += 1
            ctx.violation("cached-parser-differs-from-fresh:parse-result",
                          "Parser.parse gives different results for the loaded and the fresh %s parser" % e["name"],
                          dict(kind="tokens", parser=e["name"], tokens=e["syms"], loaded=_decode(bench.I, e["py"][0]),
                               fresh=_decode(bench.I, e["py"][1])), found_input=True)
        for k in (0, 1):
            if e["model"][k] != e["py"][k]:
                n_bad_model += 1
                ctx.violation("driver-correspondence", "model `run` and Parser.parse disagree on the %s %s tables"
                              % (("loaded", "fresh")[k], e["name"]),
                              dict(kind="tokens", parser=e["name"], tokens=e["syms"], which=("loaded", "fresh")[k],
                                   correspondence="LR.Driver.run vs lr1.Parser.parse",
                                   python=str(_decode(bench.I, e["py"][k])), model=str(_decode(bench.I, e["model"][k])),
                                   python_raw=e["py"][k][:60], model_raw=e["model"][k][:60]), found_input=False)
    ctx.obligation("correspondence: Parser.parse(loaded) = Parser.parse(fresh) on %d inputs" % len(sink), n_bad_py == 0)
    ctx.obligation("correspondence: model run = Parser.parse on %d inputs x 2 tables" % len(sink), n_bad_model == 0)
    codes = set(e["py"][1][2] for e in sink if e["py"][1][1] == 2)
    ctx.extra["distinct_error_codes_exercised"] = len(codes)
    ctx.extra["error_codes_in_tables"] = len(bench.I.code_vals) - 1


def search_table_difference(ctx, bench, name, diffs, parent, loaded_parser, fresh_parser, terminals, module_ir):
    """first differing table entry -> shortest symbol path to that state pair -> token string(s);
    run both real parsers; return a replay dict for the first string on which they differ."""
    I = bench.I
    prods = list(module_ir.PRODUCTIONS)
    cl, cf = L.counting_parser(loaded_parser), L.counting_parser(fresh_parser)
    tried = 0
    for d in diffs[:40]:
        if d.get("pair") is None:
            continue
        path = [I.sym_names[x] for x in L.path_to(parent, d["pair"])]
        prefix = L.expand_path(path, prods)
        if prefix is None:
            continue
        cands = []
        if "sym" in d and not d.get("goto"):
            cands.append(prefix + [I.sym_names[d["sym"]]])
            for t in terminals + ["$x-unknown"]:
                cands.append(prefix + [I.sym_names[d["sym"]], t])
        elif d.get("goto"):
            mid = L.expand_path([I.sym_names[d["sym"]]], prods)
            if mid is not None:
                for t in [None] + terminals:
                    cands.append(prefix + mid + ([t] if t else []))
                    for t2 in terminals[:12]:
                        if t:
                            cands.append(prefix + mid + [t, t2])
        for t in [None] + terminals + ["$x-unknown"]:
            cands.append(prefix + ([t] if t else []))
        for s in cands:
            tried += 1
            r1, _ = L.py_run_safe(cl, s, FUEL(len(s)), I)
            r2, _ = L.py_run_safe(cf, s, FUEL(len(s)), I)
            if r1 != r2:
                return dict(kind="tokens", parser=name, tokens=s, loaded=_decode(I, r1), fresh=_decode(I, r2),
                            difference=d["what"], state_pair=list(d["pair"]), symbol_path=path, candidates_tried=tried)
    ctx.note("search: %d candidate token strings tried, the two real parsers agree on all" % tried)
    return None


def instance_theorems(ctx, bench, ir, doc, loaded, module_ir, lr1, tabs, explored):
    """Generated Coq file: the production-set instances (always) and, in thorough, the
    bisimulation instances, closed by vm_compute."""
    I = bench.I
    d = os.path.join(ctx.bdir, "inst")
    os.makedirs(d, exist_ok=True)

    def plist(ps):
        return "[" + "; ".join("(%d, [%s])" % (I.s(p.lhs), ";".join(str(I.s(x)) for x in p.rhs)) for p in ps) + "]%N"

    path = os.path.join(d, "Instance_C09.v")
    with open(path, "w") as f:
        f.write("From Coq Require Import NArith List.\nImport ListNotations.\n"
                "Require Import EmbossV.LR.Driver EmbossV.LR.Sound EmbossV.LR.Bisim EmbossV.LR.Exec.\n")
        f.write("Definition ir_prods : list production := %s.\n" % plist(ir))
        f.write("Definition doc_prods : list production := %s.\n" % plist(doc))
        f.write("Theorem doc_grammar_equal : prodset_eqb doc_prods ir_prods = true.\nProof. vm_compute. reflexivity. Qed.\n")
        f.write("Theorem doc_grammar_same_language : forall s X t i w, derives {| g_start := s; g_prods := doc_prods |} X t i w <-> "
                "derives {| g_start := s; g_prods := ir_prods |} X t i w.\n"
                "Proof. intros s. apply same_prods_same_derivations. exact doc_grammar_equal. Qed.\n")
    rc, out = fw.coqc(path, timeout=600)
    ctx.obligation("Coq instance theorems doc_grammar_equal, doc_grammar_same_language (vm_compute, regenerated)", rc == 0)
    if rc != 0 and set(ir) == set(doc):
        ctx.violation("instance-theorem-broken", "Instance_C09.v failed although the Python comparison agrees: " + out[-600:],
                      dict(kind="theorem", theorem="doc_grammar_equal", log=out[-3000:]), found_input=False)
    if not ctx.thorough():
        return
    # thorough: bisim_check inside Coq on the regenerated tables
    for name, base in (("expression", 4), ("module", 1)):
        rel = explored[name][0]
        lines = L.table_lines(tabs[name][0], 1, I, bench.eoi) + L.table_lines(tabs[name][1], 2, I, bench.eoi)
        # production lines are only emitted once by the interner: re-create them all
        plines = [[2, k, I.sym[l]] + [I.sym[x] for x in r] for k, (l, r) in enumerate(I.prod_vals)]
        lines = plines + lines + L.relation_lines(rel)
        path = os.path.join(d, "Bisim_%s.v" % name)
        with open(path, "w") as f:
            f.write("From Coq Require Import NArith List.\nImport ListNotations.\n"
                    "Require Import EmbossV.LR.Driver EmbossV.LR.Bisim EmbossV.LR.Exec.\n")
            f.write("Definition lines : list (list N) :=\n%s.\n" % L.coq_lines_literal(lines))
            f.write("Definition st := final lines.\n")
            f.write("Theorem cached_%s_equiv : bisim_check (x_rel st) (slot_tables st 1) (slot_tables st 2) = true.\n"
                    "Proof. vm_compute. reflexivity. Qed.\n" % name)
            f.write("Theorem cached_%s_same_behaviour : forall fuel toks, run (slot_tables st 1) fuel toks = run (slot_tables st 2) fuel toks.\n"
                    "Proof. exact (bisim_sound _ _ _ cached_%s_equiv). Qed.\n" % (name, name))
        rc, out = fw.coqc(path, timeout=2400, stack_unlimited=True)
        ctx.obligation("Coq instance theorem cached_%s_equiv (bisim_check by vm_compute inside Coq)" % name, rc == 0)
        if rc != 0:
            ctx.note("in-Coq bisimulation for %s failed/timed out: %s" % (name, out[-400:]))
            if not explored[name][1]:
                ctx.violation("instance-theorem-broken", "Bisim_%s.v failed although the extracted checker agrees" % name,
                              dict(kind="theorem", theorem="cached_%s_equiv" % name, log=out[-3000:]), found_input=False)
