"""C01 — generated views report structure state and values as the .emb defines."""
import glob
import json
import os

from harness import fw, gen_view, view_x, cpp_build, view_ref
from harness.irx import OutOfModel

META = {
    "technique": "Coq model of the generated view code (Maybe<> arithmetic, storage clamp, scalar/array/struct views) with theorems on monotonicity/prefix stability, Ok()-switch equivalence and $size = max end, and agreement with an independent reference semantics (View/Ref.v flat structures, View/RefNest.v trees for bits blocks, nested structures with parameters and dynamic sizes); tied to /repo by translating the real IR and diffing against compiled generated C++ on the same buffers",
    "level_text": "Machine-checked theorems about an executable Gallina model of the generated C++ view (expression evaluation over Maybe<>, GetOffsetStorage clamping, BitBlock/OffsetBitBlock, scalar, array, structure, virtual, alias and parameter views). The model is regenerated from the real IR on every run (translator harness/view_x.py) and its observations (Ok, IsComplete, SizeIsKnown/size, has_x tri-state, values, element counts) are compared with the observations printed by the header the working tree's embossc generates, compiled with g++, on generated modules and buffers of every length. The reference semantics (per-field equations written from the language reference, no storage objects or evaluation order) is proved equal to the model's report for every structure of a decidable class (gen_agrees_with_ref_partial, gen_agrees_with_ref_nested: scalars, conditions, dynamic offsets, bits blocks, nested structures to any depth with parameters and dynamic sizes; arrays and conditional virtual fields refuted with witnesses) and its observation vector is compared directly with the compiled C++ on complete and truncated buffers (harness/view_ref.py).",
    "level_note": "Trusted: Coq kernel/vm_compute; the IR translator and C++ driver generator (harness/view_x.py); g++ 12. Modelled, not verified: the C++ runtime and templates themselves. Scalar decoding is proved in C02 (Bits); here it is a model function compared by correspondence. Out of model (counted): user externals, multi-dimensional arrays, aliases of non-constant virtual fields (finding F21), Float fields.",
}

HEADER = "Require Import EmbossV.Bounds.Model EmbossV.View.Model EmbossV.View.Exec.\nOpen Scope Z_scope.\n"


def compile_ir(text, name="m.emb", extra=None):
    from compiler.front_end import glue

    def reader(fn):
        if fn == name:
            return text, None
        if extra and fn in extra:
            return extra[fn], None
        p = os.path.join(fw.REPO, fn)
        if os.path.exists(p):
            return open(p).read(), None
        return None, ["file not found: " + fn]

    ir, debug, errors = glue.parse_emboss_file(name, reader)
    return ir, errors


def canon(e):
    """structure of an IR expression, ignoring annotations and source locations"""
    w = e.which_expression
    if w == "constant":
        return ("const", int(e.constant.value))
    if w == "boolean_constant":
        return ("bool", bool(e.boolean_constant.value))
    if w == "constant_reference":
        return ("cref", tuple(e.constant_reference.canonical_name.object_path))
    if w == "field_reference":
        return ("ref", tuple(tuple(r.canonical_name.object_path) for r in e.field_reference.path))
    if w == "builtin_reference":
        return ("builtin", tuple(e.builtin_reference.canonical_name.object_path))
    if w == "function":
        return (e.function.function.name, tuple(canon(a) for a in e.function.args))
    return ("?", w)


def check_size_synthesis(ctx, ir, text):
    """tie for theorem size_is_max_end: the $size_in_* virtual field the real desugar pass built is
    $max(0, cond_i ? start_i + size_i : 0 ...) over the physical fields in source order."""
    from compiler.util import ir_util
    n = 0
    for mod in ir.module:
        if not mod.source_file_name:
            continue
        stack = list(mod.type)
        while stack:
            t = stack.pop()
            stack.extend(t.subtype)
            if not t.has_field("structure"):
                continue
            size_field = [f for f in t.structure.field if f.name.name.text in ("$size_in_bits", "$size_in_bytes")]
            if len(size_field) != 1:
                ctx.violation("size-synthesis", "structure without exactly one $size field", dict(kind="module", module=text), found_input=True)
                continue
            expected = ("MAXIMUM", (("const", 0),) + tuple(
                ("CHOICE", (canon(f.existence_condition), ("ADDITION", (canon(f.location.start), canon(f.location.size))), ("const", 0)))
                for f in t.structure.field if not ir_util.field_is_virtual(f)))
            n += 1
            if canon(size_field[0].read_transform) != expected:
                ctx.violation("size-synthesis", "the synthesized %s of %s is not $max(0, cond ? start + size : 0, ...)"
                              % (size_field[0].name.name.text, t.name.name.text),
                              dict(kind="module", module=text, got=repr(canon(size_field[0].read_transform))[:1500],
                                   expected=repr(expected)[:1500]), found_input=True)
    return n


def has_array(text):
    """an array type (`UInt:8[]`, `Cell[3]`) occurs in the module text; field locations are written ` [+n]`"""
    import re
    return re.search(r"[A-Za-z0-9]\[", text) is not None


def zlist(xs):
    return "[" + "; ".join(("(%d)" % x) if x < 0 else str(x) for x in xs) + "]"


def oracle_value(b, off, size, kind, order):
    """what field (off, size, kind, order) of buffer b reads, as the driver prints it; None = not compared"""
    if len(b) < off + size:
        return "x"
    v = int.from_bytes(bytes(b[off:off + size]), "big" if order == "BigEndian" else "little")
    if kind == "UInt":
        return str(v)
    if kind == "Int":
        return str(v - (1 << (8 * size)) if v >> (8 * size - 1) else v)
    if kind == "Bcd":
        digits = [(v >> (4 * k)) & 15 for k in range(2 * size)]
        if any(d > 9 for d in digits):
            return "x"          # not Ok(): no value
        return str(sum(d * 10 ** k for k, d in enumerate(digits)))
    return None


def corpus_structures(ctx, with_parameters=True):
    """(relative path, IR, translator, module term, type index, type IR) of every byte-addressable structure of
    testdata/*.emb that the view model covers (modules importing other modules are skipped)."""
    out = []
    for p in sorted(glob.glob(os.path.join(fw.REPO, "testdata", "*.emb"))):
        rel = os.path.relpath(p, fw.REPO)
        try:
            cir, cerrs = compile_ir(open(p).read(), rel)
            if cerrs or len(cir.module) != 2:       # the module itself and the prelude: no other imports
                ctx.count("corpus-skipped:" + ("rejected" if cerrs else "imports"))
                continue
            ctr = view_x.ViewTranslator(cir)
            cterm = ctr.module()
            for k, t in enumerate(ctr.types):
                # top-level views are constructed over bytes: structures only, not `bits` types
                if (t.has_field("structure") and int(t.addressable_unit) == 8
                        and all(pp.type.which_type == "integer" for pp in t.runtime_parameter)
                        and (with_parameters or not t.runtime_parameter)):
                    out.append((rel, cir, ctr, cterm, k, t))
        except OutOfModel as ex:
            ctx.count("corpus-out-of-model:" + str(ex).split(" ")[0])
        except Exception as ex:
            ctx.note("corpus file %s: %r" % (rel, ex))
    return out


def run(ctx):
    ctx.rule = ("modules from harness/gen_view.py (feature vector: scalars x widths x byte orders, conditions incl. switch pattern, "
                "dynamic offsets/sizes, bits blocks, enums, virtual fields, aliases, nested structs, parameters (nested and top-level), an imported module, arrays, $next, requires, type-boundary virtual fields); "
                "buffers of every length 0..max+2 with 0x00/0xFF/random fills; one case = (module, buffer); non-trivial = buffer long "
                "enough for at least the tag byte; distinct by (module text, buffer)")
    ctx.trusted = ["Coq 8.16.1 kernel, vm_compute", "harness/view_x.py (IR translator + C++ driver generator)", "harness/cpp_build.py", "g++ -std=c++14 -O0"]
    ctx.audit()
    ctx.check_theorems("EmbossV.View.Properties_C01", "View/Properties_C01.v", expect_min=32)

    n_mod = 150 if ctx.thorough() else 16
    n_buf = 60 if ctx.thorough() else 30
    jobs, infos = [], []
    n_size_checked = 0
    for p in sorted(glob.glob(os.path.join(fw.REPO, "testdata", "*.emb"))):
        rel = os.path.relpath(p, fw.REPO)
        try:
            cir, cerrs = compile_ir(open(p).read(), rel)
            if not cerrs:
                n_size_checked += check_size_synthesis(ctx, cir, rel)
        except Exception as ex:
            ctx.note("corpus file %s: %r" % (rel, ex))
    for i in range(n_mod):
        gm = gen_view.ViewModule(ctx.rng)
        text = gm.text()
        extra = {"inc.emb": gm.inc_text} if gm.inc_text is not None else None
        try:
            ir, errors = compile_ir(text, extra=extra)
        except Exception as ex:
            ctx.count("compile-crash")
            ctx.note("compiler raised %r on generated module %d" % (ex, i))
            continue
        if errors:
            ctx.count("compile-rejected")
            if ctx.histogram.get("compile-rejected", 0) <= 3:
                from compiler.util import error
                ctx.note("rejected: " + error.format_errors(errors, {"m.emb": text}).split("\n")[0])
            continue
        n_size_checked += check_size_synthesis(ctx, ir, text)
        try:
            tr = view_x.ViewTranslator(ir)
            mod_term = tr.module()
            top = [k for k, t in enumerate(tr.types) if t.name.name.text == "Top"][0]
            bufs = gen_view.buffers_for(ctx.rng, 80, n_buf)
            # prefix pairs: every prefix is itself one of the compared buffers
            prefix_pairs = []
            for b in [x for x in bufs if len(x) >= 2][:8]:
                k = ctx.rng.randrange(0, len(b))
                prefix_pairs.append((b[:k], b[k:]))
                bufs.append(b[:k])
            # the header is generated in this process from the very IR that was translated (a separate
            # embossc process numbers anonymous fields differently), and inlined into the driver
            from compiler.back_end.cpp import header_generator
            header, herrs = header_generator.generate_header(ir)
            if herrs:
                ctx.count("header-generation-rejected")
                continue
            pvals = [gm.top_param] if gm.top_param is not None else []
            if extra:
                # the imported module's header is generated from its own compilation and inlined in place
                # of the #include line
                inc_ir, inc_errs = compile_ir(gm.inc_text, "inc.emb")
                inc_header, inc_herrs = header_generator.generate_header(inc_ir)
                if inc_errs or inc_herrs or '#include "inc.emb.h"' not in header:
                    ctx.count("import-header-unavailable")
                    continue
                header = header.replace('#include "inc.emb.h"', inc_header)
                ctx.count("module-with-import")
            driver = tr.driver("/*INLINE*/\n" + header, top, pvals, bufs, probes=[o[0] for o in gm.oracle])
        except OutOfModel as ex:
            ctx.count("out-of-model:" + str(ex).split(" ")[0])
            continue
        jobs.append(cpp_build.CppJob("m%d" % i, None, driver))
        infos.append(dict(i=i, text=text, mod=mod_term, top=top, bufs=bufs, prefix_pairs=prefix_pairs, pvals=pvals, oracle=gm.oracle))
    # ---- the structures of testdata/*.emb (all features the upstream corpus uses) through the same comparison
    corpus_types = corpus_structures(ctx)
    chosen = corpus_types if ctx.thorough() else ctx.rng.sample(corpus_types, min(10, len(corpus_types)))
    headers = {}
    for ci, (rel, cir, ctr, cterm, k, t) in enumerate(chosen):
        try:
            if rel not in headers:
                from compiler.back_end.cpp import header_generator
                headers[rel] = header_generator.generate_header(cir)
            header, herrs = headers[rel]
            if herrs:
                continue
            pvals = [ctx.rng.choice([0, 1, 2, 3, 5]) for _ in t.runtime_parameter]
            bufs = gen_view.buffers_for(ctx.rng, 40, 20) + [[ctx.rng.choice([0, 1, 2, 3]) for _ in range(n)] for n in (4, 8, 16, 32, 64)]
            driver = ctr.driver("/*INLINE*/\n" + header, k, pvals, bufs)
        except OutOfModel as ex:
            ctx.count("corpus-out-of-model:" + str(ex).split(" ")[0])
            continue
        jobs.append(cpp_build.CppJob("m%d" % (1000 + ci), None, driver))
        infos.append(dict(i=1000 + ci, text="# %s, structure %s\n" % (rel, ".".join(t.name.canonical_name.object_path)) + open(os.path.join(fw.REPO, rel)).read(),
                          mod=cterm, top=k, bufs=bufs, prefix_pairs=[], pvals=pvals, oracle=[]))
        ctx.count("corpus-structure")
    # ---- fixed modules of corpus/C01 (shapes no random module reaches), every run, with their own buffers
    for fi, fp in enumerate(sorted(glob.glob(os.path.join(fw.VERIF, "corpus", "C01", "*.json")))):
        item = json.load(open(fp))
        rel = "corpus/C01/" + os.path.basename(fp)
        try:
            fir, ferrs = compile_ir(item["text"], "m.emb")
            if ferrs:
                ctx.violation("corpus-module-rejected", "the fixed module %s is rejected by the front end: %s" % (rel, ferrs[0][0].message if ferrs else ""),
                              dict(kind="module", module=item["text"]), found_input=True)
                continue
            from compiler.back_end.cpp import header_generator
            fheader, fherrs = header_generator.generate_header(fir)
            ftr = view_x.ViewTranslator(fir)
            fterm = ftr.module()
            for k, t in enumerate(ftr.types):
                if t.name.name.text not in item["structures"]:
                    continue
                bufs = [b for b in item["buffers"]]
                driver = ftr.driver("/*INLINE*/\n" + fheader, k, [], bufs)
                jobs.append(cpp_build.CppJob("m%d" % (2000 + 10 * fi + k), None, driver))
                infos.append(dict(i=2000 + 10 * fi + k, text="# %s, structure %s\n" % (rel, t.name.name.text) + item["text"],
                                  mod=fterm, top=k, bufs=bufs, prefix_pairs=[], pvals=[], oracle=[]))
                ctx.count("fixed-corpus-structure")
        except OutOfModel as ex:
            ctx.count("fixed-corpus-out-of-model:" + str(ex).split(" ")[0])
            ctx.note("fixed corpus module %s is out of model: %r" % (rel, ex))
    ctx.obligation("tie for size_is_max_end: %d structures' synthesized $size fields have the modelled shape" % n_size_checked,
                   n_size_checked > 0 and not any(v["key"] == "size-synthesis" for v in ctx.violations))
    results = cpp_build.run_jobs(os.path.join(ctx.bdir, "cpp"), jobs, parallel=fw.NPROC)
    cases = []
    mods = []
    for info in infos:
        res = results["m%d" % info["i"]]
        if not res.ok:
            ctx.count("cpp-" + res.stage + "-failed")
            ctx.violation("cpp-build-failed:" + res.stage, "generated header/driver failed at stage %s: %s" % (res.stage, res.log[-600:]),
                          dict(kind="module", module=info["text"], stage=res.stage, log=res.log[-3000:]), found_input=True)
            continue
        k = len(mods)
        mods.append("(%s, %d%%nat, %s)" % (info["mod"], info["top"],
                                           "[" + "; ".join("Some (VInt %d)" % v for v in info["pvals"]) + "]" if info["pvals"] else "@nil (maybe value)"))
        lines = {l.split(" ", 1)[0]: l for l in res.lines if l.startswith("B")}
        for bi, b in enumerate(info["bufs"]):
            l = lines.get("B%d" % bi)
            if l is None:
                ctx.violation("cpp-driver-output-missing", "driver printed no line for buffer %d" % bi,
                              dict(kind="module", module=info["text"], buffer=b), found_input=False)
                continue
            obs = [int(x) for x in l.split()[1:]]
            if len(obs) > 4000:
                # the implementation reported an absurd amount of data (e.g. an element count read from
                # outside the buffer): keep the case comparable by truncating; the model cannot match it
                ctx.count("cpp-observation-overlong")
                obs = obs[:50] + [-777]
            cases.append(("(%d%%nat, %s)" % (k, zlist(b)), zlist(obs), dict(module=info["text"], buffer=b, cpp=obs)))
            ctx.count("buflen:%s" % ("0" if not b else "1-4" if len(b) <= 4 else "5-16" if len(b) <= 16 else ">16"))
    # by-construction oracle (independent of the front end and of the IR translation): the unconditional
    # scalar fields of Top read the bytes the .emb text designates, in the byte order the language rules
    # make effective (field attribute, else the MODULE default; a $default of another structure must not leak)
    n_oracle, n_oracle_bad = 0, 0
    for info in infos:
        res = results["m%d" % info["i"]]
        if not res.ok:
            continue
        qlines = {l.split(" ", 1)[0]: l.split()[1:] for l in res.lines if l.startswith("Q")}
        for bi, b in enumerate(info["bufs"]):
            got = qlines.get("Q%d" % bi)
            if got is None or len(got) != 2 * len(info["oracle"]):
                continue
            # values of the unconditional unsigned fields that the buffer holds completely (for the conditions)
            env = {}
            for (nm, off, size, kind, order, cond) in info["oracle"]:
                if cond is None and kind == "UInt" and len(b) >= off + size:
                    env[nm] = int(oracle_value(b, off, size, kind, order))
            if info["pvals"]:
                env["tp"] = info["pvals"][0]
            for k, (nm, off, size, kind, order, cond) in enumerate(info["oracle"]):
                g_has, g = got[2 * k], got[2 * k + 1]
                if cond is None:
                    present = True
                else:
                    try:
                        present = bool(eval(cond.replace("&&", " and ").replace("||", " or "), {"__builtins__": {}}, dict(env)))
                    except NameError:
                        continue            # a field of the condition is not readable (or not in the oracle): not compared
                want_has = "1" if present else "0"
                want = oracle_value(b, off, size, kind, order) if present else "x"
                n_oracle += 1
                if g_has != want_has or (want is not None and g != want):
                    n_oracle_bad += 1
                    if n_oracle_bad <= 3:
                        ctx.violation("view-oracle", "field %s (%s, %d bytes at %d, %s%s): generated code reports has=%s value=%s, the .emb text designates has=%s value=%s"
                                      % (nm, kind, size, off, order, ", if " + cond if cond else "", g_has, g, want_has, want),
                                      dict(kind="view", module=info["text"], buffer=b, field=nm, observed=[g_has, g], expected=[want_has, want]),
                                      found_input=True)
    ctx.obligation("spec: %d (field, buffer) observations of generated views equal the by-construction oracle (existence condition, offset, width, kind, effective byte order)" % n_oracle,
                   n_oracle > 0 and n_oracle_bad == 0)
    stable_cases = []
    kk = 0
    for info in infos:
        res = results["m%d" % info["i"]]
        if not res.ok:
            continue
        for (pre, rest) in info["prefix_pairs"]:
            stable_cases.append(("(%d%%nat, (%s, %s))" % (kk, zlist(pre), zlist(rest)), "[1]",
                                 dict(module=info["text"], prefix=pre, extension=rest)))
        kk += 1
    hdr = HEADER + "Definition mods : list (module * nat * list (maybe value)) := [\n" + ";\n".join(mods) + "\n].\n"
    runner = fw.CoqCases(ctx, "views", hdr, "run_case mods", "zlist_eqb", "(nat * list Z)", "(list Z)", shard=60)
    bad = runner.run(cases) if cases else []
    for a, b, obj in cases:
        ctx.case((obj["module"], tuple(obj["buffer"])), nontrivial=len(obj["buffer"]) > 0,
                 sample={"buffer": obj["buffer"], "observations": obj["cpp"][:40], "module_head": obj["module"][:200]})
    ctx.obligation("correspondence: %d (module, buffer) observation vectors agree with generated C++" % len(cases), not bad)
    # prefix stability, decided on the model's result trees for buffers that are also in the
    # correspondence set above (so a failure here is a statement about the generated C++ too)
    runner2 = fw.CoqCases(ctx, "stable", hdr, "run_stable mods", "zlist_eqb", "(nat * (list Z * list Z))", "(list Z)", shard=60)
    bad2 = runner2.run(stable_cases) if stable_cases else []
    ctx.obligation("prefix stability holds on %d (module, prefix, extension) triples outside the refuted classes" % len(stable_cases),
                   all(has_array(stable_cases[i][2]["module"]) for i, _ in bad2))
    for a, b, obj in stable_cases:
        ctx.case(("stable", obj["module"], tuple(obj["prefix"]), tuple(obj["extension"])), nontrivial=len(obj["prefix"]) > 0)
    for idx, out in bad2:
        obj = stable_cases[idx][2]
        cls = "array" if has_array(obj["module"]) else "other"
        ctx.violation("prefix-instability:" + cls,
                      "an observation known on a prefix of the message changes when more bytes arrive (%s)" % cls,
                      dict(kind="view-prefix", module=obj["module"], prefix=obj["prefix"], extension=obj["extension"]), found_input=True)
    for idx, out in bad[:6]:
        a, b, obj = cases[idx]
        ctx.violation("view-correspondence", "model and generated C++ disagree on a buffer of length %d" % len(obj["buffer"]),
                      dict(kind="view", correspondence="View.Model.run_view vs generated C++ observations",
                           module=obj["module"], buffer=obj["buffer"], cpp=obj["cpp"], model=out[:4000]), found_input=True)
    # the reference semantics (View/Ref.v) against the same C++ observations, and against modules generated for its class
    view_ref.run(ctx, compile_ir, mods, cases)
