"""C06 -- text format output reads back to the same structure; the integer text codec is a
bijection and rejects malformed numbers."""
import glob
import json
import os
import re

from harness import fw, cpp_build
from harness import gen_text as G

META = {
    "technique": "Coq proofs about Gallina mirrors of WriteIntegerToTextStream / DecodeInteger / ReadToken / "
                 "DiscardWhitespace (emboss_text_util.h) with C++ integer arithmetic written out, and of the generated "
                 "WriteToTextStream / UpdateFromTextStream (templates + header_generator clause selection); differential "
                 "correspondence with the real C++ (runtime templates instantiated for the 8 integer types; generated "
                 "modules compiled with the working tree's embossc and run on solved Ok buffers), model evaluated in Coq "
                 "(vm_compute)",
    "level_text": "Machine-checked theorems (Coq 8.16, no axioms): for all 8 C++ integer types, all values, bases 2/10/16, "
                  "with/without grouping, decode(encode x) = x with no arithmetic step leaving its C++ type and no write outside "
                  "the stack buffer; DecodeInteger equals the range-checked mathematical value of the numeral for EVERY input "
                  "string (so overflowing and malformed numerals are rejected, never wrapped); ReadToken/DiscardWhitespace never "
                  "fail and equal pure token functions; structure level: fields are emitted in the given (dependency) order, "
                  "Skip/absent fields are not emitted, Emit/default present fields are, and for every re-readable option set "
                  "UpdateFromTextStream of the written text returns true, consumes the text and performs exactly the "
                  "TryToWrite calls of the emitted writable fields, in order (scalars, enums by name or number, nested structures, "
                  "arrays in both layouts). Tied to /repo each run by byte-for-byte comparison of the model's text with "
                  "WriteToString, C++ read-back into a zeroed buffer, and UpdateFromText on perturbed texts.",
    "level_note": "Float text is excluded from the theorems and the Coq model (libc snprintf/sscanf are not modelled); it is OBSERVED: "
                  "generated and corpus structures with Float:32/64 fields (zeros, denormals, extremes, infinities, quiet/signalling NaNs "
                  "with and without sign bit and payload) go through WriteToString -> UpdateFromText on the C++ side each run and the "
                  "restored buffer is compared bit for bit, float tokens against a python reference rendering. Enum fields use enums "
                  "with every (cpp) enum_case setting (SHOUTY_CASE, kCamelCase, both orders; module/enum $default and per value); the "
                  "text always uses the Emboss name (model) and must be read back. "
                  "The storage step (the sequence of TryToWrite calls, in dependency order, on the zeroed buffer succeeds and reads "
                  "back) is a named hypothesis Hstore only for an ABSTRACT store (struct_roundtrip_partial); for the concrete byte "
                  "store of Text/Store.v (TryToWrite/Read = the C02/C03 views of Bits/Model.v at the field's byte offset, container "
                  "size, byte order, bit range, kind) it is PROVED: struct_roundtrip_static (scalar leaves UInt/Int/Bcd/Flag/unsigned "
                  "enum at constant pairwise disjoint locations, top level, nested structures, `bits`, array elements: no storage "
                  "hypothesis), struct_roundtrip_dynamic (byte offsets = constant + integer fields, existence = conjunction of "
                  "field == k / flag tests, evaluated on the buffer being restored: no hypothesis beyond layout_okb of the resolved "
                  "table, which contains 'what a field depends on is written before it'), struct_roundtrip_dependent (any layout "
                  "function, hypothesis `determined` only). Each run the model store is compared BYTE FOR BYTE with the buffer C++ "
                  "restores (locations computed from the IR of the real front end), with the static and the dependent layout, and "
                  "layout_okb is evaluated on every generated view (counts: store-class:*). Still outside: writable virtual fields "
                  "(inverse transform), signed enums (F1), Float, other location/condition expressions, field-dependent array counts. "
                  "The generator's text_output table is regenerated "
                  "from the working tree each run and checked against gentab_ok. allow_partial_output is not modelled. The "
                  "`unsigned offset` of DecodeInteger is unbounded in the model (texts >= 2^32 chars excluded). Round trip "
                  "presupposes that fields other fields depend on are not marked Skip. "
                  "Trusted: Coq kernel + vm_compute, harness/gen_text.py (module/buffer generator, IR -> abstract view), "
                  "harness/props/c06.py, g++ 12, cpp_build.py.",
}

HEADER = ("Require Import EmbossV.Text.IntCodec EmbossV.Text.StructText EmbossV.Text.Exec.\n"
          "Open Scope Z_scope.\n")

TYPES = [(s, w) for w in (8, 16, 32, 64) for s in (True, False)]


def tname(t):
    return ("i" if t[0] else "u") + str(t[1])


def tmin(t):
    return -(2 ** (t[1] - 1)) if t[0] else 0


def tmax(t):
    return 2 ** (t[1] - 1) - 1 if t[0] else 2 ** t[1] - 1


# ------------------------------------------------------------------------------------
# (a) the integer codec and the tokenizer, directly
# ------------------------------------------------------------------------------------
CODEC_DRIVER = r'''
#include <cstdio>
#include <cstdint>
#include <cstdlib>
#include <cstring>
#include <fstream>
#include <iostream>
#include <string>
#include <vector>
#include "runtime/cpp/emboss_text_util.h"

static std::string unhex(const std::string &h) {
  std::string out;
  for (size_t i = 0; i + 1 < h.size(); i += 2) out.push_back((char)strtol(h.substr(i, 2).c_str(), nullptr, 16));
  return out;
}
static std::string hex(const std::string &s) {
  static const char *d = "0123456789abcdef";
  std::string out;
  for (unsigned char c : s) { out.push_back(d[c >> 4]); out.push_back(d[c & 15]); }
  return out.empty() ? "-" : out;
}
template <class T> static void enc(const std::string &val, int base, int grp) {
  T v;
  if (std::is_signed<T>::value) v = (T)strtoll(val.c_str(), nullptr, 10); else v = (T)strtoull(val.c_str(), nullptr, 10);
  ::emboss::support::TextOutputStream s;
  ::emboss::support::WriteIntegerToTextStream(v, &s, (uint8_t)base, grp != 0);
  printf("E %s\n", hex(s.Result()).c_str());
}
template <class T> static void dec(const std::string &text) {
  T v = 0;
  bool ok = ::emboss::support::DecodeInteger(text, &v);
  if (!ok) { printf("D 0\n"); return; }
  if (std::is_signed<T>::value) printf("D 1 %lld\n", (long long)v); else printf("D 1 %llu\n", (unsigned long long)v);
}
#define DISPATCH(F, ...) \
  if (ty == "i8") F<int8_t>(__VA_ARGS__); else if (ty == "u8") F<uint8_t>(__VA_ARGS__); \
  else if (ty == "i16") F<int16_t>(__VA_ARGS__); else if (ty == "u16") F<uint16_t>(__VA_ARGS__); \
  else if (ty == "i32") F<int32_t>(__VA_ARGS__); else if (ty == "u32") F<uint32_t>(__VA_ARGS__); \
  else if (ty == "i64") F<int64_t>(__VA_ARGS__); else if (ty == "u64") F<uint64_t>(__VA_ARGS__); \
  else { printf("? type\n"); }
int main(int argc, char **argv) {
  std::ifstream in(argv[1]);
  std::string line;
  while (std::getline(in, line)) {
    std::vector<std::string> p;
    size_t i = 0;
    while (i < line.size()) { size_t j = line.find(' ', i); if (j == std::string::npos) j = line.size(); p.push_back(line.substr(i, j - i)); i = j + 1; }
    if (p.empty()) continue;
    if (p[0] == "E") { std::string ty = p[1]; DISPATCH(enc, p[4], atoi(p[2].c_str()), atoi(p[3].c_str())) }
    else if (p[0] == "D") { std::string ty = p[1]; std::string t = p.size() > 2 ? unhex(p[2]) : std::string(); DISPATCH(dec, t) }
    else if (p[0] == "T") {
      std::string t = p.size() > 1 ? unhex(p[1]) : std::string();
      ::emboss::support::TextStream st(t.data(), t.size());
      printf("T");
      bool ok = true;
      for (;;) {
        std::string tok;
        if (!::emboss::support::ReadToken(&st, &tok)) { ok = false; break; }
        if (tok.empty()) break;
        printf(" %s", hex(tok).c_str());
      }
      printf(" %s\n", ok ? "ok" : "fail");
    }
    fflush(stdout);
  }
  return 0;
}
'''


def codec_cases(ctx, n_random):
    r = ctx.rng
    enc, dec, tok = [], [], []
    # ---- encode: edges for every type/base/grouping
    for t in TYPES:
        lo, hi = tmin(t), tmax(t)
        combos = set()
        for v in (lo, hi, lo + 1, hi - 1, 0, 1, -1, 2, 9, 10, 11, 15, 16, 17, 255, 256):
            for b in (2, 10, 16):
                for g in (0, 1):
                    combos.add((b, g, v))
        for b in (2, 10, 16):          # all powers of the base +-1, in that base (and one other)
            p = 1
            while p <= hi + 1:
                for v in (p - 1, p, p + 1, -p - 1, -p, -p + 1):
                    for g in (0, 1):
                        combos.add((b, g, v))
                    if ctx.thorough():
                        combos.add((r.choice((2, 10, 16)), r.randint(0, 1), v))
                p *= b
        for g, k in ((3, 10), (4, 16), (8, 2)):      # grouping boundaries
            for e in range(0, 70, g):
                for v in (k ** e - 1, k ** e, -(k ** e), -(k ** e) + 1):
                    combos.add((k, 1, v))
        for b, g, v in sorted(combos):
            if lo <= v <= hi:
                enc.append((t, b, g, v))
        for _ in range(n_random):
            k = r.random()
            v = r.randint(lo, hi) if k < 0.5 else max(lo, min(hi, int(r.choice([-1, 1]) * 2 ** (r.random() * t[1]))))
            enc.append((t, r.choice((2, 10, 16)), r.randint(0, 1), v))
    # ---- decode: malformed / overflowing / odd but legal texts
    fixed = ["", "-", "0x", "0b", "-0x", "-0b", "0X", "0B", "_", "_1", "1_", "1__2", "_0x1", "0x_1", "0_x1", "-_1", "-1_",
             "--1", "+1", " 1", "1 ", "0", "-0", "00", "007", "0b2", "0b12", "0B101", "0XfF", "0xg", "0xG", "1a", "a", "f",
             "0b", "0bb", "0xx1", "1.0", "1e3", "1,000", "0x-1", "-0x1", "-0b1", "-0X10", "0o17", "١", "\xff", "1\x00",
             "0x" + "0" * 70 + "1", "0b" + "0" * 80 + "1", "0" * 90, "_" * 3 + "1", "1" + "_" * 40 + "2", "-" + "0" * 40]
    for t in TYPES:
        lo, hi = tmin(t), tmax(t)
        texts = list(fixed)
        for v in (hi, hi + 1, hi + 2, hi * 2, hi * 10, hi * 16, hi * 16 + 15, hi + 16, (hi + 1) * 10 - 1, 10 ** 30, 2 ** 64, 2 ** 64 - 1,
                  2 ** 63, 2 ** 63 - 1, lo, lo - 1, lo - 2, lo * 2, lo * 10, lo * 16, lo - 16, -(10 ** 30), -(2 ** 63), -(2 ** 63) - 1,
                  hi // 10 * 10 + 9, hi // 16 * 16 + 15):
            neg = v < 0
            a = -v if neg else v
            for body in (str(a), "0x%x" % a, "0X%X" % a, "0b" + bin(a)[2:], "{:_}".format(a), "0x" + "_".join("%x" % a),
                         "0b" + "_".join(bin(a)[2:][i:i + 8] for i in range(0, len(bin(a)[2:]), 8))):
                texts.append(("-" if neg else "") + body)
        for _ in range(n_random):
            k = r.random()
            if k < 0.4:      # a well formed numeral near the range, in a random spelling
                v = r.choice([hi, lo, 0]) + r.randint(-300, 300) if r.random() < 0.6 else r.randint(lo * 3 - 5, hi * 3 + 5)
                neg, a = v < 0, abs(v)
                body = r.choice([str(a), "0x%x" % a, "0X%X" % a, "0b" + bin(a)[2:], "0B" + bin(a)[2:], "{:_}".format(a)])
                if r.random() < 0.3:
                    i = r.randint(0, len(body))
                    body = body[:i] + "_" + body[i:]
                texts.append(("-" if neg else "") + body)
            else:            # character soup
                texts.append("".join(r.choice("0123456789abcdefABCDEFxXbB_-- g") for _ in range(r.randint(0, 24))))
        for s in texts:
            dec.append((t, s))
    # ---- tokens
    soup = [" ", " ", "\t", "\n", "\r", "#", ":", "{", "}", "[", "]", ",", "a", "b1", "foo_bar", "12", "0x1f", "-3", "$x", "\x00", "\x7f", "\xe9", "."]
    tok = ["", " ", "#", "# c", "# c\n", "a", "a#b\nc", "{a:1,b:[2]}", "a: 1  # 0x1\nb: 2", " \t\r\n# x\r# y\n  tok", "a\x00b", "x:y", "[0]:1", "a,b", "# only"]
    for _ in range(n_random * 2):
        tok.append("".join(r.choice(soup) for _ in range(r.randint(0, 30))))
    return enc, dec, tok


def _rundir(ctx):
    """Scratch directory of THIS process (two runs of ./check C06 at the same time must not share
    generated modules and case files); removed at the end of run()."""
    d = os.path.join(ctx.bdir, "run%d" % os.getpid())
    os.makedirs(d, exist_ok=True)
    return d


class SharedCases(fw.CoqCases):
    """CoqCases whose cases may refer to named definitions: obj["defs"] = [(name, type, term)];
    every shard file defines (once) what its cases use.  Same protocol and output as fw.CoqCases."""

    def run(self, cases):
        import shutil
        import subprocess
        import time
        d = os.path.join(_rundir(self.ctx), "cases_" + self.name)
        shutil.rmtree(d, ignore_errors=True)
        os.makedirs(d)
        shards = [cases[i:i + self.shard] for i in range(0, len(cases), self.shard)]
        paths = []
        for k, sh_cases in enumerate(shards):
            p = os.path.join(d, "Cases_%s_%d.v" % (self.name, k))
            with open(p, "w") as f:
                f.write("From Coq Require Import ZArith NArith List String Bool Ascii.\nImport ListNotations.\n")
                f.write("Require Import EmbossV.Lib.Cases.\n")
                f.write(self.header + "\n")
                done = set()
                for _, _, obj in sh_cases:
                    for nm, ty, term in obj.get("defs", []):
                        if nm not in done:
                            done.add(nm)
                            f.write("Definition %s : %s := %s.\n" % (nm, ty, term))
                f.write("Definition the_cases : list (%s * %s) := [\n" % (self.in_ty, self.out_ty))
                f.write(";\n".join("(%s, %s)" % (a, b) for a, b, _ in sh_cases))
                f.write("\n].\n")
                f.write("Definition bad := mismatches (%s) (%s) the_cases.\n" % (self.fn, self.eqb))
                f.write('Redirect "%s" Eval vm_compute in bad.\n' % os.path.join(d, "bad_%d" % k))
                f.write('Redirect "%s" Eval vm_compute in outputs_at (%s) the_cases bad.\n'
                        % (os.path.join(d, "out_%d" % k), self.fn))
            paths.append(p)
        results = [None] * len(paths)
        idx, running = 0, []
        t_end = time.time() + self.timeout
        while idx < len(paths) or running:
            while idx < len(paths) and len(running) < fw.NPROC:
                pr = subprocess.Popen(["bash", "-c", "ulimit -s unlimited 2>/dev/null; exec coqc \"$@\"", "coqc", "-noglob"]
                                      + fw.COQ_FLAGS + [paths[idx]], cwd=d, stdout=subprocess.PIPE,
                                      stderr=subprocess.STDOUT, text=True, errors="replace")
                running.append((idx, pr))
                idx += 1
            still = []
            for k, pr in running:
                if pr.poll() is None:
                    if time.time() > t_end:
                        pr.kill()
                        results[k] = (124, "timeout")
                    else:
                        still.append((k, pr))
                else:
                    results[k] = (pr.returncode, pr.stdout.read())
            running = still
            if running:
                time.sleep(0.05)
        bad = []
        for k, (rc, out) in enumerate(results):
            if rc != 0:
                raise fw.CoqEvalError("coqc failed on %s: %s" % (paths[k], out[-3000:]))
            txt = open(os.path.join(d, "bad_%d.out" % k)).read()
            body = txt.split("=", 1)[1].rsplit(":", 1)[0]
            idxs = [int(x) for x in re.findall(r"(\d+)%N", body)] if "%N" in body else [int(x) for x in re.findall(r"\d+", body)]
            if idxs:
                outtxt = open(os.path.join(d, "out_%d.out" % k)).read()
                for i in idxs:
                    bad.append((k * self.shard + i, outtxt.strip()))
        return bad


def _tick(ctx, label):
    import time
    now = time.time()
    fw.log("  [%6.1fs] %s" % (now - ctx.t0, label))


def run_codec_tie(ctx, only=None):
    n_random = 400 if ctx.thorough() else 30
    enc, dec, tok = only if only is not None else codec_cases(ctx, n_random)
    lines = []
    for t, b, g, v in enc:
        lines.append("E %s %d %d %d" % (tname(t), b, g, v))
    for t, s in dec:
        lines.append("D %s %s" % (tname(t), s.encode("latin-1", "replace").hex()))
    for s in tok:
        lines.append("T %s" % s.encode("latin-1", "replace").hex())
    wd = os.path.join(_rundir(ctx), "cpp")
    os.makedirs(wd, exist_ok=True)
    inp = os.path.join(_rundir(ctx), "codec_input.txt")
    with open(inp, "w") as f:
        f.write("\n".join(lines) + "\n")
    res = cpp_build.run_jobs(wd, [cpp_build.CppJob("codec", None, CODEC_DRIVER, run_args=[inp])], timeout=600)["codec"]
    if not res.ok:
        ctx.obligation("codec driver builds and runs", False)
        if res.stage == "run" and len(res.lines) < len(lines):
            # the runtime aborted (EMBOSS_CHECK / EMBOSS_DCHECK / signal) on one input: that input is the finding
            bad_line = lines[len(res.lines)]
            p = bad_line.split()
            what = ("WriteIntegerToTextStream<%s>(%s, base %s, digit_grouping %s)" % (p[1], p[4], p[2], p[3]) if p[0] == "E"
                    else "DecodeInteger<%s>(%r)" % (p[1], bytes.fromhex(p[2]).decode("latin-1") if len(p) > 2 else "") if p[0] == "D"
                    else "ReadToken on %r" % (bytes.fromhex(p[1]).decode("latin-1") if len(p) > 1 else ""))
            ctx.violation("codec-crash:" + {"E": "WriteIntegerToTextStream", "D": "DecodeInteger", "T": "ReadToken"}[p[0]],
                          "%s aborts (exit %s): %s" % (what, res.rc, res.log.strip().splitlines()[0][:300] if res.log.strip() else ""),
                          dict(kind="codec", line=bad_line, call=what, exit=res.rc, stderr=res.log[-1500:]), found_input=True)
        else:
            ctx.violation("codec-driver:" + res.stage, "codec driver failed at %s: %s" % (res.stage, res.log[-1500:]),
                          dict(kind="driver", stage=res.stage, log=res.log[-4000:]), found_input=False)
        return
    out = res.lines
    _tick(ctx, "codec driver built and run (%d lines)" % len(lines))
    if len(out) != len(lines):
        ctx.obligation("codec driver answered every line", False)
        ctx.violation("codec-driver:lines", "driver printed %d lines for %d inputs" % (len(out), len(lines)),
                      dict(kind="driver"), found_input=False)
        return
    cases = []
    k = 0
    for t, b, g, v in enc:
        o = out[k].split()
        k += 1
        text = bytes.fromhex(o[1]) if o[1] != "-" else b""
        cases.append(("CEnc %s %s %d %s" % (G.coq_ity(t), G.zlit(v), b, "true" if g else "false"),
                      "OText %s" % G.coq_chars(text), dict(kind="enc", type=tname(t), base=b, grouping=g, value=v, cpp=text.decode("latin-1"))))
        ctx.count("enc:%s" % tname(t))
    for t, s in dec:
        o = out[k].split()
        k += 1
        exp = "OReject" if o[1] == "0" else "OVal %s" % G.zlit(int(o[2]))
        sb = s.encode("latin-1", "replace")
        cases.append(("CDec %s %s" % (G.coq_ity(t), G.coq_chars(sb)), exp,
                      dict(kind="dec", type=tname(t), text=sb.decode("latin-1"), cpp=o[1:])))
        ctx.count("dec:%s:%s" % (tname(t), "accept" if o[1] == "1" else "reject"))
    for s in tok:
        o = out[k].split()
        k += 1
        toks = [bytes.fromhex(x) for x in o[1:-1]]
        sb = s.encode("latin-1", "replace")
        cases.append(("CTok %s" % G.coq_chars(sb), "OToks %s [%s]" % ("true" if o[-1] == "ok" else "false", ";".join(G.coq_chars(x) for x in toks)),
                      dict(kind="tok", text=sb.decode("latin-1"), cpp=[x.decode("latin-1") for x in toks])))
        ctx.count("tok")
    bad = SharedCases(ctx, "codec", HEADER, "run_codec", "cout_eqb", "ccase", "cout", shard=900 if not ctx.thorough() else 1500).run(cases)
    _tick(ctx, "codec cases evaluated in Coq (%d)" % len(cases))
    for a, b, obj in cases:
        nt = obj["kind"] != "enc" or obj["value"] not in (0, 1)
        ctx.case(("codec", a), nontrivial=nt,
                 sample={k2: (v2 if not isinstance(v2, str) else v2[:60]) for k2, v2 in obj.items()} if obj["kind"] != "tok" else None)
    ctx.obligation("correspondence: %d encode / %d decode / %d token-stream cases agree with the C++ runtime templates"
                   % (len(enc), len(dec), len(tok)), not bad)
    # the properties themselves, checked on the C++ outputs (independent of the model)
    n_prop = 0
    cpp_text = {}
    k = 0
    for t, b, g, v in enc:
        cpp_text[(t, b, g, v)] = out[k].split()[1]
        k += 1
    # decode(encode x) == x on the real code: feed the C++ texts back
    back = ["D %s %s" % (tname(t), cpp_text[(t, b, g, v)] if cpp_text[(t, b, g, v)] != "-" else "") for t, b, g, v in enc]
    inp2 = os.path.join(_rundir(ctx), "codec_input2.txt")
    with open(inp2, "w") as f:
        f.write("\n".join(back) + "\n")
    rc, o2 = fw.sh([os.path.join(res.dir, "driver"), inp2], timeout=300)
    o2 = [l for l in o2.splitlines() if l.startswith("D ")]
    ok_rt = len(o2) == len(enc)
    for (t, b, g, v), l in zip(enc, o2):
        p = l.split()
        n_prop += 1
        if p[1] != "1" or int(p[2]) != v:
            ok_rt = False
            ctx.violation("int-roundtrip", "C++ DecodeInteger<%s>(WriteIntegerToTextStream(%d, base %d, grouping %d)) gives %s"
                          % (tname(t), v, b, g, p[1:]),
                          dict(kind="codec", type=tname(t), value=v, base=b, grouping=g,
                               text=bytes.fromhex(cpp_text[(t, b, g, v)]).decode("latin-1") if cpp_text[(t, b, g, v)] != "-" else ""),
                          found_input=True)
    ctx.obligation("C++ decode(encode x) == x on %d edge/random values" % len(enc), ok_rt)
    # accepted texts must denote a value of the type (python reference reading of the numeral)
    k = len(enc)
    ok_rej = True
    for t, s in dec:
        o = out[k].split()
        k += 1
        ref = py_numeral(s, t[0])
        want = ref is not None and tmin(t) <= ref <= tmax(t)
        got = o[1] == "1"
        if got != want or (got and int(o[2]) != ref):
            ok_rej = False
            what = "accepted" if got else "rejected"
            ctx.violation("decode-wraps" if got and ref is not None else "decode-accepts-malformed" if got else "decode-rejects-valid",
                          "C++ DecodeInteger<%s>(%r) %s (result %s); the numeral denotes %s" % (tname(t), s, what, o[2:] or None, ref),
                          dict(kind="codec", type=tname(t), text=s, cpp=o[1:], numeral_value=ref), found_input=True)
    ctx.obligation("C++ DecodeInteger accepts exactly the in-range well-formed numerals on %d texts" % len(dec), ok_rej)
    for idx, mo in bad[:8]:
        a, b, obj = cases[idx]
        ctx.violation("codec-correspondence:" + obj["kind"],
                      "model and C++ disagree on %s" % json.dumps({k2: v2 for k2, v2 in obj.items()})[:300],
                      dict(kind="codec-correspondence", correspondence="Text.Exec.run_codec vs emboss_text_util.h", case=obj,
                           input=a[:400], cpp=b[:400], model_outputs=mo[:1500]), found_input=False)


def py_numeral(s, signed):
    """Reference reading of an Emboss numeral (unbounded); None = malformed."""
    neg = False
    off = 0
    if signed and s[:1] == "-":
        neg, off = True, 1
    base = 10
    if len(s) >= 2 + off and s[off] == "0":
        if s[off + 1] in "xX":
            base, off = 16, off + 2
        elif s[off + 1] in "bB":
            base, off = 2, off + 2
    if off == len(s):
        return None
    acc = 0
    for i in range(off, len(s)):
        c = s[i]
        if c == "_":
            if i == 0:
                return None
            continue
        if c in "0123456789":
            d = ord(c) - 48
        elif c in "ABCDEF":
            d = ord(c) - 55
        elif c in "abcdef":
            d = ord(c) - 87
        else:
            return None
        if d >= base:
            return None
        acc = acc * base + d
    return -acc if neg else acc


# ------------------------------------------------------------------------------------
# (b) structures
# ------------------------------------------------------------------------------------
STRUCT_DRIVER_HEAD = r'''
#include <cstdio>
#include <cstdint>
#include <cstdlib>
#include <cstring>
#include <fstream>
#include <string>
#include <vector>
#include "%(name)s.emb.h"

static std::string unhex(const std::string &h) {
  std::string out;
  if (h == "-") return out;
  for (size_t i = 0; i + 1 < h.size(); i += 2) out.push_back((char)strtol(h.substr(i, 2).c_str(), nullptr, 16));
  return out;
}
static std::string hex(const std::string &s) {
  static const char *d = "0123456789abcdef";
  std::string out;
  for (unsigned char c : s) { out.push_back(d[c >> 4]); out.push_back(d[c & 15]); }
  return out.empty() ? "-" : out;
}
template <class T> static void pv(T v) {
  if (std::is_signed<T>::value) printf(" %%lld", (long long)v); else printf(" %%llu", (unsigned long long)v);
}
template <class V> static void leaf_int(const V &v) { if (v.Ok()) pv(v.Read()); else printf(" ?"); }
template <class V> static void leaf_bool(const V &v) { if (v.Ok()) printf(" %%d", v.Read() ? 1 : 0); else printf(" ?"); }
template <class V> static void leaf_enum(const V &v) {
  if (v.Ok()) pv(static_cast<typename std::underlying_type<typename V::ValueType>::type>(v.Read())); else printf(" ?");
}
'''

STRUCT_DRIVER_W = r'''
static void w_%(s)s(const std::vector<std::string> &p) {
  std::string b = unhex(p[2]);
  ::emboss::TextOutputOptions o = ::emboss::TextOutputOptions().Multiline(p[5] == "1").WithIndent(unhex(p[7]))
      .WithComments(p[6] == "1").WithDigitGrouping(p[4] == "1").WithNumericBase((uint8_t)atoi(p[3].c_str()));
  std::vector<char> buf(b.begin(), b.end());
  auto view = m::Make%(s)sView(buf.data(), buf.size());
  bool ok = view.Ok();
  if (!ok) { printf("W ok=0\n"); return; }
  std::string text = ::emboss::WriteToString(view, o);
  std::vector<char> buf2(buf.size(), 0);
  auto view2 = m::Make%(s)sView(buf2.data(), buf2.size());
  bool upd = ::emboss::UpdateFromText(view2, text);
  bool ok2 = view2.Ok();
  std::string text2 = ok2 ? ::emboss::WriteToString(view2, o) : std::string();
  printf("W ok=1 text=%%s upd=%%d ok2=%%d text2=%%s buf2=%%s\n", hex(text).c_str(), upd ? 1 : 0, ok2 ? 1 : 0, hex(text2).c_str(),
         hex(std::string(buf2.begin(), buf2.end())).c_str());
}
'''

STRUCT_DRIVER_U = r'''
static void u_%(s)s(const std::vector<std::string> &p) {
  size_t n = (size_t)atoi(p[2].c_str());
  std::string text = unhex(p[3]);
  std::vector<char> buf(n, 0);
  auto v = m::Make%(s)sView(buf.data(), buf.size());
  bool upd = ::emboss::UpdateFromText(v, text);
  printf("U %%d", upd ? 1 : 0);
%(leaves)s
  printf("\n");
}
'''

STRUCT_DRIVER_MAIN = r'''
int main(int argc, char **argv) {
  std::ifstream in(argv[1]);
  std::string line;
  while (std::getline(in, line)) {
    std::vector<std::string> p;
    size_t i = 0;
    while (i < line.size()) { size_t j = line.find(' ', i); if (j == std::string::npos) j = line.size(); p.push_back(line.substr(i, j - i)); i = j + 1; }
    if (p.size() < 2) continue;
%(dispatch)s
    fflush(stdout);
  }
  return 0;
}
'''

OPTION_SETS = None


def option_sets(r, thorough):
    """(options, re-readable?)"""
    out = []
    for base in (10, 16, 2):
        for grouping in (False, True):
            out.append((dict(base=base, grouping=grouping, multiline=False, comments=False, indent=""), True))
            for comments in (False, True):
                for indent in ("  ", "\t", "", "    "):
                    out.append((dict(base=base, grouping=grouping, multiline=True, comments=comments, indent=indent), True))
            # single line with comments: documented as not re-readable (a comment swallows the rest); text is still compared
            out.append((dict(base=base, grouping=grouping, multiline=False, comments=True, indent=""), False))
    return out


def parse_module(text):
    from compiler.front_end import glue

    def reader(fn):
        if fn == "m.emb":
            return text, None
        p = os.path.join(fw.REPO, fn)
        if os.path.exists(p):
            return open(p).read(), None
        return None, ["file not found: " + fn]

    ir, dbg, errs = glue.parse_emboss_file("m.emb", reader)
    return ir, errs


def strip_ro_comments(text):
    """Drops whole-line comments (read-only fields, array ascii shorthand): they are not read back."""
    return "\n".join(l for l in text.split("\n") if not l.strip().startswith("#"))


def cpp_leaf_code(tree):
    L = []
    for path, node, rng in G.leaves(tree):
        acc = "v" + G.cpp_path(path)
        fn = {"int": "leaf_int", "bool": "leaf_bool", "enum": "leaf_enum"}[node[0]]
        L.append("  %s(%s);" % (fn, acc))
    return "\n".join(L)


def gen_table_probe(ctx):
    """Regenerates the generator's text_output table from the working tree: which of the three
    attribute values produce a write clause (run on the real _generate_structure_definition)."""
    probe = ('[$default byte_order: "LittleEndian"]\n[(cpp) namespace: "m"]\nstruct Probe:\n  0 [+1]  UInt  plain\n'
             '  1 [+1]  UInt  skipped\n    [text_output: "Skip"]\n  2 [+1]  UInt  emitted\n    [text_output: "Emit"]\n')
    from compiler.back_end.cpp import header_generator
    ir, errs = parse_module(probe)
    if errs:
        return None, "probe module rejected: %r" % (errs[:1],)
    hdr, herrs = header_generator.generate_header(ir)
    if herrs:
        return None, "probe header errors"
    m = re.search(r"void WriteToTextStream\(.*?\n  }\n", hdr, re.S)
    body = m.group(0) if m else ""
    tab = tuple(('Write("%s: ")' % n) in body for n in ("plain", "skipped", "emitted"))
    return tab, None


def perturb(r, text, leaves_info):
    """Token-level mutations of a written text (still mostly well formed)."""
    toks = re.findall(r"#[^\n]*\n?|[:{}\[\],]|[^\s:{}\[\],#]+", text)
    toks = [t for t in toks if not t.startswith("#")]
    k = r.random()
    pool = ["0", "1", "-1", "255", "256", "65536", "0x10", "0b101", "1_000", "_1", "0x", "true", "false", "True", "ZERO", "ONE", "BIG", "AA",
            "LAST", "NOPE", "99999999999999999999", "-129", "127", "12a", ",", ":", "{", "}", "[", "]", "9", "4294967296", "-0", "1__1"]
    n = r.choice([0, 1, 1, 1, 2, 3])
    for _ in range(n):
        if not toks:
            break
        i = r.randrange(len(toks))
        m = r.random()
        if m < 0.3:
            toks[i] = r.choice(pool)
        elif m < 0.45:
            del toks[i]
        elif m < 0.6:
            toks.insert(i, toks[i])
        elif m < 0.75:
            j = r.randrange(len(toks))
            toks[i], toks[j] = toks[j], toks[i]
        elif m < 0.85:
            toks.insert(i, r.choice(pool))
        else:
            toks = toks[:i]
    # move / duplicate a whole "name : value" group now and then
    seps = [" ", " ", "\n", "\t", "  ", " # c\n", "\r\n", "", ""]
    out = []
    for i, t in enumerate(toks):
        sep = r.choice(seps)
        if sep == "" and out and re.match(r"[^\s:{}\[\],#]", t[:1]) and re.match(r"[^\s:{}\[\],#]", out[-1][-1:]):
            sep = " "
        out.append(sep + t)
    s = "".join(out) + r.choice(["", "\n", " ", " # end", " trailing"])
    return s


def run_struct_tie(ctx, gt, only=None):
    r = ctx.rng
    n_mod = 100 if ctx.thorough() else 10
    n_inst = 5 if ctx.thorough() else 3
    n_opt = 8 if ctx.thorough() else 6
    n_pert = 40 if ctx.thorough() else 24
    allopts = option_sets(r, ctx.thorough())
    mods = []
    jobs = []
    wd = os.path.join(_rundir(ctx), "cpp")
    corpus = [json.load(open(p)) for p in sorted(glob.glob(os.path.join(fw.VERIF, "corpus", "C06", "*.json")))]
    if only is not None:
        corpus, n_mod = list(only), 0
    for mi in range(n_mod + len(corpus)):
        name = "tm%d" % mi
        if mi < len(corpus):
            rec = corpus[mi]
            mod = None
            text = rec["module"]
        else:
            mod = G.TextModule(r, n_structs=3, flat_only=(mi % 4 == 3))
            text = mod.text()
            rec = None
        ir, errs = parse_module(text)
        if errs or ir is None:
            ctx.count("module-rejected")
            ctx.note("generated module rejected by the front end: %r" % (errs[:1],))
            continue
        vb = G.ViewBuilder(ir)
        lines, meta = [], []
        parts = [STRUCT_DRIVER_HEAD % dict(name=name)]
        disp = []
        tops = rec["structs"] if rec else mod.tops + mod.float_tops
        float_tops = set(rec.get("float_structs", [])) if rec else set(mod.float_tops)
        for top in tops:
            parts.append(STRUCT_DRIVER_W % dict(s=top))
            disp.append('    if (p[0] == "W" && p[1] == "%s") w_%s(p);' % (top, top))
            if top in float_tops:
                # Float fields: no Coq model of the float text; C++ round trip compared by bit pattern,
                # float tokens compared with a python reference rendering
                fl = []
                if rec:
                    for c in rec["cases"]:
                        if c["struct"] == top:
                            fl.append((_unjson(c["instance"]), bytes.fromhex(c["buffer"]), c.get("options"), c.get("floats", {})))
                else:
                    for _ in range(n_inst):
                        inst, raw = mod.instance(mod.sdef(top), r)
                        fl.append((inst, raw, None, _scalar_floats(mod.sdef(top), inst)))
                rr = [x for x in allopts if x[1]]
                for inst, raw, fixed_opts, fvals in fl:
                    opts = [(fixed_opts, True)] if fixed_opts else r.sample(rr, min(len(rr), max(3, n_opt // 2)))
                    for o, reread in opts:
                        lines.append("W %s %s %d %d %d %d %s" % (top, raw.hex() or "-", o["base"], int(o["grouping"]), int(o["multiline"]),
                                                              int(o["comments"]), o["indent"].encode().hex() or "-"))
                        meta.append(dict(kind="F", top=top, inst=inst, raw=raw, opts=o, reread=True, flat=False, floats=fvals))
                continue
            tir = vb.find_type(top)
            flat = (mod is not None and mod.sdef(top).flat)
            insts = []
            if rec:
                for c in rec["cases"]:
                    if c["struct"] == top:
                        insts.append((_unjson(c["instance"]), bytes.fromhex(c["buffer"]), c.get("options")))
            else:
                for _ in range(n_inst):
                    inst, raw = mod.instance(mod.sdef(top), r)
                    insts.append((inst, raw, None))
            zero_tree = None
            for ii, (inst, raw, fixed_opts) in enumerate(insts):
                try:
                    tree = vb.struct_tree(tir, inst)
                except G.OutOfModel as ex:
                    ctx.count("out-of-model:" + str(ex).split(" ")[0])
                    continue
                zero_tree = zero_tree or tree
                vname = "v_%s_%s_%d" % (name, top, ii)
                dd = {}
                vterm = G.coq_tval_shared(tree, dd)
                vdef = [(k, ty, tm) for k, (ty, tm) in dd.items()] + [(vname, "tval", vterm)]
                opts = [(fixed_opts, fixed_opts["multiline"] or not fixed_opts["comments"])] if fixed_opts else \
                    [allopts[0]] + r.sample(allopts[1:], n_opt - 1)
                for o, reread in opts:
                    lines.append("W %s %s %d %d %d %d %s" % (top, raw.hex() or "-", o["base"], int(o["grouping"]), int(o["multiline"]),
                                                          int(o["comments"]), o["indent"].encode().hex() or "-"))
                    meta.append(dict(kind="W", top=top, inst=inst, raw=raw, tree=tree, opts=o, reread=reread, flat=flat,
                                     vname=vname, vdef=vdef))
            if flat and zero_tree is not None:
                parts.append(STRUCT_DRIVER_U % dict(s=top, leaves=cpp_leaf_code(zero_tree)))
                disp.append('    if (p[0] == "U" && p[1] == "%s") u_%s(p);' % (top, top))
        parts.append(STRUCT_DRIVER_MAIN % dict(dispatch="\n".join(disp)))
        inp = os.path.join(_rundir(ctx), "in_%s.txt" % name)
        with open(inp, "w") as f:
            f.write("\n".join(lines) + "\n")
        jobs.append(cpp_build.CppJob(name, text, "".join(parts), run_args=[inp]))
        mods.append(dict(name=name, mod=mod, text=text, ir=ir, vb=vb, lines=lines, meta=meta, inp=inp, tops=tops))
    _tick(ctx, "modules generated (%d)" % len(jobs))
    results = cpp_build.run_jobs(wd, jobs, parallel=16, timeout=900)
    _tick(ctx, "modules built and run")
    # ---- pass 1: text comparison and C++ read-back
    wcases = []
    scases, qcases = [], []
    n_build_fail = 0
    float_stats = dict(cases=0, ok=True, tokens=0)
    for md in mods:
        res = results[md["name"]]
        if not res.ok:
            n_build_fail += 1
            ctx.count("build-failed:" + res.stage)
            nw = len([l for l in res.lines if l.startswith("W ")])
            if res.stage == "run" and nw < len(md["meta"]):
                mt = md["meta"][nw]
                ctx.violation("text-io-crash", "WriteToString / UpdateFromText aborts (exit %s) for struct %s, options %s: %s"
                              % (res.rc, mt["top"], mt["opts"], res.log.strip().splitlines()[0][:300] if res.log.strip() else ""),
                              dict(kind="struct", module=md["text"], struct=mt["top"], buffer=mt["raw"].hex(), options=mt["opts"],
                                   instance=_jsonable(mt["inst"]), exit=res.rc, stderr=res.log[-1500:]), found_input=True)
            else:
                ctx.violation("struct-driver:" + res.stage, "module %s failed at %s: %s" % (md["name"], res.stage, res.log[-800:]),
                              dict(kind="driver", module=md["text"], stage=res.stage, log=res.log[-3000:]), found_input=False)
            continue
        out = [l for l in res.lines if l.startswith("W ")]
        if len(out) != len(md["meta"]):
            ctx.violation("struct-driver:lines", "driver printed %d W lines for %d inputs" % (len(out), len(md["meta"])),
                          dict(kind="driver", module=md["text"]), found_input=False)
            continue
        md["flat_texts"] = {}
        for l, mt in zip(out, md["meta"]):
            kv = dict(x.split("=", 1) for x in l.split()[1:])
            o = mt["opts"]
            replay = dict(kind="struct", module=md["text"], struct=mt["top"], buffer=mt["raw"].hex(), options=o,
                          instance=_jsonable(mt["inst"]))
            if kv["ok"] != "1":
                ctx.count("buffer-not-ok")
                ctx.violation("generated-buffer-not-ok", "generator built a buffer the view does not accept as Ok (struct %s)" % mt["top"],
                              dict(replay, correspondence="harness/gen_text.py instance() vs view.Ok()"), found_input=False)
                continue
            text = bytes.fromhex(kv["text"]) if kv["text"] != "-" else b""
            text2 = bytes.fromhex(kv["text2"]) if kv["text2"] != "-" else b""
            mt["cpp_text"] = text
            if mt["kind"] == "F":
                _check_float_case(ctx, mt, kv, text.decode("latin-1"), text2.decode("latin-1"), replay, float_stats)
                continue
            feat = _features(mt["tree"])
            for ft in feat:
                ctx.count("feature:" + ft)
            ctx.count("options:%s%s%s" % ("multi" if o["multiline"] else "single", "+comments" if o["comments"] else "",
                                          "" if mt["reread"] else "(not re-readable)"))
            # -- the property on the real code: read-back
            if mt["reread"]:
                okrb = kv["upd"] == "1" and kv["ok2"] == "1" and strip_ro_comments(text.decode("latin-1")) == strip_ro_comments(text2.decode("latin-1"))
                if not okrb:
                    why = "UpdateFromText returned false" if kv["upd"] != "1" else "restored view not Ok" if kv["ok2"] != "1" else "a field read back different"
                    ctx.violation(_rb_key(mt, gt, why), "C++ round trip failed (%s) for struct %s, options %s" % (why, mt["top"], o),
                                  dict(replay, cpp_text=text.decode("latin-1"), cpp_text_after=text2.decode("latin-1"), why=why), found_input=True)
                mt["rb_ok"] = okrb
            # -- Skip / Emit / order on the real text (independent of the model)
            _check_emission(ctx, mt, text.decode("latin-1"), replay, gt)
            exp = "(%s, %s)" % (G.coq_text(text), "true" if mt["reread"] else "false")
            inp_term = "(%s, %s, %s)" % (gt_term(gt), G.coq_opts(o), mt["vname"])
            wcases.append((inp_term, exp, dict(md=md, mt=mt, replay=replay, defs=mt["vdef"])))
            if mt["reread"]:
                _collect_store_case(ctx, md, mt, kv, gt, replay, scases, qcases)
            if mt["flat"] and mt["reread"]:
                md["flat_texts"].setdefault(mt["top"], []).append((text.decode("latin-1"), mt))
    # for option sets that are not re-readable (single line + comments) only the text is compared
    runner = SharedCases(ctx, "write", HEADER + "Definition reread_b (o : opts) : bool := o_multiline o || negb (o_comments o).\n",
                         "(fun c => let r := run_write c in (fst r, snd r && reread_b (snd (fst c))))", "run_write_eqb",
                         "(gentab * opts * tval)", "(list Z * bool)", shard=90, timeout=2400)
    bad = runner.run(wcases) if wcases else []
    _tick(ctx, "write cases evaluated in Coq (%d)" % len(wcases))
    for a, b, obj in wcases:
        mt = obj["mt"]
        ctx.case(("w", a), nontrivial=len(mt["tree"][1]) > 4,
                 sample=dict(struct=mt["top"], options=mt["opts"], cpp_text=mt["cpp_text"].decode("latin-1")[:300]))
    ctx.obligation("correspondence: model text == WriteToString byte for byte, and the model's UpdateFromTextStream of it performs "
                   "exactly the predicted TryToWrite calls, on %d (module, buffer, options) cases" % len(wcases), not bad)
    ctx.obligation("C++ round trip: UpdateFromText(WriteToString(view)) into a zeroed buffer restores every emitted field (%d cases)"
                   % sum(1 for _, _, o in wcases if o["mt"]["reread"]), all(o["mt"].get("rb_ok", True) for _, _, o in wcases))
    ctx.obligation("C++ round trip of structures with Float:32/64 fields (zeros, denormals, extremes, infinities, NaNs with sign and "
                   "payload): restored buffer equal BIT FOR BIT, %d cases; %d float tokens equal to the reference rendering (observed, not modelled in Coq)"
                   % (float_stats["cases"], float_stats["tokens"]), float_stats["ok"] and (float_stats["cases"] > 0 or only is not None))
    seen = 0
    for idx, mo in bad:
        a, b, obj = wcases[idx]
        mt = obj["mt"]
        seen += 1
        if seen > 6:
            break
        mtext = _model_text(mo, idx % runner.shard)
        decide_text_mismatch(ctx, obj, mtext, gt)
    # ---- the concrete byte store: model bytes == C++ bytes
    run_store_tie(ctx, scases, qcases, required=only is None)
    # ---- pass 2: UpdateFromText on perturbed texts (flat structures)
    run_update_tie(ctx, mods, results, n_pert, gt)
    ctx.extra["modules_built"] = len(mods) - n_build_fail
    ctx.extra["modules_failed_to_build"] = n_build_fail


STORE_HEADER = ('Set Warnings "-notation-overridden".\nRequire Import EmbossV.Bits.Model.\n'
                "Require Import EmbossV.Text.IntCodec EmbossV.Text.StructText EmbossV.Text.Store EmbossV.Text.Exec.\n"
                "Open Scope Z_scope.\n")


def _collect_store_case(ctx, md, mt, kv, gt, replay, scases, qcases):
    """One case of the byte-store tie: the model (zeroed buffer -> UpdateFromText(model text) with TryToWrite = the
    scalar views of Bits/Model.v at the locations computed from the IR) must leave the bytes C++ left in buf2.
    Every instance is taken with its first option set, a quarter of the others too."""
    import zlib
    from harness import gen_bits
    cache = md.setdefault("store_cache", {})
    vname = mt["vname"]
    first = vname not in cache
    if first:
        try:
            sl = G.StoreLayout(md["ir"])
            entries = sl.build(md["vb"].find_type(mt["top"]), mt["inst"])
            have = {e["path"] for e in entries}
            missing = [p for p in G.emitted_leaf_paths(mt["tree"], gt) if p not in have]
            if missing:
                # a written field that is not a scalar at a location (writable virtual field: TryToWrite goes through
                # the inverse transform, C03 invert_correct) -- outside the store model
                raise G.OutOfModel("emitted-field-without-location")
            dd = {}
            lt, dt, dep = G.coq_store_tables(entries, mt["inst"], dd, gen_bits.null_constructor())
            defs = [(k, ty, tm) for k, (ty, tm) in dd.items()] + [("lt_" + vname, "ltab", lt), ("dt_" + vname, "dtab", dt)]
            # why a view may lie outside the proved class (only used to label the counts)
            byp = {e["path"]: e for e in entries}
            evp = list(G.emitted_leaf_paths(mt["tree"], gt))
            why = []
            if any(byp[p]["loc"]["kind"] == "SEnum" and byp[p]["loc"]["ity"][0] for p in evp):
                why.append("signed-enum")
            spots = [(byp[p]["base"], tuple(byp[p]["terms"]), byp[p]["loc"]["c"], byp[p]["loc"]["bits"]) for p in evp]
            if len(set(spots)) < len(spots):
                why.append("field-and-its-alias-both-emitted")
            cache[vname] = dict(defs=defs, dep=dep, n_entries=len(entries), why="+".join(why) or "other")
        except G.OutOfModel as ex:
            cache[vname] = None
            ctx.count("store:out-of-model:" + str(ex).split(" ")[0])
    st = cache[vname]
    if st is None:
        return
    o = mt["opts"]
    key = ("%s %s %s" % (md["name"], vname, sorted(o.items()))).encode()
    if not first and zlib.crc32(key) % 4 != 0:
        return
    n = len(mt["raw"])
    buf2 = bytes.fromhex(kv["buf2"]) if kv["buf2"] != "-" else b""
    if len(buf2) != n:
        ctx.violation("struct-driver:buf2", "driver printed %d restored bytes for a buffer of %d" % (len(buf2), n),
                      dict(replay), found_input=False)
        return
    stt = 0 if kv["upd"] == "1" else 1
    bl = "[" + ";".join("%d" % b for b in buf2) + "]"
    exp = "(%d, %s, (%d, %s), true)" % (stt, bl, stt, bl)
    inp = "(%s, %s, %s, %d%%nat, lt_%s, dt_%s)" % (gt_term(gt), G.coq_opts(o), vname, n, vname, vname)
    obj = dict(md=md, mt=mt, replay=replay, defs=mt["vdef"] + st["defs"], dep=st["dep"], buf2=buf2.hex(), upd=kv["upd"], why=st["why"])
    scases.append((inp, exp, obj))
    if first:
        qcases.append(("(%s, %s, %d%%nat, lt_%s)" % (gt_term(gt), vname, n, vname), "true",
                       dict(obj, dyn_term="(%s, %s, %d%%nat, dt_%s)" % (gt_term(gt), vname, n, vname))))


def run_store_tie(ctx, scases, qcases, required=True):
    if not scases:
        if required:
            ctx.obligation("correspondence: byte store (no case could be built)", False)
        return
    runner = SharedCases(ctx, "store", STORE_HEADER, "run_store", "store_out_eqb", "store_case", "store_out", shard=60, timeout=2400)
    bad = runner.run(scases)
    _tick(ctx, "store cases evaluated in Coq (%d)" % len(scases))
    q = SharedCases(ctx, "storeclass", STORE_HEADER, "run_inclass", "Bool.eqb", "(gentab * tval * nat * ltab)", "bool", shard=120, timeout=1200)
    outside = {i for i, _ in q.run(qcases)}
    qd = SharedCases(ctx, "storeclassdyn", STORE_HEADER, "run_inclass_dyn", "Bool.eqb", "(gentab * tval * nat * dtab)", "bool",
                     shard=120, timeout=1200)
    outside_dyn = {i for i, _ in qd.run([(o["dyn_term"], "true", o) for _, _, o in qcases])}
    _tick(ctx, "class membership evaluated in Coq (%d)" % len(qcases))
    n_in = {True: 0, False: 0}
    n_dyn = 0
    for i, (a, b, obj) in enumerate(qcases):
        # the static table (source locations) and `resolve` of the dependent table normally put a view in the class together;
        # they differ when a field another one depends on is not written before it (marked Skip): counted
        if (i in outside) != (i in outside_dyn):
            ctx.count("store-class:static-table-and-resolved-table-differ")
        if i in outside:
            ctx.count("store-class:outside(%s):%s" % ("dependent" if obj["dep"] else "static", obj["why"]))
        else:
            n_in[obj["dep"]] += 1
            if obj["dep"] and i not in outside_dyn:
                n_dyn += 1
            ctx.count("store-class:%s" % ("dependent-layout(struct_roundtrip_dynamic)" if obj["dep"]
                                          else "static-layout(struct_roundtrip_static)"))
    for a, b, obj in scases:
        ctx.case(("s", a), nontrivial=len(obj["buf2"]) > 4 and obj["upd"] == "1", sample=None)
        ctx.count("store:%s" % ("dependent" if obj["dep"] else "static"))
    ctx.obligation("correspondence: concrete byte store -- zeroed buffer -> UpdateFromText(model text) with TryToWrite = Bits/Model.v views "
                   "leaves exactly the bytes C++ left (static table of source locations AND dependent layout evaluated on the restored "
                   "buffer), and in the proved classes the update succeeds and every emitted field reads back: %d cases (%d with "
                   "buffer-dependent locations)"
                   % (len(scases), sum(1 for _, _, o in scases if o["dep"])), not bad)
    ctx.obligation("instances of struct_roundtrip_static / struct_roundtrip_dynamic: the hypotheses (layout_okb; for the dependent layouts "
                   "layout_okb of `resolve`) hold for %d generated views with a static layout and %d with buffer-dependent locations "
                   "(of %d views)" % (n_in[False], n_dyn, len(qcases)), n_in[False] + n_dyn > 0 or not required)
    ctx.extra["store"] = dict(cases=len(scases), views=len(qcases), in_class_static=n_in[False], in_class_dependent=n_in[True],
                              in_class_dynamic_theorem=n_dyn)
    for idx, mo in bad[:6]:
        a, b, obj = scases[idx]
        mt = obj["mt"]
        ctx.violation("store-correspondence", "model byte store and C++ disagree on the restored bytes (struct %s, options %s)"
                      % (mt["top"], mt["opts"]),
                      dict(obj["replay"], correspondence="Text.Exec.run_store vs UpdateFromText(WriteToString(view)) into a zeroed buffer",
                           cpp_bytes=obj["buf2"], cpp_upd=obj["upd"], model_outputs=mo[:2000]), found_input=False)


def _scalar_floats(sdef, inst, out=None):
    """name -> (bit pattern, width) of the present scalar Float fields (names are unique in a module)."""
    out = {} if out is None else out
    for f in sdef.fields:
        if f.name not in inst:
            continue
        present, v = inst[f.name]
        if not present:
            continue
        if f.kind == "float":
            out[f.name] = [v, f.size * 8]
        elif f.kind == "struct" and isinstance(v, dict):
            _scalar_floats(f.sdef, v, out)
    return out


def _float_class(pattern, nbits):
    e, m = ((pattern >> 23) & 0xff, pattern & 0x7fffff) if nbits == 32 else ((pattern >> 52) & 0x7ff, pattern & 0xfffffffffffff)
    top = 0xff if nbits == 32 else 0x7ff
    sign = "-" if pattern >> (nbits - 1) else "+"
    if e == top:
        return sign + ("nan" if m else "inf")
    if e == 0:
        return sign + ("denormal" if m else "zero")
    return sign + "normal"


def _check_float_case(ctx, mt, kv, text, text2, replay, stats):
    o = mt["opts"]
    stats["cases"] += 1
    ctx.count("options(float):%s%s" % ("multi" if o["multiline"] else "single", "+comments" if o["comments"] else ""))
    for nm, (pat, nb) in mt["floats"].items():
        ctx.count("float%d:%s" % (nb, _float_class(pat, nb)))
    ctx.case(("f", mt["raw"], sorted(o.items())), nontrivial=True, sample=None)
    replay = dict(replay, floats=mt["floats"])
    buf2 = bytes.fromhex(kv["buf2"]) if kv.get("buf2", "-") != "-" else b""
    if kv["upd"] != "1" or kv["ok2"] != "1" or buf2 != mt["raw"]:
        stats["ok"] = False
        why = "UpdateFromText returned false" if kv["upd"] != "1" else "restored view not Ok" if kv["ok2"] != "1" else \
              "restored buffer differs in bit pattern (%s -> %s)" % (mt["raw"].hex(), buf2.hex())
        # name the float token that is not read back, if one can be singled out
        culprit = ""
        for nm, (pat, nb) in mt["floats"].items():
            if _float_class(pat, nb).endswith("nan") or _float_class(pat, nb).endswith("inf"):
                culprit = culprit or " (special values present: %s = %s)" % (nm, G.float_text(pat, nb, o["grouping"]))
        ctx.violation("text-float-roundtrip", "C++ round trip of a structure with Float fields failed: %s%s; struct %s, options %s"
                      % (why, culprit, mt["top"], o),
                      dict(replay, cpp_text=text, cpp_text_after=text2, restored_buffer=buf2.hex(), why=why), found_input=True)
        return
    toks = dict(re.findall(r"([A-Za-z_][A-Za-z_0-9]*): ([^\s,{}]+)", strip_ro_comments(text)))
    for nm, (pat, nb) in mt["floats"].items():
        want = G.float_text(pat, nb, o["grouping"])
        stats["tokens"] += 1
        if toks.get(nm) != want:
            stats["ok"] = False
            ctx.violation("text-float-rendering", "Float:%d field %s with bit pattern 0x%x is written as %r, reference rendering %r"
                          % (nb, nm, pat, toks.get(nm), want),
                          dict(replay, cpp_text=text, field=nm, correspondence="harness/gen_text.float_text (python reference) vs WriteFloatToTextStream"),
                          found_input=False)
            return


def gt_term(gt):
    return "(mk_gentab %s %s %s)" % tuple("true" if x else "false" for x in gt)


def _jsonable(inst):
    def j(v):
        if isinstance(v, dict):
            return {k: [bool(p), j(x)] for k, (p, x) in v.items()}
        if isinstance(v, list):
            return [j(x) for x in v]
        return v
    return j(inst)


def _unjson(inst):
    def u(v):
        if isinstance(v, dict):
            return {k: (bool(p), u(x)) for k, (p, x) in v.items()}
        if isinstance(v, list):
            return [u(x) for x in v]
        return v
    return u(inst)


def _features(tree):
    out = set()

    def walk(n, depth):
        k = n[0]
        if k == "struct":
            if depth:
                out.add("nested-struct")
            for fi, c in n[1]:
                if fi["attr"]:
                    out.add("text_output:" + fi["attr"])
                if not fi["present"]:
                    out.add("absent-field")
                if fi["ro"] and fi["known"]:
                    out.add("read-only-virtual")
                walk(c, depth + 1)
        elif k == "array":
            out.add("array" + ("-ascii" if n[1] else ""))
            for c in n[2]:
                walk(c, depth + 1)
        elif k == "int":
            out.add("int%s%d" % ("s" if n[1][0] else "u", n[1][1]))
        elif k == "enum":
            out.add("enum-known" if any(v == n[3] for _, v in n[2]) else "enum-unknown")
        elif k == "bool":
            out.add("bool")
    walk(tree, 0)
    return out


def _has_long_array(n):
    if n[0] == "array":
        return len(n[2]) >= 2 or any(_has_long_array(c) for c in n[2])
    if n[0] == "struct":
        return any(fi["present"] and _has_long_array(c) for fi, c in n[1])
    return False


def _rb_key(mt, gt, why=""):
    """Names the mechanism when it is recognisable: multi-line arrays are written without separators
    (the reader then returns false at the second element)."""
    if mt["opts"]["multiline"] and _has_long_array(mt["tree"]) and why == "UpdateFromText returned false" \
            and "enum-known" not in _features(mt["tree"]):
        return "text-array-multiline-not-rereadable"
    return "text-roundtrip"


def _check_emission(ctx, mt, text, replay, gt):
    """emit_order / skip_absent / emit_present observed on the C++ text of the top-level structure
    (multi-line output: one `name:` per line at the first indent level)."""
    o = mt["opts"]
    if not o["multiline"] or o["indent"] == "":
        return
    ind = o["indent"]
    names = []
    for l in text.split("\n"):
        if l.startswith(ind) and not l.startswith(ind + ind[:1]) and not l[len(ind):].startswith("#"):
            m = re.match(r"([A-Za-z_$][A-Za-z_0-9$]*):", l[len(ind):])
            if m:
                names.append(m.group(1))
    fields = mt["tree"][1]
    want = [fi["name"] for fi, _ in fields if fi["present"] and not fi["ro"] and fi["attr"] != "Skip"]
    for fi, _ in fields:
        if fi["attr"] == "Emit" and fi["present"] and not fi["ro"] and fi["name"] not in names:
            ctx.violation("text-output-emit-ignored", "field %s is marked [text_output: \"Emit\"] and present but WriteToString omits it" % fi["name"],
                          dict(replay, cpp_text=text, field=fi["name"]), found_input=True)
            return
        if (fi["attr"] == "Skip" or not fi["present"]) and fi["name"] in names:
            ctx.violation("text-output-skip-ignored", "field %s is %s but WriteToString emits it"
                          % (fi["name"], "marked Skip" if fi["attr"] == "Skip" else "absent"),
                          dict(replay, cpp_text=text, field=fi["name"]), found_input=True)
            return
    if names != want:
        if sorted(names) == sorted(want):
            ctx.violation("text-emission-order", "fields are not emitted in dependency order: got %s, dependency order %s" % (names, want),
                          dict(replay, cpp_text=text, emitted=names, dependency_order=want), found_input=True)
        else:
            ctx.violation("text-emission-set", "emitted top-level fields %s differ from the present non-Skip fields %s" % (names, want),
                          dict(replay, cpp_text=text, emitted=names, expected=want), found_input=True)


def _model_text(model_outputs, local_idx):
    """Extracts the model's text for case `local_idx` from the outputs_at dump."""
    m = re.search(r"\(%d(?:%%N)?,\s*Some\s*\(\s*\[([0-9;\s]*)\]" % local_idx, model_outputs)
    if not m:
        return None
    nums = [int(x) for x in re.findall(r"\d+", m.group(1))]
    return bytes(nums).decode("latin-1")


def decide_text_mismatch(ctx, obj, mtext, gt):
    """Model (proved to emit in the given order, to skip Skip/absent fields, to be re-readable) and C++
    disagree on the text: look for the property failing on the real code."""
    mt, replay = obj["mt"], obj["replay"]
    ctext = mt["cpp_text"].decode("latin-1")
    d = dict(replay, cpp_text=ctext, model_text=mtext)
    # 1. the C++ round trip already failed on this input?
    if mt["reread"] and mt.get("rb_ok") is False:
        return      # reported with found_input=True above
    # 2. leaf texts: does the C++ text of an integer field denote the field's value?
    vals = _leaf_values(mt["tree"])
    toks = re.findall(r"([A-Za-z_][A-Za-z_0-9]*): ([-0-9][0-9a-fA-FxXbB_]*)", strip_ro_comments(ctext))
    for name, num in toks:
        if name in vals and len(vals[name]) == 1:
            ref = py_numeral(num, True)
            if ref is not None and ref not in vals[name]:
                ctx.violation("text-int-encoding", "field %s has value %s but WriteToString prints %r" % (name, sorted(vals[name]), num),
                              dict(d, field=name), found_input=True)
                return
    # 3. digit grouping / formatting documented for the text format (doc/text-format.md: 123_456, 0x1234_cdef, 0b1010_0101 -- groups of 3 / 4 / 8)
    for name, num in toks:
        body = num.lstrip("-")
        grp = 3
        if body[:2] in ("0x", "0X"):
            body, grp = body[2:], 4
        elif body[:2] in ("0b", "0B"):
            body, grp = body[2:], 8
        if "_" in body:
            parts = body.split("_")
            if any(len(p) != grp for p in parts[1:]) or not (1 <= len(parts[0]) <= grp):
                ctx.violation("text-int-grouping", "WriteToString groups the digits of %s as %r (expected groups of %d)" % (name, num, grp),
                              dict(d, field=name), found_input=True)
                return
    ctx.violation("text-correspondence", "model text differs from WriteToString for struct %s options %s" % (mt["top"], mt["opts"]),
                  dict(d, correspondence="Text.StructText.write_val vs generated WriteToTextStream"), found_input=False)


def _leaf_values(tree):
    out = {}

    def walk(n, name):
        if n[0] == "struct":
            for fi, c in n[1]:
                if fi["present"]:
                    walk(c, fi["name"])
        elif n[0] == "array":
            for c in n[2]:
                walk(c, name + "[]")
        elif n[0] == "int":
            out.setdefault(name, set()).add(n[2])
    walk(tree, "")
    return out


def run_update_tie(ctx, mods, results, n_pert, gt):
    r = ctx.rng
    jobs2 = []
    for md in mods:
        res = results[md["name"]]
        if not res.ok or not md.get("flat_texts"):
            continue
        lines, meta = [], []
        for top, lst in md["flat_texts"].items():
            base_tree = lst[0][1]["tree"]
            size = len(lst[0][1]["raw"])
            lv = list(G.leaves(base_tree))
            for _ in range(n_pert):
                text, mt = r.choice(lst)
                p = perturb(r, text, lv)
                pb = p.encode("latin-1", "replace")
                lines.append("U %s %d %s" % (top, size, pb.hex() or "-"))
                meta.append(dict(top=top, text=pb, tree=base_tree, leaves=lv, size=size, vdef=lst[0][1]["vdef"]))
        md["u_lines"], md["u_meta"] = lines, meta
        inp = os.path.join(_rundir(ctx), "inu_%s.txt" % md["name"])
        with open(inp, "w") as f:
            f.write("\n".join(lines) + "\n")
        jobs2.append((md, inp))
    ucases = []
    for md, inp in jobs2:
        rc, out = fw.sh([os.path.join(results[md["name"]].dir, "driver"), inp], timeout=300)
        ul = [l for l in out.splitlines() if l.startswith("U ")]
        if rc != 0 or len(ul) != len(md["u_meta"]):
            # a crash of UpdateFromText on a text is itself a finding candidate: find the line
            bad_line = md["u_lines"][len(ul)] if len(ul) < len(md["u_lines"]) else None
            ctx.violation("update-from-text-crash", "UpdateFromText driver exited with %s after %d of %d texts" % (rc, len(ul), len(md["u_meta"])),
                          dict(kind="update", module=md["text"], line=bad_line,
                               text=bytes.fromhex(bad_line.split()[3]).decode("latin-1") if bad_line and bad_line.split()[3] != "-" else ""),
                          found_input=bad_line is not None)
            continue
        for l, mt in zip(ul, md["u_meta"]):
            p = l.split()
            if "?" in p[2:]:
                ctx.count("update:leaf-not-ok")
                continue
            vals = [int(x) for x in p[2:]]
            dd = {}
            tab = "[" + ";".join("(%s,%s,%s)" % (G.coq_path_shared(path, dd), G.zlit(rng[0]), G.zlit(rng[1])) for path, node, rng in mt["leaves"]) + "]"
            vname = mt["vdef"][-1][0]
            a = "(schema_of %s, tab_%s, %s)" % (vname, vname, G.coq_text(mt["text"]))
            b = "(%d, [%s])" % (0 if p[1] == "1" else 1, ";".join(G.zlit(v) for v in vals))
            ucases.append((a, b, dict(module=md["text"], struct=mt["top"], text=mt["text"].decode("latin-1"), cpp=l, size=mt["size"],
                                      defs=mt["vdef"] + [(k, ty, tm) for k, (ty, tm) in dd.items()] + [("tab_" + vname, "leaf_tab", tab)])))
            ctx.count("update:" + ("accepted" if p[1] == "1" else "rejected"))
    if not ucases:
        return
    bad = SharedCases(ctx, "update", HEADER, "run_update_flat", "run_update_flat_eqb", "(sch * leaf_tab * list Z)", "(Z * list Z)",
                      shard=120, timeout=1800).run(ucases)
    _tick(ctx, "update cases evaluated in Coq (%d)" % len(ucases))
    for a, b, obj in ucases:
        ctx.case(("u", a), nontrivial=True, sample=None)
    ctx.obligation("correspondence: UpdateFromText on %d perturbed texts (result and every leaf afterwards) agrees with the model" % len(ucases), not bad)
    for idx, mo in bad[:6]:
        a, b, obj = ucases[idx]
        ctx.violation("update-correspondence", "model and C++ UpdateFromText disagree on text %r (struct %s)" % (obj["text"][:200], obj["struct"]),
                      dict(kind="update", correspondence="Text.StructText.update vs generated UpdateFromTextStream", module=obj["module"],
                           struct=obj["struct"], text=obj["text"], cpp=obj["cpp"], model_outputs=mo[:1500]), found_input=False)


# ------------------------------------------------------------------------------------
def run(ctx):
    import shutil
    try:
        _run(ctx)
    finally:
        if not ctx.violations:
            shutil.rmtree(_rundir(ctx), ignore_errors=True)


def _run(ctx):
    ctx.rule = ("codec: for each of the 8 integer types: type min/max (+-1), all powers of 2/10/16 +-1, grouping boundaries, random values, "
                "each in bases 2/10/16 with and without grouping; decode: overflowing numerals in every spelling, stray '_', bad prefixes, "
                "empty, sign on unsigned, character soup; token streams of separators/comments/words. structures: random modules "
                "(harness/gen_text.py: UInt/Int/Bcd/Flag/enum fields at many widths, bits, nested structs, arrays, conditional fields, "
                "pointer-located fields declared out of order, virtual fields, text_output Skip/Emit), Ok buffers solved from chosen values, "
                "option sets {base 2/10/16} x {grouping} x {single line, multi-line +- comments, 4 indents}; a case is non-trivial when the "
                "structure has more than 4 fields; perturbed texts: token-level edits of written texts of static structures")
    ctx.trusted = ["Coq 8.16.1 kernel, vm_compute", "harness/gen_text.py (generator, layout solver, IR -> abstract view)",
                   "harness/props/c06.py", "harness/cpp_build.py, g++ 12, the working tree's embossc"]
    ctx.assumptions = ["Float fields are outside the model (libc snprintf/sscanf)",
                       "texts of 2^32 or more characters are outside the DecodeInteger model (unsigned offset)",
                       "allow_partial_output is false (default); views are Ok",
                       "round trip: fields that other emitted fields depend on are not marked Skip",
                       "storage step of struct_roundtrip_partial (TryToWrite sequence in dependency order restores the fields) is a hypothesis; observed on the C++ side"]
    ctx.audit()
    ctx.check_theorems("EmbossV.Text.Properties_C06", "Text/Properties_C06.v", expect_min=30)
    gt, err = gen_table_probe(ctx)
    if gt is None:
        ctx.obligation("generator text_output table regenerated", False)
        ctx.violation("gen-table-probe", "could not regenerate the text_output table: %s" % err, dict(kind="table"), found_input=False)
        gt = (True, False, True)
    else:
        ok = gt == (True, False, True)
        ctx.obligation("instance: regenerated text_output table %s satisfies gentab_ok (emit_present / skip_absent apply)" % (gt,), ok)
        ctx.extra["gen_table"] = list(gt)
        # a table that is not the documented one is decided on the real C++ by _check_emission (keys text-output-*-ignored)
    _tick(ctx, "theorems checked")
    if getattr(ctx, "replay_path", None):
        replay(ctx, gt)
        return
    run_codec_tie(ctx)
    run_struct_tie(ctx, gt)
    if gt != (True, False, True) and not any(v["key"].startswith("text-output-") for v in ctx.violations) \
            and not ctx.known_hits:
        # the instance obligation gentab_ok failed but no structure showed it on the C++ side
        ctx.violation("gen-table", "regenerated text_output table %s (no attribute, Skip, Emit -> write clause?) is not the documented "
                      "(True, False, True); emit_present / skip_absent do not apply" % (gt,),
                      dict(kind="table", theorem="emit_present / skip_absent (hypothesis gentab_ok)", table=list(gt)), found_input=False)
    _tick(ctx, "done")


def replay(ctx, gt):
    """./check C06 --replay file: re-runs the recorded input through the same comparisons."""
    d = json.load(open(ctx.replay_path))
    r = d.get("replay", d)
    kind = r.get("kind")
    names = {tname(t): t for t in TYPES}
    if kind == "struct" and "buffer" in r:
        rec = dict(module=r["module"], structs=[r["struct"]],
                   cases=[dict(struct=r["struct"], instance=r["instance"], buffer=r["buffer"], options=r["options"],
                               floats=r.get("floats", {}))])
        if "floats" in r:
            rec["float_structs"] = [r["struct"]]
        run_struct_tie(ctx, gt, only=[rec])
    elif kind == "codec" and "value" in r:
        run_codec_tie(ctx, only=([(names[r["type"]], r["base"], int(r["grouping"]), int(r["value"]))], [], []))
    elif kind == "codec" and "text" in r:
        run_codec_tie(ctx, only=([], [(names[r["type"]], r["text"])], []))
    elif kind == "codec" and "line" in r:
        p = r["line"].split()
        if p[0] == "E":
            run_codec_tie(ctx, only=([(names[p[1]], int(p[2]), int(p[3]), int(p[4]))], [], []))
        elif p[0] == "D":
            run_codec_tie(ctx, only=([], [(names[p[1]], bytes.fromhex(p[2]).decode("latin-1") if len(p) > 2 else "")], []))
        else:
            run_codec_tie(ctx, only=([], [], [bytes.fromhex(p[1]).decode("latin-1") if len(p) > 1 else ""]))
    elif kind in ("codec-correspondence",) and "case" in r:
        c = r["case"]
        if c["kind"] == "enc":
            run_codec_tie(ctx, only=([(names[c["type"]], c["base"], int(c["grouping"]), int(c["value"]))], [], []))
        elif c["kind"] == "dec":
            run_codec_tie(ctx, only=([], [(names[c["type"]], c["text"])], []))
        else:
            run_codec_tie(ctx, only=([], [], [c["text"]]))
    else:
        ctx.note("replay kind %r is not a single input; running the whole check" % kind)
        run_codec_tie(ctx)
        run_struct_tie(ctx, gt)
