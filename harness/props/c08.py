"""C08 — the LR(1) generator builds a parser for exactly the grammar's language."""
import glob
import json
import os
import time
import traceback

from harness import fw
from harness import lr_tables as L
from harness import lr_gen_x as GX

META = {
    "technique": "Coq proof that a first-order LR table validator (check_sound) is sound for the model of Parser.parse, for all tables; the validator applied (extracted OCaml; inside Coq for a sample / all in thorough) to the tables lr1.py builds for the Emboss module and expression grammars and for N random small CFGs per run; differential correspondence Parser.parse vs model on all strings up to length 6 (small grammars) and derived sentences + mutations (Emboss), cross-checked with an independent Earley recogniser, ambiguity counter and derivation checker; a Gallina model of the generator itself (LR/Gen.v: FIRST, closure, goto, canonical collection, table filling) is compared differentially with lr1.Grammar on every small grammar of the run and, for FIRST, on the Emboss grammar; the certificate constructions of LR/GenCert2.v are evaluated inside Coq on a sample of these grammars, on lr1.py's own tables + item sets (check_sound with the known-suffix certificate built from lr1's item sets) and on the model's tables (check_sound, check_early, all_productive, check_productive, gen_clean, productivity marks vs an independent Python fixed point)",
    "level_text": "Machine-checked theorems (Coq 8.16, no axioms), for ALL tables, certificates, grammars, token lists and fuel: if check_sound G T C = true and run T accepts, the returned tree is a derivation tree of the start symbol of G whose leaves are the input tokens in order (run_sound, run_sound_gen); an error at index i depends only on tokens 0..i (run_prefix_det). If check_complete G T I F = true (LR(1) item sets and FIRST sets as untrusted certificate) every derivation tree of the start symbol is returned given enough fuel (run_complete), an error at index i implies that no sentence starts with tokens 0..i (error_not_late), and on a sentence run returns its tree or runs out of fuel (sentence_result), and G is unambiguous (unambiguous). The generator is covered per instance: each run rebuilds the Emboss parsers and N random small grammars' parsers with the working tree's lr1.py and decides check_sound and check_complete on their tables and item sets. With check_early (item cores valid) and check_productive (rank certificate) an error at index i implies tokens 0..i-1 start a sentence (error_not_early), so the error position is exact (error_position_exact); without productivity this is refuted (error_not_early_refuted, grammar S -> a S). These and 'ambiguous grammars are reported' are additionally tested on every string up to length 6 (small grammars) and on sampled Emboss sentences against an independent Earley recogniser. For the Gallina model of the generator (LR/Gen.v: FIRST fixed point, item closure, goto, canonical collection, table filling with conflict detection) and ALL grammars: the computed FIRST sets are exactly the terminals that can start / the nullability of a symbol string w.r.t. sentential-form derivations (first_sound, first_complete, first_complete_stable) and the computation never runs out of fuel (first_fuel_enough; closure_fuel_enough, goto_fuel_enough); the computed closure and goto are exactly ALSU's CLOSURE and GOTO (closure_closed, closure_sound, closure_exact, goto_spec); the computed collection starts with the closure of [S' -> . start, $] and is closed under goto (items_closed); whenever the model generator reports neither a conflict nor the Accept clash its tables pass check_complete (generate_pass_check_complete), hence every derivation tree is returned, no error is late and the grammar is unambiguous (generate_run_complete, generate_error_not_late, generate_clean_unambiguous; non-vacuous: generate_nonvacuous). The model generator's tables and item sets also pass check_sound (known-suffix certificate scert_of computed from the item sets) and check_early, for every grammar, clean or not (generate_pass_check_sound, generate_pass_check_sound_cores, generate_pass_check_early); the productivity fixed point prod_marks gives a rank certificate (all_productive_cert) and the boolean all_productive G holds exactly when every nonterminal derives a terminal string (all_productive_sound, all_productive_complete); hence generate_run_sound, generate_error_not_early and the combined generate_correct: for a grammar all of whose nonterminals are productive and a clean verdict, run on the generated tables accepts exactly the sentences, returns their unique derivation tree and reports an error exactly at the first token after the longest viable prefix (non-vacuous: generate_correct_nonvacuous). More fuel never changes a returned result (items_fuel_monotone, generate_fuel_monotone, generate_fuel_independent); a returned collection is, up to set equality, exactly the canonical collection, each item set once (items_complete_when_some, generate_is_collection); the verdict gen_clean is a property of the grammar alone -- clean iff no item set of the canonical collection has two items asking for different actions in one cell (gen_clean_iff_lr1) -- so any presentation of the canonical collection, in any work-list order and any order of the items inside a state, is filled without Conflict/Accept clash exactly when the model reports clean (generate_verdict_order_independent_partial; partial: same production list on both sides, tables up to renaming not compared). The executable generator model LR.Gen.generate is tied to lr1.Grammar on every random and corpus grammar of the run: equal FIRST sets, closure of the start item, set of item sets, goto/action tables up to the state renaming induced by the item sets, set of conflicting cells and conflict verdict (and equal FIRST sets on the Emboss grammar). The certificates of LR/GenCert2.v are exercised by vm_compute on a sample of the grammars (40 quick / 400 thorough): LR.GenExec.certify must return check_sound = true for lr1.py's own tables with the known-suffix certificate built from lr1.py's own item sets, check_sound = check_early = true on the model's tables, all_productive = check_productive(pcert_of) = 'no unproductive nonterminal', gen_clean = lr1's verdict and the same productivity marks as an independent Python fixed point.",
    "level_note": "sound and complete per validated instance (run_sound, run_complete, error_not_late proved for all tables passing the checkers; the checkers pass on the Emboss grammars and on every conflict-free random grammar of the run); error_not_early / error_position_exact proved under check_early + check_productive (instantiated on the Emboss grammars and every conflict-free productive random grammar; refuted without productivity: error_not_early_refuted); the generator itself is covered by translation validation of its output, not by a proof about lr1.py. Trusted: Coq kernel + vm_compute; extraction + OCaml for instance checks in quick (a sample is re-evaluated inside Coq and compared; thorough re-evaluates all small-grammar instances inside Coq); harness/lr_tables.py translator (certificates it computes are untrusted inputs of the verified checker); the Python Earley recogniser is support/search only. Modelled, not verified: lr1.py itself. For the MODEL generator LR/Gen.v translation validation is a theorem (generate_pass_check_complete: clean verdict => check_complete, for every grammar); its tables also pass check_sound and check_early for every grammar (generate_pass_check_sound, generate_pass_check_early), so with all_productive G = true and a clean verdict generate_correct holds; not proved for it: an a-priori fuel bound for the collection loop (termination is by fuel = number of states lr1.py built + slack; GenOutOfFuel is a distinct outcome reported as a difference; fuel monotonicity and completeness-when-Some are proved), verdict independence under permutation of the production LIST, and equality of the tables up to state renaming across presentations. The generator model LR/Gen.v corresponds to lr1.Grammar by differential testing only (harness/lr_gen_x.py; state numbers and the surviving action of a conflicting cell depend on Python set order and are compared up to renaming / as a set of cells; duplicate productions and the symbols S' and $ are outside the model and counted).",
}

FUEL_SMALL = lambda n: 400 + 80 * n
FUEL_BIG = lambda n: 4000 + 300 * n


def _gram(prods):
    return ["%s -> %s" % (p.lhs, " ".join(p.rhs) or "<empty>") for p in prods]


def _classify_generator_exception(ex):
    fr = traceback.extract_tb(ex.__traceback__)[-1]
    if isinstance(ex, AssertionError) and "END_OF_INPUT, new_action) == new_action" in (fr.line or ""):
        return "lr1-assert-accept-reduce-clash"
    return "lr1-generator-exception:%s@%s" % (type(ex).__name__, fr.name)


class SmallGrammar:
    pass


def small_grammar_cases(ctx, bench, n_grammars, first_slot, corpus):
    """random CFGs -> lr1 -> tables + all short strings; returns list of SmallGrammar"""
    from compiler.front_end import lr1
    from compiler.util import parser_types
    out = []
    todo = list(corpus)
    for g in range(n_grammars + len(corpus)):
        sg = SmallGrammar()
        if todo:
            c = todo.pop(0)
            sg.start, sg.style = c["start"], "corpus"
            sg.prods = [parser_types.Production(l, tuple(r)) for l, r in c["productions"]]
        else:
            sg.start, sg.prods, sg.style = L.random_grammar(ctx.rng)
        sg.slot = first_slot + g
        sg.entries = []
        sg.sound = None
        sg.complete = None
        sg.early = sg.productive = None
        sg.parser = None
        sg.unclean = len(L.clean_grammar(sg.start, sg.prods)) != len(sg.prods)
        _my = L.min_yields(sg.prods)
        sg.unproductive = sorted(set(p.lhs for p in sg.prods if p.lhs not in _my))
        ctx.count("grammar-style:" + sg.style)
        try:
            sg.parser = lr1.Grammar(sg.start, list(sg.prods)).parser()
        except Exception as ex:
            key = _classify_generator_exception(ex)
            ctx.count("generator-exception:" + key)
            ctx.violation(key, "lr1.Grammar(...).parser() raised %r instead of returning a parser (with conflicts)" % (ex,),
                          dict(kind="grammar", start=sg.start, productions=[[p.lhs, list(p.rhs)] for p in sg.prods],
                               exception=repr(ex), hashseed=os.environ.get("PYTHONHASHSEED"),
                               repro="PYTHONHASHSEED=%s: lr1.Grammar(%r, [%s]).parser()" % (
                                   os.environ.get("PYTHONHASHSEED"), sg.start,
                                   ", ".join("Production(%r, %r)" % (p.lhs, tuple(p.rhs)) for p in sg.prods))),
                          found_input=True)
            out.append(sg)
            continue
        sg.conflicts = len(sg.parser.conflicts)
        ctx.count("grammar:" + ("conflicts" if sg.conflicts else "conflict-free"))
        ctx.count("states", len(sg.parser.item_sets))
        sg.tab = bench.add_table(sg.parser, sg.slot, items_for=(sg.prods, sg.start))
        bench.add_grammar(sg.slot, sg.start, sg.prods)
        bench.cmd([10, sg.slot, sg.slot], lambda o, sg=sg: setattr(sg, "sound", o[3] == 1))
        sg.complete = None
        bench.cmd_complete(sg.slot, sg.slot, sg.prods, lambda o, sg=sg: setattr(sg, "complete", o[3] == 1))
        sg.early = sg.productive = None
        bench.cmd_early(sg.slot, sg.slot, sg.prods,
                        lambda o, sg=sg: (setattr(sg, "early", o[3] == 1), setattr(sg, "productive", o[4] == 1)))
        terms = sorted(set(sg.parser.terminals) - {lr1.END_OF_INPUT})
        sg.terms = terms
        maxlen = 6 if len(terms) <= 3 else 5
        strings = L.all_strings(terms, maxlen, 1100)
        # a few out-of-alphabet tokens: unknown symbol, END_OF_INPUT as a token, a nonterminal name
        for alien in ("zz", lr1.END_OF_INPUT, sg.start):
            base = ctx.rng.choice(strings[: min(len(strings), 200)])
            k = ctx.rng.randint(0, len(base))
            strings.append(base[:k] + [alien] + base[k:])
        cp = L.counting_parser(sg.parser)
        for w in strings:
            fuel = FUEL_SMALL(len(w))
            e = dict(w=w, model=None, problems=[])
            try:
                e["py"], e["problems"] = L.py_run_safe(cp, w, fuel, bench.I)
            except Exception as ex:
                ctx.violation("lr1-parse-exception:" + type(ex).__name__, "Parser.parse raised %r" % (ex,),
                              dict(kind="grammar+tokens", start=sg.start, productions=[[p.lhs, list(p.rhs)] for p in sg.prods],
                                   tokens=w, exception=repr(ex)), found_input=True)
                continue
            bench.cmd([13, sg.slot, fuel] + [bench.I.s(x) for x in w], lambda o, e=e: e.__setitem__("model", o))
            sg.entries.append(e)
        out.append(sg)
    return out


def judge_small_grammar(ctx, bench, sg):
    """compare Parser.parse / model / Earley on one small grammar; returns #correspondence mismatches"""
    from compiler.front_end import lr1
    I = bench.I
    gram = dict(start=sg.start, productions=[[p.lhs, list(p.rhs)] for p in sg.prods], style=sg.style)
    bad = 0
    E = L.Earley(sg.start, [(p.lhs, tuple(p.rhs)) for p in sg.prods])
    spec_failure = False
    cp = L.counting_parser(sg.parser)
    for e in sg.entries:
        w = e["w"]
        py = e["py"]
        outcome = {1: "accept", 2: "reject", 3: "crash", 4: "out-of-fuel"}.get(py[1], "?")
        ctx.count("small:%s:%s" % ("conflicts" if sg.conflicts else "conflict-free", outcome))
        ctx.case((tuple(_gram(sg.prods)), tuple(w)), nontrivial=len(w) >= 2 and len(sg.prods) >= 2,
                 sample=dict(grammar=_gram(sg.prods), tokens=w, python=outcome))
        for pr in e["problems"]:
            ctx.violation("lr1-parse-exception" if pr.startswith("exception:") else "parse-tree-metadata",
                          "Parser.parse result inconsistent: " + pr,
                          dict(kind="grammar+tokens", tokens=w, problem=pr, **gram), found_input=True)
        if e["model"] != py:
            bad += 1
            ctx.violation("driver-correspondence", "model `run` and Parser.parse disagree (small grammar)",
                          dict(kind="grammar+tokens", tokens=w, correspondence="LR.Driver.run vs lr1.Parser.parse",
                               python_raw=py[:80], model_raw=(e["model"] or [])[:80], **gram), found_input=False)
        if sg.conflicts:
            continue
        if any(x not in sg.terms for x in w):
            # out-of-alphabet probes: driver correspondence, plus: nothing containing them is a sentence
            if py[1] == 1 and lr1.END_OF_INPUT in w:
                # '$' is lr1's reserved end-of-input marker, not a terminal of any grammar: token strings
                # containing it are outside the property's quantifier (hypothesis ~In eoi toks of run_sound);
                # the behaviour (input truncated at '$') is counted, not reported (decision of the lead)
                ctx.count("out-of-domain:end-marker-token-accepted")
            elif py[1] == 1:
                spec_failure = True
                key = "lr1-parser-accepts-nonsentence"
                ctx.violation(key, "conflict-free parser accepts %r although %r is not a terminal of the grammar"
                              % (w, [x for x in w if x not in sg.terms]),
                              dict(kind="grammar+tokens", tokens=w, **gram), found_input=True)
            continue
        # ---- the specification side: independent Earley recogniser -------------------
        in_lang = E.accepts(w)
        if py[1] in (3, 4):
            spec_failure = True
            ctx.violation("lr1-conflict-free-parser-crashes-or-loops", "conflict-free parser %s on %r" % (outcome, w),
                          dict(kind="grammar+tokens", tokens=w, result=outcome, **gram), found_input=True)
            continue
        accepted = py[1] == 1
        if accepted != in_lang:
            spec_failure = True
            ctx.violation("lr1-parser-accepts-nonsentence" if accepted else "lr1-parser-rejects-sentence",
                          "conflict-free parser %s %r but the grammar %s it" % (
                              "accepts" if accepted else "rejects", w, "derives" if in_lang else "does not derive"),
                          dict(kind="grammar+tokens", tokens=w, parser_accepts=accepted, earley_accepts=in_lang, **gram),
                          found_input=True)
            continue
        if accepted:
            ntrees = E.count_trees(w)
            if ntrees >= 2:
                spec_failure = True
                ctx.violation("lr1-ambiguous-grammar-reported-conflict-free",
                              "conflicts == {} but %r has two derivation trees" % (w,),
                              dict(kind="grammar+tokens", tokens=w, **gram), found_input=True)
            cp.action.budget = FUEL_SMALL(len(w))
            tree = cp.parse(L.make_tokens(w)).parse_tree
            msg = L.check_derivation(tree, sg.start, sg.prods, w)
            if msg:
                spec_failure = True
                ctx.violation("lr1-tree-not-a-derivation", "accepted %r but the tree is not a derivation: %s" % (w, msg),
                              dict(kind="grammar+tokens", tokens=w, problem=msg, **gram), found_input=True)
        else:
            k, _ = E.viable_prefix_len(w)
            k = max(k, 0)
            idx = py[3]
            if idx != k:
                spec_failure = True
                late = idx > k
                key = "lr1-error-reported-%s" % ("late" if late else "early")
                if sg.unproductive and late:
                    key += ":unproductive-nonterminals"
                ctx.violation(key, "error reported at token %d but the longest viable prefix of %r has %d tokens" % (idx, w, k),
                              dict(kind="grammar+tokens", tokens=w, error_index=idx, viable_prefix=k, unproductive_nonterminals=sg.unproductive, **gram),
                              found_input=True)
    if not sg.conflicts:
        if not sg.sound and not spec_failure:
            ctx.violation("check-sound-instance-fails", "check_sound rejects the conflict-free tables lr1.py built, no misparse found up to length 6",
                          dict(kind="theorem", theorem="check_sound G T C = true (instance)", **gram), found_input=False)
        if not sg.early and not spec_failure:
            ctx.violation("check-early-instance-fails", "check_early (item cores valid) rejects the conflict-free tables/item sets lr1.py built, no misparse found up to length 6",
                          dict(kind="theorem", theorem="check_early G T I = true (instance)", **gram), found_input=False)
        if bool(sg.productive) != (not sg.unproductive):
            ctx.violation("check-productive-instance-disagrees", "check_productive = %s but the grammar has unproductive nonterminals %s"
                          % (sg.productive, sg.unproductive),
                          dict(kind="theorem", theorem="check_productive G R (instance)", **gram), found_input=False)
        if not sg.complete and not spec_failure:
            ctx.violation("check-complete-instance-fails", "check_complete rejects the conflict-free tables/item sets lr1.py built, no misparse found up to length 6",
                          dict(kind="theorem", theorem="check_complete G T I F = true (instance)", **gram), found_input=False)
    return bad


# ==== generator model LR/Gen.v vs lr1.Grammar (decoding and comparison: harness/lr_gen_x.py) ==========

def gen_model_cases(ctx, bench, smalls, emboss):
    """Register command 30 (LR.Gen.generate) for every small grammar -- including those on which
    lr1's parser() raised -- and command 31 (FIRST only) for the Emboss module grammar (gslot 1).
    Must run after small_grammar_cases and before bench.flush; judged by judge_gen_model."""
    from compiler.front_end import lr1, module_ir
    sp = bench.I.s(lr1.START_PRIME)
    for sg in smalls:
        sg.gen_cmd = sg.gen_raw = sg.gen_view = None
        why = GX.out_of_model(sg.start, sg.prods)
        if why:
            ctx.count("gen-model:out-of-model:" + why)
            continue
        if sg.parser is None:
            bench.add_grammar(sg.slot, sg.start, sg.prods)      # small_grammar_cases defines it only when parser() returned
        try:
            sg.gen_view = GX.python_view(sg.start, sg.prods, bench.I)
        except GX.DecodeError as ex:      # a shape of lr1's objects that is not understood: fail closed
            raise L.TranslationError("generator model view of %r: %s" % (_gram(sg.prods), ex))
        ffuel, cfuel, ifuel = GX.fuels(sg.gen_view)
        sg.gen_cmd = [30, sg.slot, bench.eoi, sp, ffuel, cfuel, ifuel]
        bench.cmd(sg.gen_cmd, lambda o, sg=sg: setattr(sg, "gen_raw", o))
    rec = None
    if "module" in emboss:
        prods = list(module_ir.PRODUCTIONS)
        why = GX.out_of_model(module_ir.START_SYMBOL, prods)
        if why:
            ctx.count("gen-model:out-of-model:emboss:" + why)
        else:
            rec = dict(raw=None, view=GX.first_view(module_ir.START_SYMBOL, sorted(module_ir.PRODUCTIONS), bench.I))
            del rec["view"]["grammar_object"]
            bench.cmd([31, emboss["module"]["slot"], 0], lambda o, rec=rec: rec.__setitem__("raw", o))
    return rec


def _bucket(n):
    for lo, hi in ((1, 2), (3, 9), (10, 29), (30, 99), (100, 299)):
        if n <= hi:
            return "%d-%d" % (lo, hi)
    return "300+"


def judge_gen_model(ctx, bench, smalls, emboss_first):
    """verdict part of gen_model_cases: one case per grammar, one obligation per aspect"""
    bad = dict((a, 0) for a in GX.ASPECTS)
    n = dict(grammars=0, nts=0, states=0, items=0, tabled=0, asserts=0, fuel1=0)
    for sg in smalls:
        if not getattr(sg, "gen_cmd", None):
            continue
        view = sg.gen_view
        n["grammars"] += 1
        n["nts"] += len(view["nts"])
        n["states"] += len(view["states"])
        n["items"] += view["n_items"]
        if view["parser"] is None:
            verdict = "assert" if view["raised"] == "accept-assert" else "exception"
        else:
            verdict = "conflicts" if view["parser"]["conflicts"] else "clean"
            n["tabled"] += 1
        n["asserts"] += 1 if view["raised"] == "accept-assert" else 0
        if (sg.parser is None) != (view["parser"] is None):
            ctx.count("gen-model:lr1-outcome-differs-between-two-calls-in-one-process")
        ctx.count("gen-model:verdict:" + verdict)
        ctx.count("gen-model:states:" + _bucket(len(view["states"])))
        ctx.count("gen-model:items:" + _bucket(view["n_items"]))
        ctx.case(("gen-model",) + tuple(_gram(sg.prods)) + (sg.start,), nontrivial=len(sg.prods) >= 2 and len(view["states"]) >= 3,
                 sample=dict(correspondence="LR.Gen.generate vs lr1.Grammar", start=sg.start, grammar=_gram(sg.prods),
                             states=len(view["states"]), items=view["n_items"], python=verdict))
        try:
            model = GX.decode_gen(sg.gen_raw)
            if model["ok"] and any(clash for _, clash in model["fill"]):
                ctx.count("gen-model:model-clash-flag-set")
            if not model["ok"] and model["stage"] == 1:
                n["fuel1"] += 1
            diffs = GX.compare(view, model)
        except GX.DecodeError as ex:
            diffs = ["decode: the model's answer to %r does not decode: %s" % (sg.gen_cmd, ex)]
        if not diffs:
            continue
        for a in GX.aspects_of(diffs):
            bad[a] += 1
        lr1_wrong = [s for s in diffs if s.startswith("lr1:")]
        desc = "model generator LR.Gen.generate and lr1.Grammar disagree on a small grammar (%s): %s" % (
            ", ".join(sorted(set(s.split(":", 1)[0] for s in diffs))), diffs[0][:300])
        if lr1_wrong:
            desc += " -- NOTE lr1.py ITSELF deviates from the textbook definition here, the defect is in lr1.py: " + lr1_wrong[0][:300]
        ctx.violation("generator-model-correspondence", desc,
                      dict(kind="grammar", correspondence="LR.Gen.generate vs lr1.Grammar", start=sg.start,
                           productions=[[p.lhs, list(p.rhs)] for p in sg.prods], style=sg.style,
                           hashseed=os.environ.get("PYTHONHASHSEED"), differences=diffs[:8]), found_input=False)
    g = n["grammars"]
    ctx.obligation("generator model: FIRST sets = lr1 Grammar.firsts and Grammar._first on %d grammars (%d nonterminals); Gen.first_fuel always suffices"
                   % (g, n["nts"]), bad["FIRST"] == 0 and n["fuel1"] == 0)
    ctx.obligation("generator model: closure of the start item [S' -> . start, $] = lr1 Grammar._closure_of_item on %d grammars (closure fuel Gen.closure_fuel)" % g,
                   bad["closure"] == 0)
    ctx.obligation("generator model: set of item sets / number of states = lr1 Grammar._items on %d grammars (%d states, %d items), no state twice"
                   % (g, n["states"], n["items"]), bad["states"] == 0)
    ctx.obligation("generator model: goto+action tables up to state renaming = lr1 (_items goto table on %d grammars; Parser.goto, Parser.action and "
                   "the set of conflicting cells on the %d grammars where parser() returned)" % (g, n["tabled"]), bad["tables"] == 0)
    ctx.obligation("generator model: conflict verdict gen_clean = (parser() returned without conflicts) on %d grammars; not clean on the %d "
                   "grammars where lr1 raised the Accept AssertionError" % (g, n["asserts"]), bad["verdict"] == 0)
    ctx.extra["generator_model"] = dict(grammars=g, nonterminals=n["nts"], states=n["states"], items=n["items"],
                                        parser_returned=n["tabled"], accept_asserts=n["asserts"], grammars_with_differences=dict(bad))
    # ---- FIRST sets of the Emboss grammar (command 31; the full generator run is too big for the list-based model)
    if emboss_first is not None:
        view = emboss_first["view"]
        try:
            m = GX.decode_first(emboss_first["raw"])
            if not m["ok"]:
                diffs = ["fuel: the model ran out of fuel in FIRST of the Emboss grammar although Gen.first_fuel was used"]
            else:
                diffs = list(view["lr1"]) + GX.compare_first(view, m["first"])
                if not m["stable"]:
                    diffs.append("FIRST: first_stable = false on the table the model computed for the Emboss grammar")
        except GX.DecodeError as ex:
            m = dict(first=[])
            diffs = ["decode: the model's answer to command 31 does not decode: %s" % ex]
        ctx.case(("gen-model-first", "emboss-module"), nontrivial=True)
        ctx.count("gen-model:emboss-first-entries", len(m.get("first", [])))
        ctx.obligation("generator model: FIRST sets of the Emboss grammar = lr1 (%d nonterminals, %d entries), first_stable = true"
                       % (len(view["nts"]), len(m.get("first", []))), not diffs)
        if diffs:
            lr1_wrong = [s for s in diffs if s.startswith("lr1:")]
            desc = "model FIRST (LR.Gen.first_table) and lr1.Grammar.firsts disagree on the Emboss grammar: " + diffs[0][:300]
            if lr1_wrong:
                desc += " -- NOTE lr1.py ITSELF deviates from the textbook FIRST fixpoint here, the defect is in lr1.py"
            ctx.violation("generator-model-correspondence", desc,
                          dict(kind="grammar", correspondence="LR.Gen.first_table vs lr1.Grammar.firsts", grammar="module_ir.PRODUCTIONS",
                               differences=diffs[:8]), found_input=False)

def gen_certificates(ctx, bench, smalls, thorough):
    """LR/GenCert2.v (known-suffix certificate from item sets, productivity ranks from the grammar) evaluated inside
    Coq by vm_compute (LR/GenExec.certify) on a sample of the small grammars whose parser lr1 built:
      (a) on lr1.py's OWN tables + item sets: check_sound with the certificate computed from lr1's item sets;
      (b) on the model generator's tables: check_sound / check_early (theorems, re-evaluated), all_productive,
          check_productive (pcert_of), gen_clean; the marks of the productivity fixed point against an
          independent Python computation.
    One case per grammar; quick: 40 grammars, thorough: 400."""
    from compiler.front_end import lr1
    I = bench.I
    sp = I.s(lr1.START_PRIME)
    pool = [sg for sg in smalls if sg.parser is not None and getattr(sg, "gen_cmd", None) and sg.gen_view is not None
            and sg.gen_view["parser"] is not None and len(sg.gen_view["states"]) <= 120]
    pick = pool[: (400 if thorough else 40)]
    cases = []
    for sg in pick:
        inp, exp, meta = GX.certify_case(sg.start, sg.prods, sg.tab, sg.slot, sg.gen_view, I, bench.eoi, sp, L.table_lines)
        cases.append((inp, exp, (sg, meta)))
        ctx.count("gen-cert:" + ("productive" if not meta["unproductive"] else "unproductive") + ":" +
                  ("clean" if meta["expect"][7] else "conflicts"))
        ctx.case(("gen-cert",) + tuple(_gram(sg.prods)) + (sg.start,), nontrivial=len(sg.prods) >= 2 and len(sg.gen_view["states"]) >= 3,
                 sample=dict(correspondence="LR.GenExec.certify vs lr1 tables / Python productivity", start=sg.start,
                             grammar=_gram(sg.prods), marks=meta["marks"][:8]))
    if not cases:
        ctx.obligation("generator certificates: no grammar to evaluate", False)
        return
    try:
        bad = fw.CoqCases(ctx, "c08cert", "Require Import EmbossV.LR.Driver EmbossV.LR.GenExec.\nOpen Scope N_scope.",
                          "certify", "list_N_eqb", "(list (list N) * N * N * N * N * N)", "list N",
                          shard=10, timeout=1500).run(cases)
    except fw.CoqEvalError as ex:
        ctx.obligation("generator certificates: in-Coq evaluation of LR.GenExec.certify", False)
        ctx.violation("generator-certificates-evaluation-failed", "LR.GenExec.certify could not be evaluated: %s" % str(ex)[-400:],
                      dict(kind="correspondence", correspondence="LR.GenExec.certify", error=str(ex)[-1500:]), found_input=False)
        return
    for idx, out in bad:
        sg, meta = cases[idx][2]
        ctx.violation("generator-certificates-correspondence",
                      "LR.GenExec.certify differs from the expected certificates verdicts on a small grammar "
                      "(expected [sound on lr1 tables, productive | ok, sound, early, all_productive, check_productive, clean, marks] = %s)"
                      % (meta["expect"],),
                      dict(kind="grammar", correspondence="LR.GenExec.certify (scert_of_icert on lr1 tables, gen_certify) vs lr1.Grammar / Python productivity",
                           start=sg.start, productions=[[p.lhs, list(p.rhs)] for p in sg.prods], expected=meta["expect"],
                           model_output=out[-600:], hashseed=os.environ.get("PYTHONHASHSEED")), found_input=False)
    ctx.obligation("generator certificates: on %d grammars (vm_compute) the known-suffix certificate built from lr1.py's own item sets "
                   "validates lr1.py's own tables (check_sound), the model generator's tables pass check_sound and check_early, "
                   "all_productive / check_productive(pcert_of) = 'no unproductive nonterminal' (%d productive, %d not), gen_clean = lr1's verdict, "
                   "prod_marks = the independent Python fixed point" % (
                       len(cases), sum(1 for c in cases if not c[2][1]["unproductive"]), sum(1 for c in cases if c[2][1]["unproductive"])),
                   not bad)
    ctx.extra["generator_certificates"] = dict(grammars=len(cases), mismatches=len(bad))

# ==== end of the generator model block ===================================================================


def emboss_cases(ctx, bench, name, parser, start, slot, n_sent, budgets, n_earley):
    from compiler.front_end import module_ir, lr1
    prods = list(module_ir.PRODUCTIONS)
    terms = sorted(set(parser.terminals) - {lr1.END_OF_INPUT})
    cp = L.counting_parser(parser)
    E = L.Earley(start, [(p.lhs, tuple(p.rhs)) for p in prods])
    entries = []
    inputs = []
    for p in sorted(glob.glob(os.path.join(fw.VERIF, "corpus", "C08", "*.json"))):
        try:
            rp = json.load(open(p))
            rp = rp.get("replay", rp)
            if rp.get("parser") == name and isinstance(rp.get("tokens"), list):
                inputs.append(("corpus", [str(x) for x in rp["tokens"]]))
        except (OSError, ValueError):
            ctx.note("unreadable corpus file " + p)
    for _ in range(n_sent):
        s = L.random_sentence(ctx.rng, prods, start, ctx.rng.choice(budgets))
        inputs.append(("sentence", s))
        for _ in range(2):
            k, m = L.mutate_tokens(ctx.rng, s, terms, ["BadWord", "$", start])
            inputs.append(("mut-" + k, m))
    n_e = 0
    for kind, w in inputs:
        fuel = FUEL_BIG(len(w))
        e = dict(kind=kind, w=w, model=None)
        e["py"], e["problems"] = L.py_run_safe(cp, w, fuel, bench.I)
        bench.cmd([13, slot, fuel] + [bench.I.s(x) for x in w], lambda o, e=e: e.__setitem__("model", o))
        e["earley"] = None
        if n_e < n_earley and len(w) <= 45 and all(x in terms for x in w):
            n_e += 1
            e["earley"] = E.accepts(w)
            if not e["earley"]:
                e["viable"] = max(E.viable_prefix_len(w)[0], 0)
        if kind == "sentence":
            e["earley"] = True if e["earley"] is None else e["earley"]     # derived from the grammar by construction
        entries.append(e)
    return entries, cp, prods


def judge_emboss(ctx, bench, name, entries, cp, prods, start):
    """returns (#correspondence mismatches, #inputs on which the parser contradicts the grammar)"""
    bad = 0
    nspec = 0
    for e in entries:
        w, py = e["w"], e["py"]
        outcome = {1: "accept", 2: "reject", 3: "crash", 4: "out-of-fuel"}.get(py[1], "?")
        ctx.count("%s:%s:%s" % (name, e["kind"], outcome))
        ctx.case((name, tuple(w)), nontrivial=len(w) >= 3, sample=dict(parser=name, kind=e["kind"], tokens=w[:40], python=outcome))
        for pr in e["problems"]:
            ctx.violation("lr1-parse-exception" if pr.startswith("exception:") else "parse-tree-metadata",
                          "Parser.parse result inconsistent: " + pr,
                          dict(kind="tokens", parser=name, tokens=w, problem=pr), found_input=True)
        if e["model"] != py:
            bad += 1
            ctx.violation("driver-correspondence", "model `run` and Parser.parse disagree (%s grammar)" % name,
                          dict(kind="tokens", parser=name, tokens=w, correspondence="LR.Driver.run vs lr1.Parser.parse",
                               python_raw=py[:80], model_raw=(e["model"] or [])[:80]), found_input=False)
        if py[1] == 1 and "$" in w:
            ctx.count("out-of-domain:end-marker-token-accepted")   # see above: '$' is not a terminal
        if e["earley"] is None:
            continue
        ctx.count("%s:earley-compared" % name)
        accepted = py[1] == 1
        if accepted != e["earley"]:
            nspec += 1
            ctx.violation("lr1-parser-accepts-nonsentence" if accepted else "lr1-parser-rejects-sentence",
                          "the generated %s parser %s a token string that the grammar %s" % (
                              name, "accepts" if accepted else "rejects", "derives" if e["earley"] else "does not derive"),
                          dict(kind="tokens", parser=name, tokens=w, parser_accepts=accepted, earley_accepts=e["earley"]),
                          found_input=True)
        elif accepted:
            cp.action.budget = FUEL_BIG(len(w))
            tree = cp.parse(L.make_tokens(w)).parse_tree
            msg = L.check_derivation(tree, start, prods, w)
            if msg:
                nspec += 1
                ctx.violation("lr1-tree-not-a-derivation", "accepted but the tree is not a derivation: %s" % msg,
                              dict(kind="tokens", parser=name, tokens=w, problem=msg), found_input=True)
        elif py[1] == 2 and "viable" in e and py[3] != e["viable"]:
            late = py[3] > e["viable"]
            ctx.violation("lr1-error-reported-%s" % ("late" if late else "early"),
                          "%s parser reports the error at token %d, longest viable prefix has %d tokens" % (name, py[3], e["viable"]),
                          dict(kind="tokens", parser=name, tokens=w, error_index=py[3], viable_prefix=e["viable"]), found_input=True)
    return bad, nspec


def run(ctx):
    ctx.rule = ("N random CFGs per run (<= 6 nonterminals, <= 10 productions, <= 4 terminals; styles plain/nullable/left-/right-recursive/"
                "ambiguous/cyclic/expression/list/unclean, plus ~15% from the nullable-chain family: a nonterminal nullable only through other nonterminals, chain depth 2-3, at the start/middle/end of the start production after a terminal/nonterminal/optional leaf) and the fixed regression grammars of corpus/C08 -> lr1.Grammar(...).parser(); every string over the grammar's terminals up to "
                "length 6 (5 for 4 terminals; cap 1100) plus three out-of-alphabet probes: Parser.parse vs model `run` (all fields) and, for "
                "conflict-free grammars, vs an independent Earley recogniser (membership, two-derivation search, longest viable prefix) and a "
                "derivation checker; Emboss module/expression grammars: derived sentences + 2 token-level mutations each.  A case is "
                "non-trivial when it has >= 2 tokens (>= 3 for Emboss); distinct by (grammar, token string).  Each of these small grammars (also those on which parser() raised) is additionally one case of the generator-model correspondence LR.Gen.generate vs lr1.Grammar (non-trivial with >= 2 productions and >= 3 states; distinct by grammar), plus one FIRST-only case for the Emboss grammar; a sample of them (40 quick / 400 thorough, parser returned, <= 120 states) is one case each of the certificate correspondence LR.GenExec.certify (distinct by grammar)")
    ctx.trusted = ["Coq 8.16.1 kernel, vm_compute", "OCaml 4.13.1 + extraction (ExtrOcamlBasic) + extract/lr/driver.ml",
                   "harness/lr_tables.py (translator, Earley recogniser used as oracle for the unproved direction)",
                   "harness/props/c08.py", "CPython 3.12 running /repo's lr1.py",
                   "harness/lr_gen_x.py (decoder and comparator of the generator-model correspondence; reads lr1.Grammar's firsts, _first, _closure_of_item, _items, parser; expected outputs of LR.GenExec.certify)"]
    ctx.assumptions = ["symbols are non-empty strings (lr1.py treats falsy symbols as epsilon)",
                       "completeness / no-late-error / conflict reporting are tested, not proved (see level_note)",
                       "PYTHONHASHSEED is fixed by ./check; lr1.Grammar.parser() is hash-seed dependent on grammars with an Accept/Reduce clash (finding F11)"]
    T0 = time.time()
    timing = ctx.extra.setdefault("timing_s", {})

    def lap(name):
        nonlocal T0
        timing[name] = round(time.time() - T0, 1)
        T0 = time.time()

    ctx.audit(extra_files=[os.path.join(fw.VERIF, "extract", "lr", "Extract.v")])
    ctx.check_theorems("EmbossV.LR.Properties_C08", "LR/Properties_C08.v", expect_min=48)
    lap("coq build + assumptions")

    driver = L.build_driver(ctx)
    ctx.obligation("extracted checker builds (coqc Extract.v, ocamlfind ocamlopt)", driver is not None)
    if driver is None:
        ctx.violation("extraction-broken", "the extracted model could not be built", dict(kind="build"), found_input=False)
        return
    lap("extraction + ocamlopt")
    thorough = ctx.thorough()
    try:
        from compiler.front_end import make_parser, module_ir, lr1
        for m in (make_parser, module_ir, lr1):
            f = os.path.realpath(m.__file__)
            if not f.startswith(os.path.realpath(fw.REPO) + os.sep):
                raise L.TranslationError("module %s was imported from %s, not from %s" % (m.__name__, f, fw.REPO))
        bench = L.Bench(ctx, driver)
        # ---- Emboss grammars ----------------------------------------------------------------
        emboss = {}
        for name, start, slot in (("module", module_ir.START_SYMBOL, 1), ("expression", module_ir.EXPRESSION_START_SYMBOL, 2)):
            try:
                p = lr1.Grammar(start, sorted(module_ir.PRODUCTIONS)).parser()
            except Exception as ex:
                key = _classify_generator_exception(ex)
                ctx.violation(key, "lr1 raised %r on the Emboss %s grammar" % (ex, name),
                              dict(kind="grammar", grammar="module_ir.PRODUCTIONS", start=start, exception=repr(ex)), found_input=True)
                continue
            ctx.count("emboss:%s:conflicts" % name, len(p.conflicts))
            ctx.obligation("lr1 reports no conflict for the Emboss %s grammar" % name, not p.conflicts)
            if p.conflicts:
                ctx.violation("lr1-conflicts-on-emboss-grammar", "lr1 reports %d conflicts for the Emboss %s grammar" % (len(p.conflicts), name),
                              dict(kind="grammar", grammar="module_ir.PRODUCTIONS", start=start,
                                   first_conflict=str(sorted(str(c)[:300] for c in list(p.conflicts)[:3]))), found_input=True)
                continue
            tab = bench.add_table(p, slot, items_for=(list(module_ir.PRODUCTIONS), start))
            bench.add_grammar(slot, start, list(module_ir.PRODUCTIONS))
            rec = dict(parser=p, start=start, slot=slot, sound=None, complete=None, tab=tab)
            bench.cmd([10, slot, slot], lambda o, rec=rec: rec.__setitem__("sound", o[3] == 1))
            bench.cmd_complete(slot, slot, list(module_ir.PRODUCTIONS), lambda o, rec=rec: rec.__setitem__("complete", o[3] == 1))
            bench.cmd_early(slot, slot, list(module_ir.PRODUCTIONS),
                            lambda o, rec=rec: (rec.__setitem__("early", o[3] == 1), rec.__setitem__("productive", o[4] == 1)))
            if name == "module":
                n_sent, budgets, n_e = (1500, [5, 20, 60, 150], 600) if thorough else (150, [5, 20, 60, 150], 90)
            else:
                n_sent, budgets, n_e = (1500, [3, 10, 30, 80], 900) if thorough else (150, [3, 10, 30, 80], 150)
            rec["entries"], rec["cp"], rec["prods"] = emboss_cases(ctx, bench, name, p, start, slot, n_sent, budgets, n_e)
            emboss[name] = rec
        lap("emboss: lr1 generation, translation, python runs, earley")
        # ---- random small grammars ------------------------------------------------------------
        corpus = []
        paths = sorted(glob.glob(os.path.join(fw.VERIF, "corpus", "C08", "*.json")))
        if getattr(ctx, "replay_path", None):
            paths.insert(0, ctx.replay_path)
        for pth in paths:
            try:
                rp = json.load(open(pth))
                rp = rp.get("replay", rp)
                if isinstance(rp.get("productions"), list) and rp.get("start"):
                    corpus.append(dict(start=rp["start"], productions=rp["productions"]))
            except (OSError, ValueError):
                ctx.note("unreadable corpus file " + pth)
        n_grammars = 1500 if thorough else 120
        smalls = small_grammar_cases(ctx, bench, n_grammars, 10, corpus)
        lap("random grammars: lr1, translation, python runs")
        gen_emboss_first = gen_model_cases(ctx, bench, smalls, emboss)      # commands 30/31: LR/Gen.v vs lr1.Grammar
        lap("generator model: lr1 views, commands")
        bench.flush("main")
        lap("extracted model run")
    except L.TranslationError as ex:
        ctx.obligation("tables translate / model runs", False)
        ctx.violation("translator-failed", "table translation or model run failed: %s" % ex,
                      dict(kind="translator", error=str(ex), correspondence="harness/lr_tables.py vs working tree"), found_input=False)
        return
    ctx.obligation("tables translate / model runs", True)

    # ---- verdicts ------------------------------------------------------------------------------
    for name, rec in emboss.items():
        ctx.obligation("check_sound on lr1's tables for the Emboss %s grammar (%d states; extracted checker)"
                       % (name, len(rec["tab"].action)), bool(rec["sound"]))
        bad, nspec = judge_emboss(ctx, bench, name, rec["entries"], rec["cp"], rec["prods"], rec["start"])
        ctx.obligation("correspondence: model run = Parser.parse on %d %s inputs" % (len(rec["entries"]), name), bad == 0)
        ctx.obligation("check_complete on lr1's tables + item sets for the Emboss %s grammar (%d item cores; extracted checker)"
                       % (name, len(rec["tab"].item_lines)), bool(rec["complete"]))
        ctx.obligation("check_early and check_productive on the Emboss %s grammar/tables (error_position_exact instantiated; extracted checker)"
                       % name, bool(rec.get("early")) and bool(rec.get("productive")))
        if not (rec.get("early") and rec.get("productive")) and not nspec:
            ctx.violation("check-early-instance-fails", "check_early=%s check_productive=%s on the Emboss %s grammar"
                          % (rec.get("early"), rec.get("productive"), name),
                          dict(kind="theorem", theorem="check_early G T I = true /\\ check_productive G R = true (Emboss %s instance)" % name),
                          found_input=False)
        if not rec["sound"] and not nspec:
            ctx.violation("check-sound-instance-fails", "check_sound rejects the tables lr1.py built for the Emboss %s grammar" % name,
                          dict(kind="theorem", theorem="check_sound G T C = true (Emboss %s instance)" % name), found_input=False)
        if not rec["complete"] and not nspec:
            ctx.violation("check-complete-instance-fails", "check_complete rejects the tables/item sets lr1.py built for the Emboss %s grammar" % name,
                          dict(kind="theorem", theorem="check_complete G T I F = true (Emboss %s instance)" % name), found_input=False)
    nbad = 0
    ncf = 0
    for sg in smalls:
        if sg.parser is None:
            continue
        nbad += judge_small_grammar(ctx, bench, sg)
        ncf += 0 if sg.conflicts else 1
    nstr = sum(len(sg.entries) for sg in smalls)
    unsound = [sg.slot for sg in smalls if sg.parser is not None and not sg.conflicts and not sg.sound]
    ctx.obligation("check_sound = true on lr1's tables for each of the %d conflict-free random grammars" % ncf, not unsound)
    incomplete = [sg.slot for sg in smalls if sg.parser is not None and not sg.conflicts and not sg.complete]
    ctx.obligation("check_complete = true on lr1's tables + item sets for each of the %d conflict-free random grammars" % ncf, not incomplete)
    cf = [sg for sg in smalls if sg.parser is not None and not sg.conflicts]
    ctx.obligation("check_early = true (item cores valid) on each of the %d conflict-free random grammars; check_productive = true on the %d "
                   "of them without unproductive nonterminals (error_not_early / error_position_exact instantiated), false on the other %d"
                   % (len(cf), sum(1 for sg in cf if not sg.unproductive), sum(1 for sg in cf if sg.unproductive)),
                   all(sg.early and bool(sg.productive) == (not sg.unproductive) for sg in cf))
    ctx.count("check_complete-true-on-grammars-with-conflicts", sum(1 for sg in smalls if sg.parser is not None and sg.conflicts and sg.complete))
    ctx.obligation("correspondence: model run = Parser.parse on %d strings over %d random grammars" % (nstr, len(smalls)), nbad == 0)
    ctx.extra["random_grammars"] = dict(total=len(smalls), conflict_free=ncf,
                                        generator_exceptions=sum(1 for sg in smalls if sg.parser is None))

    lap("verdicts (earley, derivation checks)")
    judge_gen_model(ctx, bench, smalls, gen_emboss_first)
    lap("generator model: decoding, comparison")
    gen_certificates(ctx, bench, smalls, thorough)
    lap("generator certificates (in-Coq)")
    # ---- the same commands inside Coq (vm_compute) for a sample / all ------------------------
    coq_recheck(ctx, bench, [sg for sg in smalls if sg.parser is not None], thorough, emboss)
    lap("in-Coq re-evaluation")


def coq_recheck(ctx, bench, smalls, thorough, emboss=None):
    """Re-evaluate check_sound/check_complete + runs inside Coq (vm_compute) and compare with the
    extracted outputs: a sample of the small grammars in quick, all of them and the Emboss
    tables in thorough.  Batches are compiled in parallel."""
    from concurrent.futures import ThreadPoolExecutor
    I = bench.I
    pick = smalls if thorough else smalls[:6]
    plines = [[2, k, I.sym[l]] + [I.sym[x] for x in r] for k, (l, r) in enumerate(I.prod_vals)]
    jobs = []          # (name, lines, expect, big?)
    for bi, i in enumerate(range(0, len(pick), 40)):
        batch = pick[i:i + 40]
        lines = list(plines)
        expect = []
        for sg in batch:
            lines += L.table_lines(sg.tab, sg.slot, I, bench.eoi, sg.tab.item_lines)
            lines.append([9, sg.slot, I.s(sg.start)] + [I.p(p) for p in sg.prods])
            lines.append([10, sg.slot, sg.slot])
            expect.append([10, sg.slot, sg.slot, 1 if sg.sound else 0])
            lines += L.first_cert_lines(sg.prods, I)
            lines.append([22, sg.slot, sg.slot])
            expect.append([22, sg.slot, sg.slot, 1 if sg.complete else 0])
            lines += L.rank_cert_lines(sg.prods, I)[0]
            lines.append([24, sg.slot, sg.slot])
            expect.append([24, sg.slot, sg.slot, 1 if sg.early else 0, 1 if sg.productive else 0])
            if getattr(sg, "gen_cmd", None) and getattr(sg, "gen_raw", None):
                lines.append(list(sg.gen_cmd))           # LR.Gen.generate: extraction vs vm_compute
                expect.append(sg.gen_raw)
            for e in sg.entries[: (400 if thorough else 150)]:
                lines.append([13, sg.slot, FUEL_SMALL(len(e["w"]))] + [I.s(x) for x in e["w"]])
                expect.append(e["model"])
        jobs.append(("small_%d" % bi, lines, expect, False))
    if thorough and emboss:
        from compiler.front_end import module_ir
        for name, rec in emboss.items():
            prods = list(module_ir.PRODUCTIONS)
            lines = list(plines) + L.table_lines(rec["tab"], rec["slot"], I, bench.eoi, rec["tab"].item_lines)
            lines.append([9, rec["slot"], I.s(rec["start"])] + [I.p(p) for p in prods])
            lines.append([10, rec["slot"], rec["slot"]])
            expect = [[10, rec["slot"], rec["slot"], 1 if rec["sound"] else 0]]
            lines += L.first_cert_lines(prods, I)
            lines.append([22, rec["slot"], rec["slot"]])
            expect.append([22, rec["slot"], rec["slot"], 1 if rec["complete"] else 0])
            lines += L.rank_cert_lines(prods, I)[0]
            lines.append([24, rec["slot"], rec["slot"]])
            expect.append([24, rec["slot"], rec["slot"], 1 if rec.get("early") else 0, 1 if rec.get("productive") else 0])
            for e in rec["entries"][:200]:
                lines.append([13, rec["slot"], FUEL_BIG(len(e["w"]))] + [I.s(x) for x in e["w"]])
                expect.append(e["model"])
            jobs.append(("emboss_" + name, lines, expect, True))
    if not jobs:
        return

    def work(job):
        name, lines, expect, big = job
        try:
            got = L.coq_eval_main(ctx, name, lines, timeout=2400 if big else 1500, stack_unlimited=big)
        except L.TranslationError as ex:
            return name, len(expect), 0, str(ex)[-600:]
        agree = sum(1 for a, b in zip(got, expect) if a == b) if len(got) == len(expect) else 0
        return name, len(expect), agree, None

    with ThreadPoolExecutor(max_workers=max(1, min(fw.NPROC, 12))) as ex:
        results = list(ex.map(work, jobs))
    total = sum(r[1] for r in results)
    agree = sum(r[2] for r in results)
    for name, n, a, err in results:
        if err:
            ctx.note("in-Coq evaluation %s failed: %s" % (name, err))
    ok = total == agree
    ctx.obligation("in-Coq vm_compute of LR.Exec.main = extracted OCaml on %d commands (%d small grammars%s)"
                   % (total, len(pick), ", Emboss module+expression check_sound/check_complete" if (thorough and emboss) else ""), ok)
    if not ok:
        ctx.violation("extraction-differs-from-coq", "extracted model and vm_compute disagree (%d/%d agree)" % (agree, total),
                      dict(kind="correspondence", correspondence="extracted LR.Exec.main vs vm_compute",
                           batches=[dict(name=r[0], commands=r[1], agree=r[2], error=r[3]) for r in results if r[1] != r[2]]),
                      found_input=False)
