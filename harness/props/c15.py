"""C15 — dependency cycles are rejected exactly; field order is a stable topological sort."""
import glob
import json
import os
import signal
import sys
import time
import traceback

from harness import fw, gen_deps

META = {
    "technique": "Coq proofs about a verified acyclicity test (sink removal), a Gallina mirror of the greedy ordering loop and a Gallina mirror of _find_cycles (Tarjan) + differential correspondence with dependency_checker.py on random graphs, random orderings and generated/corpus modules",
    "level_text": "Machine-checked theorems (Coq 8.16, no axioms), for every finite graph / field list: acyclic_dec decides 'no node reaches itself by >=1 edge' (acyclic_dec_spec); the ordering loop returns a permutation of the fields (order_perm) in which every field follows the fields it mentions (order_respects_deps), returns source order when that is valid (order_stable) and never fails or runs out of fuel n+1 on locally acyclic inputs (order_defined); the Tarjan mirror of _find_cycles raises no error, needs fuel |g|+1 at most, and reports no component iff the graph is acyclic (tarjan_verdict, tarjan_none_iff_acyclic: both directions; tarjan_agrees_with_acyclic_dec). Tie, re-checked each run: the compiler's cycle verdict and reported components on generated multi-file modules and on thousands of random graphs equal the models' results and an independent SCC computation; fields_in_dependency_order of every accepted structure equals the model's order on the dependency lists the pass itself used; an independent walk of the IR confirms the three order clauses on the real output.",
    "level_note": "Trusted: Coq kernel + vm_compute; harness/props/c15.py (graph numbering, capture of the pass's inputs); generator coverage (histogram). Also proved on the Tarjan mirror: every reported component is a strongly connected component containing a cycle, every node on a cycle is reported, exactly once (tarjan_components_are_sccs, tarjan_reports_each_scc_once); and for the ordering loop its exact greedy specification, uniqueness, placement of delayed fields and stability (order_greedy_spec, order_greedy_unique, order_stable_moves, order_stability); the literal 'every moved field sits immediately after its last dependency' is refuted by a witness (order_moves_refuted, corpus/C15/ordering_two_waiting.json). Not modelled: Python recursion depth (a dependency chain longer than the interpreter's recursion limit raises RecursionError; the model's fuel is unbounded).",
}

HEADER = ("Require Import EmbossV.Deps.Graph EmbossV.Deps.Kahn EmbossV.Deps.Order "
          "EmbossV.Deps.Tarjan EmbossV.Deps.Exec.\n")

COMPILE_LIMIT_S = 30


def _setup_bytecode_cache():
    # importing compiler.front_end.parser compiles a 2.6 MB table file; keep the byte code
    # under /verif/build (keyed by source path + mtime) instead of recompiling per process
    sys.dont_write_bytecode = False
    sys.pycache_prefix = os.path.join(fw.BUILD, "pycache")
    # dumping .glob files costs 45 of the 55 s of a 250-case shard
    if "-noglob" not in fw.COQ_FLAGS:
        fw.COQ_FLAGS.append("-noglob")


class _Alarm(Exception):
    pass


def _with_limit(seconds, fn):
    def handler(signum, frame):
        raise _Alarm()
    old = signal.signal(signal.SIGALRM, handler)
    signal.setitimer(signal.ITIMER_REAL, seconds)
    try:
        return fn()
    finally:
        signal.setitimer(signal.ITIMER_REAL, 0)
        signal.signal(signal.SIGALRM, old)


def compile_files(files, main, stop=None):
    from compiler.front_end import glue

    def reader(fn):
        if fn in files:
            return files[fn], None
        p = os.path.join(fw.REPO, fn)
        if os.path.exists(p):
            return open(p).read(), None
        return None, ["file not found: " + fn]

    return glue.parse_emboss_file(main, reader, stop_before_step=stop)


# ------------------------------------------------------------------------------
# graphs
# ------------------------------------------------------------------------------

def number_graph(g):
    """dict node -> set(node)  ==>  (ids, [(id, [succ ids in the set's iteration order])])."""
    ids = {}
    for k in g:
        ids[k] = len(ids)
    rows = []
    for k in g:
        row = []
        for d in g[k]:
            if d not in ids:
                ids[d] = len(ids)      # not a key: the graph is not closed
            row.append(ids[d])
        rows.append((ids[k], row))
    return ids, rows


def coq_graph(rows):
    return "[" + "; ".join("(%d%%N, [%s])" % (k, "; ".join("%d%%N" % d for d in row)) for k, row in rows) + "]"


def independent_sccs(rows):
    """Nontrivial strongly connected components by transitive closure on bit sets
    (independent of both the implementation and the Coq model)."""
    succ = {}
    for k, row in rows:
        succ.setdefault(k, set()).update(row)
    for k in list(succ):
        for d in succ[k]:
            succ.setdefault(d, set())
    nodes = sorted(succ)
    reach = {u: 0 for u in nodes}
    for u in nodes:
        for d in succ[u]:
            reach[u] |= 1 << d
    changed = True
    while changed:
        changed = False
        for u in nodes:
            r = reach[u]
            new = r
            m = r
            while m:
                low = m & -m
                v = low.bit_length() - 1
                new |= reach[v]
                m ^= low
            if new != r:
                reach[u] = new
                changed = True
    comps, seen = [], set()
    for u in nodes:
        if u in seen or not (reach[u] >> u) & 1:
            continue
        comp = [v for v in nodes if (reach[u] >> v) & 1 and (reach[v] >> u) & 1]
        seen.update(comp)
        comps.append(sorted(comp))
    return sorted(comps)


def run_find_cycles(g):
    """The implementation on a dict graph -> ('ok', sorted comps as node lists) | ('err', exc) | ('recursion', exc)."""
    from compiler.front_end import dependency_checker
    try:
        res = _with_limit(COMPILE_LIMIT_S, lambda: dependency_checker._find_cycles(dict(g)))
    except (KeyError, IndexError) as ex:
        return ("err", repr(ex))
    except RecursionError as ex:
        return ("recursion", repr(ex))
    except _Alarm:
        return ("timeout", "")
    return ("ok", res)


def graph_case(ctx, g, label, origin):
    """Build one Coq case for graph g and compare the implementation with the independent SCCs.
    Returns (input_term, expected_term, obj) or None."""
    ids, rows = number_graph(g)
    closed = all(d in g for k in g for d in g[k])
    st, res = run_find_cycles(g)
    ind = independent_sccs(rows) if closed else None
    obj = dict(label=label, origin=origin, rows=rows, n=len(rows))
    if st == "ok":
        comps = sorted(sorted(ids[x] for x in c) for c in res)
        exp_t = "TOk [%s]" % "; ".join("[%s]" % "; ".join("%d%%N" % x for x in c) for c in comps)
        obj["py"] = comps
        if closed and comps != ind:
            # the property itself fails on the implementation: cycle verdict or component wrong
            key = "cycle-missed" if len(comps) < len(ind) or (ind and not comps) else "cycle-wrong-component"
            if not ind and comps:
                key = "false-cycle"
            ctx.violation(key, "_find_cycles on %s returns %s, the strongly connected components with a cycle are %s"
                          % (label, comps, ind),
                          replay_for_graph(rows, comps, ind, origin), found_input=True)
    elif st == "err":
        exp_t = "TErr"
        obj["py"] = "exception " + res
        if closed:
            ctx.violation("find-cycles-exception", "_find_cycles raised %s on a closed graph (%s)" % (res, label),
                          replay_for_graph(rows, None, ind, origin), found_input=True)
    else:
        ctx.violation("find-cycles-" + st, "_find_cycles did not terminate normally (%s %s) on %s" % (st, res, label),
                      replay_for_graph(rows, None, ind, origin), found_input=True)
        return None
    acyclic = (st == "ok" and not res)
    # when the implementation raised, only the Tarjan mirror's result is compared
    if st == "ok":
        exp = "(%s, %s, %s)" % (fw.coq_bool(closed), fw.coq_bool(acyclic), exp_t)
    else:
        exp = None
    obj["closed"] = closed
    obj["ind"] = ind
    return (coq_graph(rows), exp, obj)


def replay_for_graph(rows, py, ind, origin):
    n = 1 + max([k for k, _ in rows] + [d for _, r in rows for d in r] + [0])
    edges = [(k, d) for k, r in rows for d in r]
    rep = dict(kind="graph", graph=[[k, r] for k, r in rows], implementation=py, independent_sccs=ind, origin=origin)
    if n <= 400:
        # the same graph as an Emboss module (one virtual field per node), through the whole compiler
        text = gen_deps.graph_module(edges, n)
        rep["module"] = text
        rep["module_result"] = outcome_text(full_compile({"g.emb": text}, "g.emb"))
    return rep


def random_graph(r):
    """dict int -> set(int); shapes: sparse/dense random, DAG, ring, chain, several rings, self loops."""
    k = r.random()
    n = r.choice([1, 2, 3, 4, 5, 6, 8, 10, 12, 16, 24]) if r.random() < 0.9 else r.randint(25, 60)
    labels = list(range(n))
    if r.random() < 0.5:
        r.shuffle(labels)
    g = {v: set() for v in labels}
    shape = "random"
    if k < 0.25:
        shape = "dag"
        order = list(labels)
        r.shuffle(order)
        p = r.choice([0.1, 0.3, 0.6])
        for i, u in enumerate(order):
            for v in order[:i]:
                if r.random() < p:
                    g[u].add(v)
    elif k < 0.35:
        shape = "ring"
        order = list(labels)
        r.shuffle(order)
        for a, b in zip(order, order[1:] + order[:1]):
            g[a].add(b)
        if r.random() < 0.5 and n > 1:       # break the ring: a chain
            shape = "chain"
            g[order[-1]].discard(order[0])
    elif k < 0.55:
        shape = "rings+dag"
        order = list(labels)
        r.shuffle(order)
        p = r.choice([0.1, 0.3])
        for i, u in enumerate(order):
            for v in order[:i]:
                if r.random() < p:
                    g[u].add(v)
        i = 0
        while i < n:
            ln = r.randint(1, 5)
            ring = order[i:i + ln]
            if r.random() < 0.5:
                for a, b in zip(ring, ring[1:] + ring[:1]):
                    if len(ring) > 1 or r.random() < 0.5:
                        g[a].add(b)
            i += ln
    else:
        p = r.choice([0.02, 0.05, 0.1, 0.2, 0.4, 0.8])
        for u in labels:
            for v in labels:
                if r.random() < p and (u != v or r.random() < 0.3):
                    g[u].add(v)
    # re-insert in a random key order so that dict iteration order varies
    keys = list(g)
    r.shuffle(keys)
    return {k2: g[k2] for k2 in keys}, shape


# ------------------------------------------------------------------------------
# field ordering
# ------------------------------------------------------------------------------

def coq_order_case(names, deps, params):
    """names: list of hashable; deps: list of iterables (in iteration order); params: list."""
    ids = {}

    def num(x):
        if x not in ids:
            ids[x] = len(ids) + 1
        return ids[x]
    fs = "[" + "; ".join("(%d%%N, [%s])" % (num(nm), "; ".join("%d%%N" % num(d) for d in ds))
                         for nm, ds in zip(names, deps)) + "]"
    ps = "[" + "; ".join("%d%%N" % num(p) for p in params) + "]"
    return "(%s, %s)" % (fs, ps)


def order_property_failure(n, order, mentions, wide=None):
    """The three clauses of the property on a concrete order.  mentions[i] = set of local field
    numbers field i mentions (wide[i]: including those in the field's type, used for the
    source-order clause).  Returns a message or None."""
    wide = wide or mentions
    if sorted(order) != list(range(n)):
        return "order %s is not a permutation of the %d fields" % (order, n)
    pos = {f: k for k, f in enumerate(order)}
    for i in range(n):
        for j in mentions[i]:
            if pos[j] >= pos[i]:
                return "field %d is placed at %d, not after field %d (at %d) which it mentions" % (i, pos[i], j, pos[j])
    if all(j < i for i in range(n) for j in wide[i]) and order != list(range(n)):
        return "source order is a valid dependency order but the result is %s" % order
    return None


def call_ordering(names, deps, params):
    """Run the implementation's ordering function on a synthetic structure."""
    from compiler.front_end import dependency_checker
    from compiler.util import ir_data

    def nd(x):
        return ir_data.NameDefinition(canonical_name=ir_data.CanonicalName(module_file=x[0], object_path=list(x[1:])))
    st = ir_data.Structure(field=[ir_data.Field(name=nd(x)) for x in names])
    td = ir_data.TypeDefinition(structure=st, runtime_parameter=[ir_data.RuntimeParameter(name=nd(p)) for p in params])
    dd = {nm: set() for nm in names}
    dd.update({p: set() for p in params})
    dd.update({nm: ds for nm, ds in zip(names, deps)})
    try:
        _with_limit(COMPILE_LIMIT_S, lambda: dependency_checker._find_dependency_ordering_for_fields_in_structure(
            td.structure, td, dd))
    except AssertionError:
        return "stuck"
    except _Alarm:
        return "timeout"
    except Exception as ex:    # noqa: any other exception is a finding of its own
        return "exception:" + type(ex).__name__
    return list(td.structure.fields_in_dependency_order)


def random_ordering_input(r):
    n = r.choice([0, 1, 2, 3, 4, 5, 6, 8, 10, 14])
    names = [("m", "S", "f%d" % i) for i in range(n)]
    params = [("m", "S", "p%d" % i) for i in range(r.choice([0, 0, 1, 2]))]
    mode = r.choice(["sorted", "acyclic", "acyclic", "acyclic", "cyclic", "foreign"])
    rank = list(range(n))
    if mode != "sorted":
        r.shuffle(rank)
    p = r.choice([0.1, 0.2, 0.4, 0.7])
    deps = []
    for i in range(n):
        s = set()
        for j in range(n):
            ok = rank[j] < rank[i] if mode in ("sorted", "acyclic", "foreign") else (i != j or r.random() < 0.2)
            if ok and r.random() < p:
                s.add(names[j])
        for q in params:
            if r.random() < 0.3:
                s.add(q)
        if mode == "foreign" and r.random() < 0.25:
            s.add(("m", "T", "g"))
        deps.append(s)
    return names, deps, params, mode


def ordering_module(names, deps, params):
    """A structure of virtual fields with exactly these local dependencies (for replay through the compiler)."""
    L = ['[$default byte_order: "LittleEndian"]']
    plist = "(%s)" % ", ".join("%s: UInt:8" % p[-1] for p in params) if params else ""
    L.append("struct Ss%s:" % plist)
    for nm, ds in zip(names, deps):
        L.append("  let %s = %s" % (nm[-1], " + ".join([d[-1] for d in sorted(ds)] + ["1"])))
    return "\n".join(L) + "\n"


class OrderCapture:
    """Wraps _find_dependency_ordering_for_fields_in_structure to record the exact inputs it is given."""

    def __init__(self):
        from compiler.front_end import dependency_checker
        self.dc = dependency_checker
        self.records = []

    def __enter__(self):
        orig = self.dc._find_dependency_ordering_for_fields_in_structure
        self.orig = orig
        records = self.records

        def _capturing_ordering(structure, type_definition, dependencies):
            from compiler.util import ir_util
            names = [ir_util.hashable_form_of_reference(f.name) for f in structure.field]
            params = [ir_util.hashable_form_of_reference(p.name) for p in type_definition.runtime_parameter]
            deps = [list(dependencies.get(nm, ())) for nm in names]
            rec = dict(names=names, params=params, deps=deps, structure=structure, result=None)
            records.append(rec)
            try:
                orig(structure, type_definition, dependencies)
            except AssertionError:
                rec["result"] = "stuck"
                raise
            rec["result"] = list(structure.fields_in_dependency_order)

        self.dc._find_dependency_ordering_for_fields_in_structure = _capturing_ordering
        return self

    def __exit__(self, *a):
        self.dc._find_dependency_ordering_for_fields_in_structure = self.orig


def independent_mentions(structure):
    """Field numbers mentioned by each field, found by an independent walk of the serialised IR (not
    through traverse_ir / _find_dependencies).  Returns (narrow, wide): narrow = location, existence
    condition and value; wide = additionally the field's type (arguments, array lengths), i.e. every
    field reference in the field outside attributes."""
    from compiler.util import ir_data_utils, ir_util
    names = [ir_util.hashable_form_of_reference(f.name) for f in structure.field]
    index = {nm: i for i, nm in enumerate(names)}
    narrow, wide = [], []
    for f in structure.field:
        d = ir_data_utils.IrDataSerializer(f).to_dict(exclude_none=True)

        def walk(x, found):
            if isinstance(x, dict):
                fr = x.get("field_reference")
                if isinstance(fr, dict) and fr.get("path"):
                    cn = fr["path"][0].get("canonical_name")
                    if cn:
                        found.add((cn.get("module_file", ""),) + tuple(cn.get("object_path", [])))
                for k, v in x.items():
                    if k != "attribute":
                        walk(v, found)
            elif isinstance(x, list):
                for v in x:
                    walk(v, found)
        a, b = set(), set()
        for part in ("location", "existence_condition", "read_transform"):
            if part in d:
                walk(d[part], a)
        walk(d, b)
        narrow.append({index[nm] for nm in a if nm in index})
        wide.append({index[nm] for nm in b if nm in index})
    return narrow, wide


# ------------------------------------------------------------------------------
# whole modules
# ------------------------------------------------------------------------------

def full_compile(files, main):
    """-> ('ok', ir) | ('errors', [first messages]) | ('exception', (type, function, text)) | ('timeout', None)"""
    try:
        ir, dbg, errs = _with_limit(COMPILE_LIMIT_S, lambda: compile_files(files, main))
    except _Alarm:
        return ("timeout", None)
    except RecursionError as ex:
        tb = traceback.extract_tb(ex.__traceback__)
        return ("recursion", (type(ex).__name__, tb[-1].name, str(ex)[:200]))
    except Exception as ex:
        tb = traceback.extract_tb(ex.__traceback__)
        in_pass = any(fr.filename.endswith("dependency_checker.py") for fr in tb)
        return ("exception", (type(ex).__name__, tb[-1].name, str(ex)[:200], in_pass))
    if errs:
        return ("errors", [[m.message for m in g] for g in errs])
    return ("ok", ir)


def outcome_text(o):
    if o[0] == "ok":
        return "accepted"
    if o[0] == "errors":
        return "rejected: " + "; ".join(g[0].split("\n")[0] for g in o[1][:3])
    return "%s %s" % (o[0], o[1])


def has_cycle_error(o, what):
    return o[0] == "errors" and any(g[0].startswith(what) for g in o[1])


CONST_ARG_KEY = "cycle-missed:constant-reference-in-type-argument"
CONST_ARG_LABELS = ("args:enum", "args:static")


def report_guarded(ctx, key, desc, replay):
    """A defect of the unchanged tree that is proposed in harness/known_proposed/deps_irser.json: it is
    re-derived on every run, reported under its key once that key is listed in KNOWN_FINDINGS.json,
    and only noted until then (a check must be silent on the unchanged tree)."""
    if any(k.get("key") == key for k in ctx.known):
        ctx.violation(key, desc, replay, found_input=True)
    else:
        ctx.count("candidate:" + key)
        if not ctx.extra.get("noted:" + key):
            ctx.extra["noted:" + key] = True
            ctx.note("candidate finding (not listed, not failing the check): " + desc)


def oracle_sccs(P):
    """Nontrivial SCCs of a graph over hashable node labels, as sorted lists of labels."""
    ids, rows = number_graph(P)
    inv = {v: k for k, v in ids.items()}
    return sorted(sorted(inv[x] for x in c) for c in independent_sccs(rows))


def oracle_order(names, local, params):
    """The greedy specification (Order.greedy_spec) on the graph by construction: repeatedly the first
    field in source order all of whose local dependencies are placed (or are parameters)."""
    placed, order, remaining = set(params), [], list(range(len(names)))
    while remaining:
        for k, i in enumerate(remaining):
            if local[i] <= placed:
                order.append(i)
                placed.add(names[i])
                del remaining[k]
                break
        else:
            return None
    return order


def construction_oracle(ctx, dm, G, files, main, label):
    """Compare the compiler's dependency map with the graph by construction; returns the graph the
    expected verdict is taken from (None when the comparison itself is a violation)."""
    P = dm.planted_graph()
    labs = {}
    for (u, v, lab) in dm.edge_labels():
        labs.setdefault((u, v), set()).add(lab)
    weak = {e for e, ls in labs.items() if ls <= set(CONST_ARG_LABELS)}
    P2 = {u: {v for v in vs if (u, v) not in weak} for u, vs in P.items()}
    replay = dict(kind="modules", files=files, main=main)
    absent = [u for u in P if u not in G]
    if absent:
        ctx.violation("dependency-node-missing", "%s written in %s is not a node of _find_dependencies' graph" % (absent[0], label),
                      replay, found_input=True)
        return None
    if all(G[u] == P[u] for u in P):
        return P
    if all(G[u] == P2[u] for u in P):
        # enum values / Type.field constants inside arguments of parameterised types are not seen as dependencies
        u, v = sorted(weak & {(a, b) for a in P for b in P[a]})[0]
        if oracle_sccs(P) != oracle_sccs(P2):
            report_guarded(ctx, CONST_ARG_KEY,
                           "a dependency cycle through a constant reference inside a type argument (%s -> %s in %s) is not reported: "
                           "cycles by construction %s, without those edges %s" % (u[1:], v[1:], label, [[x[1:] for x in c] for c in oracle_sccs(P)],
                                                                                   [[x[1:] for x in c] for c in oracle_sccs(P2)]),
                           dict(replay, outcome=outcome_text(full_compile(files, main))))
        else:
            ctx.count("const-ref-in-type-argument-not-an-edge")
        return P2
    for u in P:
        if G[u] != P[u]:
            missing, extra = sorted(P[u] - G[u]), sorted(G[u] - P[u])
            kinds = sorted({l for v in missing for l in labs.get((u, v), ())})
            ctx.violation("dependency-extraction-differs",
                          "_find_dependencies on %s: %s mentions %s (edge kinds %s) which are not in its dependency set%s"
                          % (label, u[1:], [v[1:] for v in missing], kinds, "; extra: %s" % [v[1:] for v in extra] if extra else ""),
                          dict(replay, node=list(u), missing=[list(v) for v in missing], extra=[list(v) for v in extra], edge_kinds=kinds),
                          found_input=True)
            break
    return P


def module_cases(ctx, files, main, label, dm, graph_cases, order_cases):
    """One generated/corpus module set: verdict, components, order, termination."""
    from compiler.front_end import dependency_checker
    try:
        ir, dbg, errs = _with_limit(COMPILE_LIMIT_S, lambda: compile_files(files, main, stop="find_dependency_cycles"))
    except _Alarm:
        ctx.violation("compile-timeout", "front end did not finish within %ds on %s (before the dependency pass)"
                      % (COMPILE_LIMIT_S, label), dict(kind="modules", files=files, main=main), found_input=True)
        return
    except Exception as ex:
        ctx.count("early-crash:" + type(ex).__name__)
        # a crash BEFORE the dependency pass must not hide what the user sees: a pass that follows references
        # (aliases, member accesses) and runs ahead of cycle detection does not terminate on a cyclic module
        o = full_compile(files, main)
        if o[0] == "recursion":
            ctx.violation("recursion-error:" + o[1][1], "compilation of %s ends in RecursionError in %s (before the dependency pass ran)"
                          % (label, o[1][1]), dict(kind="modules", files=files, main=main, outcome=outcome_text(o)), found_input=True)
        elif o[0] == "timeout":
            ctx.violation("compile-timeout", "compilation of %s did not finish within %ds" % (label, COMPILE_LIMIT_S),
                          dict(kind="modules", files=files, main=main), found_input=True)
        return
    if errs:
        ctx.count("rejected-before-dependency-pass")
        return
    G, derrs = dependency_checker._find_dependencies(ir)
    M = dependency_checker._find_module_import_dependencies(ir)
    if derrs:
        ctx.count("keyword-in-wrong-context")   # $next etc.: the pass returns these errors before looking for cycles
    # the graph by construction decides the expected verdict for generated modules
    oracle = None
    if dm is not None and not derrs:
        oracle = construction_oracle(ctx, dm, G, files, main, label)
    gc_obj = graph_case(ctx, G, label + ":objects", dict(kind="modules", files=files, main=main, graph="objects"))
    gc_mod = graph_case(ctx, M, label + ":imports", dict(kind="modules", files=files, main=main, graph="imports"))
    for c in (gc_obj, gc_mod):
        if c is not None and c[1] is not None:
            graph_cases.append(c)
        if c is not None and not c[2]["closed"]:
            ctx.violation("dependency-graph-not-closed",
                          "a dependency of %s is not itself a node of the graph (_find_cycles indexes graph[node])" % label,
                          dict(kind="modules", files=files, main=main, implementation=c[2]["py"]), found_input=True)
    if oracle is not None:
        exp_comps = oracle_sccs(oracle)                       # lists of node labels, by construction
    else:
        ids_g, _rows_g = number_graph(G)
        inv_g = {v: k for k, v in ids_g.items()}
        exp_comps = sorted(sorted(inv_g[x] for x in c) for c in ((gc_obj[2].get("ind") if gc_obj else None) or []))
    obj_cyclic = bool(exp_comps)
    mod_cyclic = bool(gc_mod and gc_mod[2].get("ind"))
    if dm is not None and oracle is not None:
        cyc_nodes = {x for c in exp_comps for x in c}
        for (u, v, lab) in dm.edge_labels():
            on_cycle = u in cyc_nodes and v in cyc_nodes and any(u in c and v in c for c in exp_comps)
            ctx.count("edge:%s:%s" % (lab, "on-cycle" if on_cycle else "cyclic-module" if exp_comps else "acyclic-module"))
    # verdict of the pass itself
    perrs = dependency_checker.find_dependency_cycles(ir)
    said_obj = [g for g in perrs if g[0].message.startswith("Dependency cycle")]
    said_mod = [g for g in perrs if g[0].message.startswith("Import dependency cycle")]
    if not derrs:
        if bool(said_obj) != obj_cyclic or len(said_obj) != len(exp_comps):
            ctx.violation("cycle-missed" if len(said_obj) < len(exp_comps) else "false-cycle",
                          "find_dependency_cycles reports %d object cycles on %s; strongly connected components %s: %s"
                          % (len(said_obj), label, "by construction" if oracle is not None else "of the extracted graph",
                             [[x[1:] for x in c] for c in exp_comps]),
                          dict(kind="modules", files=files, main=main), found_input=True)
        else:
            # each reported group names exactly the members of one component
            comps_named = sorted(sorted(x[-1] for x in c) for c in exp_comps)
            said_named = sorted(sorted([g[0].message.split("\n", 1)[1]] + [m.message for m in g[1:]]) for g in said_obj)
            if comps_named != said_named:
                ctx.violation("cycle-wrong-component", "reported cycle members %s differ from the strongly connected components %s on %s"
                              % (said_named, comps_named, label), dict(kind="modules", files=files, main=main), found_input=True)
    if bool(said_mod) != mod_cyclic:
        ctx.violation("import-cycle-missed" if mod_cyclic else "false-import-cycle",
                      "find_dependency_cycles reports %d import cycles on %s; independent computation: %s"
                      % (len(said_mod), label, gc_mod[2].get("ind") if gc_mod else "?"),
                      dict(kind="modules", files=files, main=main), found_input=True)
    cyclic = obj_cyclic or mod_cyclic
    ctx.count("module:" + ("cyclic" if cyclic else "acyclic"))
    # the whole pipeline: verdict visible to the user, and termination
    t0 = time.time()
    o = full_compile(files, main)
    ctx.extra["max_compile_s"] = max(ctx.extra.get("max_compile_s", 0), round(time.time() - t0, 2))
    if o[0] == "timeout":
        ctx.violation("compile-timeout", "compilation of %s did not finish within %ds (graph %s)"
                      % (label, COMPILE_LIMIT_S, "cyclic" if cyclic else "acyclic"),
                      dict(kind="modules", files=files, main=main), found_input=True)
    elif o[0] == "recursion":
        ctx.violation("recursion-error:" + o[1][1], "compilation of %s ends in RecursionError in %s (graph %s)"
                      % (label, o[1][1], "cyclic" if cyclic else "acyclic"),
                      dict(kind="modules", files=files, main=main, outcome=outcome_text(o)), found_input=True)
    elif cyclic and not derrs:
        if not (has_cycle_error(o, "Dependency cycle") or has_cycle_error(o, "Import dependency cycle")):
            ctx.violation("cycle-missed", "%s has a dependency cycle but the compiler's result is: %s" % (label, outcome_text(o)),
                          dict(kind="modules", files=files, main=main, outcome=outcome_text(o)), found_input=True)
    else:
        if has_cycle_error(o, "Dependency cycle") or has_cycle_error(o, "Import dependency cycle"):
            ctx.violation("false-cycle", "%s has no dependency cycle but the compiler says: %s" % (label, outcome_text(o)),
                          dict(kind="modules", files=files, main=main, outcome=outcome_text(o)), found_input=True)
        if o[0] == "exception" and o[1][3]:
            ctx.violation("dependency-pass-exception:%s:%s" % (o[1][0], o[1][1]),
                          "the dependency pass raised %s in %s on %s" % (o[1][0], o[1][1], label),
                          dict(kind="modules", files=files, main=main, outcome=outcome_text(o)), found_input=True)
        elif o[0] == "exception":
            ctx.count("later-pass-crash:%s:%s" % (o[1][0], o[1][1]))
        elif o[0] == "errors":
            ctx.count("rejected-later")
        else:
            ctx.count("accepted")
    ctx.case(("mod", label, sorted(files.items())), nontrivial=True,
             sample=dict(label=label, shape=(None if dm is None else dm.shape), nodes=len(G), edges=sum(len(v) for v in G.values()),
                         cyclic=cyclic, compiler=outcome_text(o)[:120]))
    if cyclic or derrs:
        return
    # ordering of every structure of the accepted (as far as this pass is concerned) module
    with OrderCapture() as cap:
        try:
            # the whole pipeline (not "up to the pass after set_dependency_order"): the capture must not depend on
            # the position of the pass in glue.process_ir
            ir2, dbg, errs2 = _with_limit(COMPILE_LIMIT_S, lambda: compile_files(files, main, stop=None))
        except _Alarm:
            ctx.violation("compile-timeout", "set_dependency_order did not finish on %s" % label,
                          dict(kind="modules", files=files, main=main), found_input=True)
            return
        except Exception as ex:     # recorded per structure below (result None / "stuck")
            ir2, errs2 = None, None
    for rec in cap.records:
        n = len(rec["names"])
        inp = coq_order_case(rec["names"], rec["deps"], rec["params"])
        if rec["result"] == "stuck" or rec["result"] is None:
            exp = "Stuck [] []"
            ctx.violation("order-assertion", "the ordering loop cannot place every field of %s in %s" % (rec["names"][:1], label),
                          dict(kind="modules", files=files, main=main), found_input=True)
        else:
            exp = "Done [%s]" % "; ".join(str(x) for x in rec["result"])
            narrow, wide = independent_mentions(rec["structure"])
            msg = order_property_failure(n, rec["result"], wide, wide)
            if msg:
                ctx.violation("order-wrong", "fields_in_dependency_order of %s in %s: %s" % (rec["names"][0][:-1], label, msg),
                              dict(kind="modules", files=files, main=main, structure=list(rec["names"][0][:-1]),
                                   order=rec["result"]), found_input=True)
        moved = rec["result"] != list(range(n)) if isinstance(rec["result"], list) else True
        ctx.count("structure:" + ("reordered" if moved else "source-order"))
        order_cases.append((inp, exp, dict(label=label, names=[list(x) for x in rec["names"]], files=files, main=main,
                                           n=n, moved=moved)))
    # the order each generated structure must have, from the graph by construction
    if dm is not None and oracle is not None:
        by_struct = {}
        for rec in cap.records:
            if rec["names"]:
                by_struct[tuple(rec["names"][0][:-1])] = rec
        for (skey, names, local, params) in dm.planted_structs():
            rec = by_struct.get(skey)
            want = oracle_order(names, local, params)
            if rec is None or not isinstance(rec["result"], list) or want is None:
                ctx.violation("order-missing", "no dependency order was produced for %s in %s (expected %s)" % (skey, label, want),
                              dict(kind="modules", files=files, main=main, structure=list(skey)), found_input=True)
                continue
            pos = {nm[-1]: i for i, nm in enumerate(rec["names"])}
            src = [pos.get(nm) for nm in names]
            got_names = [rec["names"][i][-1] for i in rec["result"] if rec["names"][i][-1] in set(names)]
            want_names = [names[i] for i in want]
            ctx.count("order-oracle:" + ("moved" if want != list(range(len(names))) else "source-order"))
            if None in src or src != sorted(src) or got_names != want_names:
                ctx.violation("order-differs-from-construction",
                              "fields_in_dependency_order of %s in %s is %s; the dependencies written in the text require %s"
                              % (skey, label, got_names, want_names),
                              dict(kind="modules", files=files, main=main, structure=list(skey), got=got_names, expected=want_names),
                              found_input=True)


# ------------------------------------------------------------------------------

RECURSION_KEY = "recursion-limit:_find_cycles.strong_connect"


def deep_chain_probe(ctx):
    """A structure whose fields are declared in reverse dependency order: strong_connect recurses once per
    field, so ~1000 fields exhaust the interpreter's recursion limit although the module is acyclic.  The
    model's fuel is |graph|+1, so this is outside the correspondence; it is re-derived here on every run and
    reported under RECURSION_KEY when that key is listed in KNOWN_FINDINGS.json (otherwise only noted)."""
    n = 1100
    L = ['[$default byte_order: "LittleEndian"]', "struct Foo:"]
    for i in range(n - 1, 0, -1):
        L.append("  if v%d == 0:\n    %d [+1]  UInt  v%d" % (i - 1, i, i))
    L.append("  0 [+1]  UInt  v0")
    text = "\n".join(L) + "\n"
    o = full_compile({"deep.emb": text}, "deep.emb")
    ctx.extra["deep_chain_probe"] = outcome_text(o)[:200]
    if o[0] == "recursion" and o[1][1] == "strong_connect":
        desc = ("an acyclic structure of %d fields declared in reverse dependency order ends in an uncaught RecursionError "
                "in dependency_checker._find_cycles.strong_connect (900 fields are accepted)" % n)
        if any(k.get("key") == RECURSION_KEY for k in ctx.known):
            ctx.violation(RECURSION_KEY, desc, dict(kind="modules", main="deep.emb",
                                                    generator="fields v1099..v1, each `if v(i-1) == 0: i [+1] UInt vi`, then `0 [+1] UInt v0`",
                                                    outcome=outcome_text(o)), found_input=True)
        else:
            ctx.note("candidate finding (not listed, not failing the check): " + desc)
            ctx.count("candidate:" + RECURSION_KEY)
    elif o[0] in ("timeout",):
        ctx.note("deep chain probe timed out")


def run_item(ctx, item, label, graph_cases, order_cases):
    """One corpus / replay item: {"kind": "graph"|"modules"|"ordering", ...}."""
    if item.get("kind") == "ordering" and "names" not in item and isinstance(item.get("detail"), dict):
        item = item["detail"].get("replay") or item
    if item["kind"] == "graph":
        g = {k: set(v) for k, v in item["graph"]}
        c = graph_case(ctx, g, label, dict(kind="corpus", item=label))
        if c and c[1]:
            graph_cases.append(c)
            ctx.case(("g", c[0]), nontrivial=True, sample=dict(graph=c[2]["rows"][:8], implementation=c[2]["py"]))
    elif item["kind"] == "modules":
        module_cases(ctx, item["files"], item["main"], label, None, graph_cases, order_cases)
    elif item["kind"] == "ordering" and "names" in item:
        names = [tuple(x) for x in item["names"]]
        deps = [[tuple(y) for y in ds] for ds in item["deps"]]
        params = [tuple(x) for x in item["params"]]
        add_ordering_case(ctx, names, deps, params, "corpus", order_cases)
    else:
        ctx.note("item %s of unknown kind %r ignored" % (label, item.get("kind")))


# Seed-independent family: cycles (and acyclic controls) that run through MEMBER ACCESSES on virtual alias fields.
# A pass that follows aliases (symbol_resolver.resolve_field_references) only terminates on them because cycle
# detection has rejected the module before it runs.
_ALIAS_HEAD = ('[$default byte_order: "LittleEndian"]\nstruct Pair:\n  0 [+1]  UInt  x\n  1 [+1]  UInt  y\n'
               "struct Box:\n  0 [+2]  Pair  p\n  2 [+2]  Pair  q\n")
ALIAS_MEMBER_FAMILY = [
    ("mutual-member", "struct Top:\n  0 [+4]  Box  body\n  let head = tail.x\n  let tail = head.y\n"),
    ("self-member", "struct Top:\n  0 [+4]  Box  body\n  let a = a.x\n"),
    ("member-then-plain-aliases", "struct Top:\n  0 [+4]  Box  body\n  let a = b.x\n  let b = c\n  let c = a\n"),
    ("two-level-member", "struct Top:\n  0 [+4]  Box  body\n  let a = b.p.x\n  let b = c\n  let c = a\n"),
    ("member-in-condition", "struct Top:\n  0 [+4]  Box  body\n  let a = b.p\n  if a.x == 1:\n    let b = a\n"),
    ("member-in-location", "struct Top:\n  0 [+4]  Box  body\n  let a = b\n  a.p.x [+4]  Box  b\n"),
    ("three-struct-aliases", "struct Top:\n  0 [+4]  Box  body\n  let a = c.p\n  let b = a\n  let c = b\n"),
    # acyclic controls: the same shapes with the back edge removed
    ("ok:alias-then-member", "struct Top:\n  0 [+4]  Box  body\n  let a = body\n  let b = a.p\n  let c = b.x\n  let d = a.q.y + c\n"),
    ("ok:member-chain-reversed", "struct Top:\n  let d = c.x\n  let c = b.p\n  let b = a\n  let a = body\n  0 [+4]  Box  body\n"),
    ("ok:member-in-location", "struct Top:\n  0 [+4]  Box  body\n  let a = body\n  a.p.x [+4]  Box  b\n  let e = b.q\n  let f = e.y\n"),
]


def alias_member_family(ctx, graph_cases, order_cases):
    for name, body in ALIAS_MEMBER_FAMILY:
        module_cases(ctx, {"m.emb": _ALIAS_HEAD + body}, "m.emb", "alias-member:" + name, None, graph_cases, order_cases)
        ctx.count("alias-member-family")


CONST_ARG_PROBE = ('[$default byte_order: "LittleEndian"]\n'
                   "struct Pk(n: UInt:8):\n  0 [+1]  UInt  v\n"
                   "struct Sa:\n  let g = a0.v\n  0 [+1]  Pk((Ea.VA == Ea.VA ? 1 : 0))  a0\n"
                   "enum Ea:\n  VA = Sa.g\n")


def const_arg_probe(ctx):
    """a0 -> Ea.VA (inside a type argument) -> Sa.g -> a0: a cycle by construction."""
    o = full_compile({"q.emb": CONST_ARG_PROBE}, "q.emb")
    ctx.extra["const_arg_probe"] = outcome_text(o)[:200]
    if not has_cycle_error(o, "Dependency cycle"):
        report_guarded(ctx, CONST_ARG_KEY,
                       "a dependency cycle through a constant reference inside a type argument (a0 -> Ea.VA -> Sa.g -> a0) is not "
                       "reported; the compiler's result is: " + outcome_text(o)[:200],
                       dict(kind="modules", files={"q.emb": CONST_ARG_PROBE}, main="q.emb", outcome=outcome_text(o)))


def replay_corpus(ctx, graph_cases, order_cases):
    d = os.path.join(fw.VERIF, "corpus", "C15")
    n = 0
    for p in sorted(glob.glob(os.path.join(d, "*.json"))):
        item = json.load(open(p))
        n += 1
        run_item(ctx, item, "corpus:" + os.path.basename(p), graph_cases, order_cases)
    ctx.count("corpus-items", n)


def add_ordering_case(ctx, names, deps, params, mode, order_cases):
    res = call_ordering(names, deps, params)
    n = len(names)
    index = {nm: i for i, nm in enumerate(names)}
    mentions = [{index[d] for d in ds if d in index} for ds in deps]
    foreign = any(d not in index and d not in params for ds in deps for d in ds)
    rows = [(i, sorted(m)) for i, m in enumerate(mentions)]
    local_cyclic = bool(independent_sccs(rows)) if n else False
    replay = dict(kind="ordering", names=[list(x) for x in names], deps=[[list(y) for y in ds] for ds in deps],
                  params=[list(x) for x in params], implementation=res)
    if isinstance(res, list):
        exp = "Done [%s]" % "; ".join(str(x) for x in res)
        msg = order_property_failure(n, res, mentions, None)
        if msg or foreign or local_cyclic:
            msg = msg or "an order was produced although a dependency can never be satisfied"
            if not foreign and not local_cyclic:
                text = ordering_module(names, deps, params)
                replay["module"] = text
                replay["module_result"] = outcome_text(full_compile({"o.emb": text}, "o.emb"))
            ctx.violation("order-wrong", "ordering loop on %d fields (%s): %s" % (n, mode, msg), replay, found_input=True)
    elif res == "stuck":
        exp = "Stuck [] []"
        if not foreign and not local_cyclic:
            text = ordering_module(names, deps, params)
            replay["module"] = text
            replay["module_result"] = outcome_text(full_compile({"o.emb": text}, "o.emb"))
            ctx.violation("order-assertion", "ordering loop fails its assertion on a locally acyclic structure of %d fields" % n,
                          replay, found_input=True)
    else:
        text = ordering_module(names, deps, params)
        replay["module"] = text
        if not foreign and not local_cyclic:
            replay["module_result"] = outcome_text(full_compile({"o.emb": text}, "o.emb"))
        ctx.violation("order-" + res, "ordering loop ended with %s on %d fields (%s)" % (res, n, mode), replay, found_input=True)
        return
    ctx.count("ordering:" + mode + (":stuck" if res == "stuck" else ""))
    ctx.case(("ord", names, [sorted(d) for d in deps], params), nontrivial=n >= 2,
             sample=dict(ordering_fields=n, mode=mode, implementation=res))
    order_cases.append((coq_order_case(names, deps, params), exp, dict(label="direct:" + mode, replay=replay, n=n)))


def run(ctx):
    _setup_bytecode_cache()
    ctx.rule = ("(a) random directed graphs (DAGs, rings, chains, DAG+several rings, self loops, dense/sparse random, 1..60 nodes, "
                "shuffled labels and dict order) given to _find_cycles directly; (b) random field lists with dependency sets "
                "(source-order-valid, acyclic in a shuffled order, cyclic, with a foreign name) given to the ordering function; "
                "(c) generated multi-file modules (harness/gen_deps.py): every edge kind — existence condition, location start and size, "
                "array length, arguments of parameterised types (field, expression, member b.v), virtual fields and aliases, $next, enum "
                "values, static Type.field references across types and imported modules, parameters; [requires] attributes as non-edges — "
                "in acyclic, source-ordered, self-loop, long-cycle, multi-SCC, dense and import-cycle shapes; the expected cycle verdict, "
                "components and field order come from the dependency graph BY CONSTRUCTION (the text that was written), and "
                "_find_dependencies' map is compared with it edge by edge; plus every /repo/testdata/*.emb through the real front end.  "
                "A case is non-trivial when it has at least one edge / two fields; distinct by content")
    ctx.trusted = ["Coq 8.16.1 kernel, vm_compute", "harness/props/c15.py (numbering of nodes, capture of the ordering pass's arguments, independent SCC by transitive closure)",
                   "harness/gen_deps.py", "CPython 3.12 running /repo's front end"]
    ctx.assumptions = ["'the fields a field mentions' = every field reference inside the field except in attributes: location, existence condition, value, and also the arguments / array length of its type (testdata/parameters.emb AxisPair is reordered because `Axis(axis_type_a)` mentions a later field)",
                       "node labels are compared by identity of their hashable form (module file, object path)",
                       "Python's recursion limit is not modelled: the mirror has fuel |graph|+1, the interpreter about 1000 frames"]
    ctx.audit()
    ctx.check_theorems("EmbossV.Deps.Properties_C15", "Deps/Properties_C15.v", expect_min=15)

    phases = ctx.extra.setdefault("phase_s", {})
    t_ph = [time.time()]

    def phase(name):
        phases[name] = round(time.time() - t_ph[0], 1)
        t_ph[0] = time.time()
    phase("coq-build")
    graph_cases, order_cases = [], []
    replaying = getattr(ctx, "replay_path", None)
    if replaying:
        doc = json.load(open(replaying))
        run_item(ctx, doc.get("replay", doc), "replay:" + os.path.basename(replaying), graph_cases, order_cases)
    else:
        replay_corpus(ctx, graph_cases, order_cases)

    # (a) _find_cycles directly
    n_graphs = 0 if replaying else 20000 if ctx.thorough() else 2000
    for i in range(n_graphs):
        g, shape = random_graph(ctx.rng)
        c = graph_case(ctx, g, "random-graph:%s:%d" % (shape, i), dict(kind="random-graph", index=i))
        if c is None or c[1] is None:
            continue
        ctx.count("graph:" + shape)
        ctx.count("graph-verdict:" + ("cyclic" if c[2]["py"] else "acyclic"))
        ctx.case(("g", c[0]), nontrivial=any(r for _, r in c[2]["rows"]),
                 sample=dict(graph=c[2]["rows"][:8], implementation=c[2]["py"]))
        graph_cases.append(c)

    phase("random-graphs")
    # (b) the ordering function directly
    n_ord = 0 if replaying else 12000 if ctx.thorough() else 1500
    for i in range(n_ord):
        names, deps, params, mode = random_ordering_input(ctx.rng)
        add_ordering_case(ctx, names, deps, params, mode, order_cases)

    phase("random-orderings")
    # (c) modules
    n_mod = 0 if replaying else 1500 if ctx.thorough() else 160
    for i in range(n_mod):
        dm = gen_deps.DepsModules(ctx.rng)
        files = dm.file_map()
        ctx.count("shape:" + dm.shape)
        module_cases(ctx, files, "m0.emb", "gen:%d:%s" % (i, dm.shape), dm, graph_cases, order_cases)
    phase("generated-modules")
    for p in ([] if replaying else sorted(glob.glob(os.path.join(fw.REPO, "testdata", "*.emb")))):
        rel = os.path.relpath(p, fw.REPO)
        module_cases(ctx, {rel: open(p).read()}, rel, "testdata:" + rel, None, graph_cases, order_cases)
    phase("testdata-modules")
    if not replaying:
        deep_chain_probe(ctx)
        const_arg_probe(ctx)
        alias_member_family(ctx, graph_cases, order_cases)
    phase("deep-chain-probe")
    # model side
    # both batches are evaluated by Coq concurrently (each is itself sharded over processes)
    import threading
    runner_g = fw.CoqCases(ctx, "graphs", HEADER, "run_graph", "run_graph_eqb", "graph",
                           "(bool * bool * tres (list (list N)))", shard=500)
    runner_o = fw.CoqCases(ctx, "orders", HEADER, "run_order", "ores_eqb", "(graph * list N)", "ores", shard=500)
    results = {}

    def _run(name, runner, cases):
        try:
            results[name] = runner.run(cases)
        except Exception as ex:      # re-raised in the main thread below
            results[name] = ex
    th = [threading.Thread(target=_run, args=("g", runner_g, graph_cases)),
          threading.Thread(target=_run, args=("o", runner_o, order_cases))]
    for t in th:
        t.start()
    for t in th:
        t.join()
    for v in results.values():
        if isinstance(v, Exception):
            raise v
    bad = results["g"]
    ctx.obligation("correspondence: %d graphs — _find_cycles = Tarjan mirror (components) and verdict = acyclic_dec"
                   % len(graph_cases), not bad)
    for idx, out in bad[:5]:
        a, b, obj = graph_cases[idx]
        # the implementation already agreed with the independent SCC computation (otherwise a violation
        # with the input was recorded above), so this is a disagreement of the model
        ctx.violation("cycle-correspondence", "Tarjan mirror / acyclic_dec and _find_cycles disagree on %s" % obj["label"],
                      dict(kind="graph", correspondence="Deps.Exec.run_graph vs dependency_checker._find_cycles",
                           graph=[[k, r] for k, r in obj["rows"]], implementation=obj["py"], independent_sccs=obj["ind"],
                           model_outputs=out[:2000]), found_input=False)
    bad = results["o"]
    ctx.obligation("correspondence: %d field lists — implementation's order = Order.dep_order" % len(order_cases), not bad)
    for idx, out in bad[:5]:
        a, b, obj = order_cases[idx]
        ctx.violation("order-correspondence", "Order.dep_order and the ordering loop disagree (%s)" % obj["label"],
                      dict(kind="ordering", correspondence="Deps.Exec.run_order vs _find_dependency_ordering_for_fields_in_structure",
                           input=a, implementation=b, detail={k: v for k, v in obj.items() if k in ("replay", "names", "files", "main")},
                           model_outputs=out[:2000]), found_input=False)
    phase("coq-cases")
    ctx.extra["graphs_compared"] = len(graph_cases)
    ctx.extra["orderings_compared"] = len(order_cases)
