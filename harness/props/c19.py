"""C19 — enum names, values and C++ representation match the definition."""
import glob
import json
import os
import re
import time

from harness import fw, cpp_build, gen_enum

META = {
    "technique": "Coq proof about a Gallina mirror of the enum code generator (name_conversion, enum_case parsing, "
                 "_cpp_integer_type_for_enum, _generate_enum_definition's three lookup tables, attribute inference and "
                 "range check, EnumView write/read) + differential correspondence: generated enums -> real embossc -> "
                 "g++ driver observations, compared with the model inside Coq (vm_compute)",
    "level_text": "Machine-checked theorems (Coq 8.16, no axioms), for every enum declaration of any size: the chosen "
                  "underlying type has the declared signedness, is the smallest of int8/16/32/64 holding maximum_bits bits "
                  "and holds every accepted value; the emitted enumerators are exactly one per declared name per requested "
                  "enum_case spelling with the declared value; TryToGetEnumFromName maps exactly the declared Emboss names "
                  "to their values; TryToGetNameFromEnum returns the first declared name of a value and none for undeclared "
                  "values; EnumIsKnown holds exactly for declared values; the emitted switches have no duplicate labels; "
                  "snake_to_camel is characterised and is injective on names whose underscores are each followed by a "
                  "letter. Enumerator distinctness is refuted in general (witness AB_1/AB1, finding F5) and proved under "
                  "that guard; 'fields accept every in-range value' is refuted for signed enums in fields narrower than "
                  "their bit block (finding F1) and proved for unsigned enums and full-width signed fields. The model is "
                  "tied to /repo on every run by compiling generated modules with the working tree's embossc and g++ and "
                  "diffing every observation with the model.",
    "level_note": "Trusted: Coq kernel + vm_compute; harness/gen_enum.py + harness/props/c19.py (generator, C++ driver "
                  "text, observation parsing); g++ as the oracle for what the emitted C++ means. Modelled, not verified: "
                  "the Python and C++ sources themselves. 8-bit characters only (Emboss names are ASCII). operator<< of an "
                  "unnamed value is compared as 'the value streamed as the underlying type' (for 8-bit enums that is a "
                  "character, counted in the histogram).",
}

HEADER = "Require Import EmbossV.Enum.Model EmbossV.Enum.Exec.\nOpen Scope Z_scope.\n"

KEY_COLLISION = "cpp-enum-case-collision"          # F5
KEY_NARROW_WRITE = "enum-signed-narrow-write"      # F1
KEY_NARROW_READ = "enum-signed-narrow-read"        # F1


# ------------------------------------------------------------------------------
# small helpers
# ------------------------------------------------------------------------------

def z(n):
    return fw.coq_Z(n)


def cstr(s):
    return fw.coq_string(s)


def copt(x, f):
    return "None" if x is None else "(Some %s)" % f(x)


def cpp_int_literal(v, signed):
    if signed:
        if v == -2**63:
            return "(-9223372036854775807LL - 1)"
        return "%dLL" % v
    return "%dULL" % v


def fast_embossc_env():
    """Let python cache the byte code of the 2.6 MB generated parser outside /repo (the sandbox sets
    PYTHONDONTWRITEBYTECODE, which makes every embossc process spend seconds recompiling it)."""
    os.environ.pop("PYTHONDONTWRITEBYTECODE", None)
    os.environ["PYTHONPYCACHEPREFIX"] = os.path.join(fw.BUILD, "pycache")
    fw.sh([fw.PY, "-c", "import compiler.front_end.generated.cached_parser"], env=fw.repo_env(), timeout=300)


def forbidden_names():
    """Reserved words of the working tree plus macros of the C++ environment (those belong to C07)."""
    from compiler.front_end import constraints
    from harness import gen_names
    return set(constraints.get_reserved_word_list()) | gen_names.system_macros()


# ------------------------------------------------------------------------------
# (i) direct ties of the pure string functions
# ------------------------------------------------------------------------------

def convert_cases(ctx, n):
    from compiler.util import name_conversion
    r = ctx.rng
    cases = []
    alph_shouty = "ABCXYZ019__"
    alph_any = "ABCXYZabcxyz0189__ -.$"
    ng = gen_enum.NameGen(r)
    for i in range(n):
        k = r.random()
        if k < 0.4:
            s = ng.shouty(set())
        elif k < 0.6:
            s = ng.snake(set())
        elif k < 0.8:
            s = "".join(r.choice(alph_shouty) for _ in range(r.randint(0, 10)))
        else:
            s = "".join(r.choice(alph_any) for _ in range(r.randint(0, 12)))
        if k >= 0.97:
            s = "".join(chr(r.randint(1, 127)) for _ in range(r.randint(0, 6)))
        camel = name_conversion.convert_case("SHOUTY_CASE", "CamelCase", s)
        kcamel = name_conversion.convert_case("SHOUTY_CASE", "kCamelCase", s)
        assert name_conversion.convert_case("snake_case", "CamelCase", s) == camel
        assert name_conversion.convert_case("SHOUTY_CASE", "SHOUTY_CASE", s) == s
        cases.append((fw.coq_codes(s), "(%s, %s)" % (fw.coq_codes(camel), fw.coq_codes(kcamel)), s))
        ctx.count("convert:" + ("underscore-digit" if re.search(r"_\d", s) else "double-underscore" if "__" in s else
                                "trailing-underscore" if s.endswith("_") else "plain"))
    return cases


def split_cases(ctx, n):
    from compiler.back_end.cpp import header_generator as hg
    from compiler.util import ir_data
    r = ctx.rng
    cases = []
    pieces = ["SHOUTY_CASE", "kCamelCase", "snake_case", "CamelCase", "kCamelCase ", " SHOUTY_CASE", "", " ", "\t",
              "k", "SHOUTY", "shouty_case", "kCamelCase\x0b", "\x1ckCamelCase", "x y"]
    for i in range(n):
        k = r.random()
        if k < 0.3:
            s = r.choice(gen_enum.CASE_ATTRS_VALID + gen_enum.CASE_ATTRS_INVALID)
        elif k < 0.85:
            s = ",".join(r.choice(pieces) for _ in range(r.randint(1, 4)))
            if r.random() < 0.3:
                s += r.choice([",", ", ", " ,", ",,", " "])
        else:
            s = "".join(r.choice("kCamelCase,SHOUTY_ \t") for _ in range(r.randint(0, 14)))
        got = hg._split_enum_case_values(s)
        attr = ir_data.Attribute(name=ir_data.Word(text="enum_case"), back_end=ir_data.Word(text="cpp"),
                                 value=ir_data.AttributeValue(string_constant=ir_data.String(text=s)))
        loc = _some_location()
        attr.value.string_constant.source_location = loc
        errors = []
        hg._verify_enum_case_attribute(attr, "m.emb", errors)
        codes = []
        for e in errors:
            msg = e[0].message
            codes.append(0 if msg.startswith("Empty enum case") else 1 if msg.startswith("Duplicate enum case")
                         else 2 if msg.startswith("Unsupported enum case") else 9)
        exp = "(%s, [%s]%%N)" % (fw.coq_list([fw.coq_codes(p) for p in got]), ";".join(str(c) for c in codes))
        cases.append((fw.coq_codes(s), exp, s))
        ctx.count("enum_case:" + ("ok" if not errors else "error"))
    return cases


def _some_location():
    from compiler.util import parser_types
    return parser_types.SourceLocation((1, 1), (1, 2))


# ------------------------------------------------------------------------------
# (ii) modules: model input, driver, observations
# ------------------------------------------------------------------------------

def module_dict(m):
    """Serialisable description of a generated module (the replay format)."""
    enums = []
    for e in m.enums:
        enums.append(dict(cpp_name=e.cpp_name(), signed=e.signed, bits=e.bits,
                          values=[dict(name=v["name"], value=v["value"], attr=m.effective_case_attr(e, v))
                                  for v in e.values]))
    fields = [dict(name=f["name"], enum=m.enums.index(f["enum"]), kbits=f["kbits"], container_bits=f["container_bits"],
                   offset=f["offset"], bit_offset=f["bit_offset"], in_bits=f["in_bits"]) for f in m.fields]
    return dict(text=m.text(), enums=enums, fields=fields, struct_name=m.struct_name, struct_size=m.struct_size,
                case_attrs=m.all_case_attrs(), features=sorted(m.features))


def written_case_attrs(md):
    """Every enum_case attribute text written in the module (older replay files list only the effective ones)."""
    if "case_attrs" in md:
        return md["case_attrs"]
    return sorted({v["attr"] for e in md["enums"] for v in e["values"] if v["attr"] is not None})


def impl_spellings(name, attr):
    """The C++ enumerator spellings the *implementation* uses (only to name things in the driver)."""
    from compiler.back_end.cpp import header_generator as hg
    from compiler.util import name_conversion
    cases = ["SHOUTY_CASE"] if attr is None else hg._split_enum_case_values(attr)
    out = []
    for c in cases:
        try:
            out.append(name_conversion.convert_case("SHOUTY_CASE", c, name))
        except KeyError:
            out.append(None)
    return out


def utype_of(e):
    """Underlying type predicted only for choosing probe values (the comparison uses the C++ observation)."""
    vals = [v["value"] for v in e["values"]]
    signed = e["signed"] if e["signed"] is not None else any(v < 0 for v in vals)
    bits = e["bits"] if e["bits"] is not None else 64
    w = next((s for s in (8, 16, 32, 64) if bits <= s), 64)
    return signed, w


def probes_for_enum(rng, e):
    signed, w = utype_of(e)
    lo, hi = (-2**(w - 1), 2**(w - 1) - 1) if signed else (0, 2**w - 1)
    vals = [v["value"] for v in e["values"]]
    ps = [lo, hi, 0, 1, -1, lo + 1, hi - 1]
    for v in vals:
        ps += [v, v + 1, v - 1]
    ps += [rng.randint(lo, hi) for _ in range(3)]
    seen, out = set(), []
    for p in ps:
        if lo <= p <= hi and p not in seen:
            seen.add(p)
            out.append(p)
    names = []
    for v in e["values"]:
        n = v["name"]
        names.append(n)
        for sp in impl_spellings(n, v["attr"]):
            if sp:
                names.append(sp)
        names += [n.lower(), n + "_", n[:-1], "k" + n, n + "X"]
    names += ["", "k", "_", "UNKNOWN_NAME_Q"]
    seen, outn = set(), []
    for n in names:
        if n not in seen and re.match(r"[A-Za-z0-9_]*\Z", n):
            seen.add(n)
            outn.append(n)
    return outn[:40], out[:40]


def probes_for_field(rng, md, f):
    e = md["enums"][f["enum"]]
    signed, w = utype_of(e)
    lo, hi = (-2**(w - 1), 2**(w - 1) - 1) if signed else (0, 2**w - 1)
    k = f["kbits"]
    flo, fhi = (-2**(k - 1), 2**(k - 1) - 1) if signed else (0, 2**k - 1)
    ps = [flo, fhi, flo - 1, fhi + 1, 0, 1, -1, -2, 2**(k - 1), 2**(k - 1) - 1, 2**k - 1, 2**k, lo, hi,
          (flo + fhi) // 2] + [v["value"] for v in e["values"]] + [rng.randint(flo, fhi) for _ in range(3)] \
        + [rng.randint(lo, hi) for _ in range(2)]
    seen, out = set(), []
    for p in ps:
        if lo <= p <= hi and p not in seen:
            seen.add(p)
            out.append(p)
    return out[:40]


DRIVER_PRELUDE = r"""
#include <cstdio>
#include <cstring>
#include <iostream>
#include <sstream>
#include <string>
#include <type_traits>
#include "%(header)s"
template <class U> static std::string num(U v) {
  std::ostringstream o;
  if (std::is_signed<U>::value) o << static_cast<long long>(v); else o << static_cast<unsigned long long>(v);
  return o.str();
}
static std::string hex(const std::string &s) {
  static const char *d = "0123456789abcdef"; std::string o;
  for (unsigned char c : s) { o += d[c >> 4]; o += d[c & 15]; }
  return o.empty() ? std::string("-") : o;
}
template <class U> static std::string in_base(U v, int base) {
  bool neg = std::is_signed<U>::value && v < 0;
  unsigned long long m = neg ? 0ULL - static_cast<unsigned long long>(static_cast<long long>(v)) : static_cast<unsigned long long>(v);
  std::string d;
  do { d.insert(d.begin(), "0123456789abcdef"[m %% base]); m /= base; } while (m);
  return std::string(neg ? "-" : "") + (base == 16 ? "0x" : base == 2 ? "0b" : "") + d;
}
namespace ns = ::emboss_generated_code;
int main() {
"""


def build_driver(md, name, plan):
    """plan: {'enums': [(names, values)], 'fields': [values]}.  Probes live in arrays and are
    visited by loops so that the translation unit stays small."""
    L = [DRIVER_PRELUDE % dict(header=name + ".emb.h")]
    for i, e in enumerate(md["enums"]):
        names, values = plan["enums"][i]
        signed, _ = utype_of(e)
        vt = "long long" if signed else "unsigned long long"
        L.append("  {")
        L.append("    typedef ns::%s T; typedef std::underlying_type<T>::type U;" % e["cpp_name"])
        L.append('    std::cout << "ENUM i=%d size=" << sizeof(U) << " signed=" << std::is_signed<U>::value << "\\n";' % i)
        sps = [sp for v in e["values"] for sp in impl_spellings(v["name"], v["attr"])]
        L.append("    static const char *const ev_names[] = {%s};" % ", ".join('"%s"' % sp for sp in sps))
        L.append("    static const T ev_values[] = {%s};" % ", ".join("T::%s" % sp for sp in sps))
        L.append('    for (unsigned j = 0; j < %d; ++j) std::cout << "EV i=%d j=" << j << " name=" << ev_names[j] '
                 '<< " value=" << num(static_cast<U>(ev_values[j])) << "\\n";' % (len(sps), i))
        L.append("    static const char *const probe_names[] = {%s};" % ", ".join('"%s"' % n for n in names))
        L.append('    for (unsigned j = 0; j < %d; ++j) { T r = static_cast<T>(0); bool ok = TryToGetEnumFromName(probe_names[j], &r); '
                 'std::cout << "FROM i=%d j=" << j << " ok=" << ok << " value=" << num(static_cast<U>(r)) << "\\n"; }' % (len(names), i))
        L.append('    { T r = static_cast<T>(0); bool ok = TryToGetEnumFromName(nullptr, &r); '
                 'std::cout << "FROMNULL i=%d ok=" << ok << "\\n"; }' % i)
        L.append("    static const %s probe_values[] = {%s};" % (vt, ", ".join(cpp_int_literal(v, signed) for v in values)))
        L.append('    for (unsigned j = 0; j < %d; ++j) { T x = static_cast<T>(static_cast<U>(probe_values[j])); '
                 'const char *n = TryToGetNameFromEnum(x); std::ostringstream os; os << x; '
                 'std::cout << "TO i=%d j=" << j << " name=" << (n ? n : "-") << " known=" << EnumIsKnown(x) << " os=" << hex(os.str()) '
                 '<< " back=" << num(static_cast<U>(x)) << "\\n"; }' % (len(values), i))
        L.append("  }")
    if md["fields"]:
        L.append("  {")
        L.append("    unsigned char buf[%d];" % md["struct_size"])
        L.append("    auto view = ns::Make%sView(buf, sizeof buf);" % md["struct_name"])
        for i, f in enumerate(md["fields"]):
            e = md["enums"][f["enum"]]
            signed, _ = utype_of(e)
            vt = "long long" if signed else "unsigned long long"
            vals = plan["fields"][i]
            L.append("    {")
            L.append("      typedef decltype(view.%s()) FV; typedef FV::ValueType T; typedef std::underlying_type<T>::type U;" % f["name"])
            L.append('      std::cout << "FIELD i=%d bits=" << FV::SizeInBits() << "\\n";' % i)
            L.append("      static const %s probe_values[] = {%s};" % (vt, ", ".join(cpp_int_literal(v, signed) for v in vals)))
            L.append('      for (unsigned j = 0; j < %d; ++j) { T x = static_cast<T>(static_cast<U>(probe_values[j])); '
                     'bool c = FV::CouldWriteValue(x); bool w = false; U rb = 0; '
                     'if (c) { std::memset(buf, 0, sizeof buf); w = view.%s().TryToWrite(x); rb = static_cast<U>(view.%s().Read()); } '
                     'std::cout << "FW i=%d j=" << j << " could=" << c << " wrote=" << w << " rb=" << num(rb) << "\\n"; }'
                     % (len(vals), f["name"], f["name"], i))
            # the text path: numeric text in bases 10/16/2, and WriteToString -> UpdateFromText of what was written
            L.append('      for (unsigned j = 0; j < %d; ++j) { T x = static_cast<T>(static_cast<U>(probe_values[j])); '
                     'static const int bases[3] = {10, 16, 2}; '
                     'for (int b = 0; b < 3; ++b) { std::memset(buf, 0, sizeof buf); '
                     'bool u = ::emboss::UpdateFromText(view.%s(), in_base(static_cast<U>(x), bases[b])); '
                     'std::cout << "FT i=%d j=" << j << " base=" << bases[b] << " ok=" << u << " rb=" << num(static_cast<U>(view.%s().Read())) << "\\n"; } '
                     'if (FV::CouldWriteValue(x)) { std::memset(buf, 0, sizeof buf); view.%s().Write(x); '
                     'std::string s = ::emboss::WriteToString(view.%s()); std::memset(buf, 0, sizeof buf); '
                     'bool u = ::emboss::UpdateFromText(view.%s(), s); '
                     'std::cout << "FRT i=%d j=" << j << " ok=" << u << " rb=" << num(static_cast<U>(view.%s().Read())) << " text=" << hex(s) << "\\n"; } }'
                     % (len(vals), f["name"], i, f["name"], f["name"], f["name"], f["name"], i, f["name"]))
            # raw patterns: all ones, and only the top bit of the field
            L.append('      std::memset(buf, 0xff, sizeof buf); std::cout << "FR i=%d j=0 read=" << num(static_cast<U>(view.%s().Read())) << "\\n";' % (i, f["name"]))
            top = f["offset"] * 8 + f["bit_offset"] + f["kbits"] - 1
            L.append('      std::memset(buf, 0, sizeof buf); buf[%d] = static_cast<unsigned char>(1u << %d); '
                     'std::cout << "FR i=%d j=1 read=" << num(static_cast<U>(view.%s().Read())) << "\\n";'
                     % (top // 8, top % 8, i, f["name"]))
            L.append("    }")
        L.append("  }")
    L.append("  return 0;\n}\n")
    return "\n".join(L)


def declared_enumerators(header_path, name):
    """Names of the enumerators of `enum class <name>` as written in the generated header."""
    try:
        src = open(header_path).read()
    except OSError:
        return None
    m = re.search(r"enum class %s\s*:\s*[^{;]*\{(.*?)\};" % re.escape(name), src, re.S)
    if not m:
        return None
    return re.findall(r"^\s*([A-Za-z_][A-Za-z0-9_]*)\s*=", m.group(1), re.M)


def front_end_status(text):
    """Run the working tree's front end and back-end attribute verification in-process:
    (status 0/1/2, ir or None, messages)."""
    from compiler.front_end import glue
    from compiler.back_end.cpp import header_generator as hg

    def reader(fn):
        if fn == "m.emb":
            return text, None
        p = os.path.join(fw.REPO, fn)
        if os.path.exists(p):
            return open(p).read(), None
        return None, ["file not found: " + fn]

    ir, _, errors = glue.parse_emboss_file("m.emb", reader)
    if errors:
        return 1, None, [e[0].message for e in errors]
    header, errors = hg.generate_header(ir)
    if errors:
        return 2, ir, [e[0].message for e in errors]
    return 0, ir, []


def ir_enum_attrs(ir, cpp_name):
    from compiler.util import ir_util
    path = cpp_name.split("::")
    types = ir.module[0].type
    t = None
    for comp in path:
        t = next(x for x in types if x.name.name.text == comp)
        types = t.subtype
    return (ir_util.get_boolean_attribute(t.attribute, "is_signed"),
            ir_util.get_integer_attribute(t.attribute, "maximum_bits"))


def enum_in_term(e, names, values):
    vals = fw.coq_list(["(%s, %s, %s)" % (cstr(v["name"]), z(v["value"]), copt(v["attr"], lambda a: "(string_of_codes %s)" % fw.coq_codes(a)))
                        for v in e["values"]])
    return "(mk_enum_in %s %s %s %s %s)" % (
        vals, copt(e["signed"], fw.coq_bool), copt(e["bits"], z),
        fw.coq_list([cstr(n) for n in names]), fw.coq_list([z(v) for v in values]))


class ModuleRun:
    def __init__(self, idx, md, plan):
        self.idx, self.md, self.plan = idx, md, plan
        self.name = "m%04d" % idx


def run_modules(ctx, mods):
    """mods: list of module dicts.  Returns nothing; records cases, obligations, violations on ctx."""
    runs = []
    for i, md in enumerate(mods):
        plan = dict(enums=[probes_for_enum(ctx.rng, e) for e in md["enums"]],
                    fields=[probes_for_field(ctx.rng, md, f) for f in md["fields"]])
        runs.append(ModuleRun(i, md, plan))
    # in-process verdicts (status, inferred attributes)
    jobs = []
    crashed = []
    for r in runs:
        try:
            r.status, r.ir, r.msgs = front_end_status(r.md["text"])
        except Exception as ex:   # the compiler itself raised: a concrete module without a header
            import traceback
            tb = traceback.extract_tb(ex.__traceback__)
            where = tb[-1].name if tb else "?"
            ctx.violation("enum-compiler-crash:%s:%s" % (type(ex).__name__, where),
                          "the compiler raised %r in %s on an enum module" % (ex, where),
                          dict(kind="enum-module", module=r.md, exception=repr(ex)), found_input=True)
            ctx.count("module:compiler-crash")
            crashed.append(r)
    runs = [r for r in runs if r not in crashed]
    for r in runs:
        ctx.count("module:" + {0: "accepted", 1: "rejected-front-end", 2: "rejected-back-end"}[r.status])
        for ft in r.md.get("features", []):
            ctx.count("feature:" + ft)
        # the CLI is run for every module (its verdict must agree); the driver only matters when accepted
        driver = build_driver(r.md, r.name, r.plan) if r.status == 0 else "int main() { return 0; }\n"
        jobs.append(cpp_build.CppJob(r.name, r.md["text"], driver, cxxflags=["-std=c++14", "-O0"]))
    wd = os.path.join(ctx.bdir, "cpp-%d" % os.getpid())   # per process: concurrent runs must not share directories
    t0 = time.time()
    results = cpp_build.run_jobs(wd, jobs, parallel=fw.NPROC, timeout=300)
    stage_t = {}
    for res in results.values():
        for k, v in res.times.items():
            stage_t[k] = stage_t.get(k, 0.0) + v
    fw.log("C19: %d C++ jobs in %.1fs wall (summed stage seconds: %s)"
           % (len(jobs), time.time() - t0, ", ".join("%s %.0f" % kv for kv in sorted(stage_t.items()))))

    enum_cases, field_cases = [], []
    for r in runs:
        res = results[r.name]
        md = r.md
        cli_accepts = not (res.stage == "embossc")
        if cli_accepts != (r.status == 0):
            ctx.violation("embossc-cli-vs-library", "embossc CLI %s but in-process compilation %s"
                          % ("accepts" if cli_accepts else "rejects", "accepts" if r.status == 0 else "rejects"),
                          dict(kind="enum-module", module=md, log=res.log[-2000:], messages=r.msgs), found_input=True)
            continue
        compiles = res.ok
        if r.status == 0 and not res.ok and res.stage == "run":
            ctx.violation("enum-driver-crash", "driver for an accepted enum module exited with %s" % res.rc,
                          dict(kind="enum-module", module=md, log=res.log[-3000:]), found_input=True)
            continue
        obs = cpp_build.parse_observations(res.lines) if compiles else []
        per_enum = {}
        per_field = {}
        for tag, kv in obs:
            if tag in ("ENUM", "EV", "FROM", "TO", "FROMNULL"):
                per_enum.setdefault(int(kv["i"]), []).append((tag, kv))
            elif tag in ("FIELD", "FW", "FR", "FT", "FRT"):
                per_field.setdefault(int(kv["i"]), []).append((tag, kv))
        outs = []
        ins = []
        for i, e in enumerate(md["enums"]):
            names, values = r.plan["enums"][i]
            ins.append(enum_in_term(e, names, values))
            if r.status != 0 or not compiles:
                continue
            o = per_enum.get(i, [])
            head = [kv for t, kv in o if t == "ENUM"][0]
            sgn, bits = ir_enum_attrs(r.ir, e["cpp_name"])
            evs = [(kv["name"], int(kv["value"])) for t, kv in o if t == "EV"]
            declared = declared_enumerators(res.header, e["cpp_name"].split("::")[-1])
            if declared is not None and declared != [n for n, _ in evs]:
                ctx.violation("enum-header-enumerators", "enum %s declares the enumerators %s; by the enum_case scoping rule they are %s"
                              % (e["cpp_name"], declared[:12], [n for n, _ in evs][:12]),
                              dict(kind="enum-module", module=md, enum=e["cpp_name"], declared=declared), found_input=True)
            frm = [(int(kv["value"]) if kv["ok"] == "1" else None) for t, kv in o if t == "FROM"]
            to = [(None if kv["name"] == "-" else kv["name"]) for t, kv in o if t == "TO"]
            known = [kv["known"] == "1" for t, kv in o if t == "TO"]
            assert len(frm) == len(names) and len(to) == len(values), "driver output incomplete"
            if [kv for t, kv in o if t == "FROMNULL"][0]["ok"] != "0":
                ctx.violation("enum-from-name-null", "TryToGetEnumFromName(nullptr) returned true",
                              dict(kind="enum-module", module=md), found_input=True)
            # operator<< (definitional from TryToGetNameFromEnum; checked here)
            width = int(head["size"]) * 8
            for (t, kv), v in zip([x for x in o if x[0] == "TO"], values):
                if int(kv["back"]) != v:
                    raise RuntimeError("driver cast changed probe value %d -> %s" % (v, kv["back"]))
                os_txt = "" if kv["os"] == "-" else bytes.fromhex(kv["os"]).decode("latin-1")
                if kv["name"] != "-":
                    exp = kv["name"]
                elif width == 8:
                    exp = chr(v % 256)
                    ctx.count("ostream:8-bit-unnamed-value-streamed-as-character")
                else:
                    exp = str(v)
                if os_txt != exp:
                    ctx.violation("enum-ostream", "operator<< of %s value %d printed %r, expected %r" % (e["cpp_name"], v, os_txt, exp),
                                  dict(kind="enum-module", module=md, enum=e["cpp_name"], value=v), found_input=True)
            outs.append("(mk_enum_out 0%%N %s %s (Some (%s, %s)) true %s %s %s %s)" % (
                fw.coq_bool(sgn), z(bits), fw.coq_bool(head["signed"] == "1"), z(width),
                fw.coq_list(["(%s, %s)" % (cstr(n), z(v)) for n, v in evs]),
                fw.coq_list([copt(x, z) for x in frm]), fw.coq_list([copt(x, cstr) for x in to]),
                fw.coq_list([fw.coq_bool(b) for b in known])))
            ctx.case(("enum", md["text"], i), nontrivial=len(e["values"]) > 1,
                     sample=dict(enum=e["cpp_name"], values=[(v["name"], v["value"], v["attr"]) for v in e["values"]][:6],
                                 underlying="%sint%d_t" % ("" if head["signed"] == "1" else "u", width),
                                 enumerators=evs[:6]))
            ctx.count("enum:%s-%d-bit" % ("signed" if head["signed"] == "1" else "unsigned", width))
            ctx.count("enum:values", len(e["values"]))
            if len(set(v["value"] for v in e["values"])) < len(e["values"]):
                ctx.count("enum:with-duplicate-values")
        if r.status != 0:
            ctx.case(("rejected", md["text"]), nontrivial=True)
        exp = "(%s%%N, %s, %s)" % (r.status, fw.coq_bool(compiles if r.status == 0 else True), fw.coq_list(outs))
        written = fw.coq_list(["(string_of_codes %s)" % fw.coq_codes(a) for a in written_case_attrs(md)])
        enum_cases.append(("(%s, %s)" % (written, fw.coq_list(ins)), exp, r))
        # fields
        if r.status == 0 and compiles:
            for i, f in enumerate(md["fields"]):
                e = md["enums"][f["enum"]]
                o = per_field.get(i, [])
                head = [kv for t, kv in o if t == "FIELD"][0]
                assert int(head["bits"]) == f["kbits"]
                eh = [kv for t, kv in per_enum[f["enum"]] if t == "ENUM"][0]
                ts, tb = eh["signed"] == "1", int(eh["size"]) * 8
                bw = next(s for s in (8, 16, 32, 64) if f["container_bits"] <= s)
                ws = []
                for (t, kv), v in zip([x for x in o if x[0] == "FW"], r.plan["fields"][i]):
                    if kv["could"] != kv["wrote"]:
                        ctx.violation("enum-field-trytowrite", "CouldWriteValue and TryToWrite disagree on a complete buffer",
                                      dict(kind="enum-module", module=md, field=f["name"], value=v), found_input=True)
                    ws.append("(%s, %s, %s)" % (z(v), fw.coq_bool(kv["could"] == "1"), z(int(kv["rb"]))))
                # text path against the direct path (which is compared with the model below)
                direct = {j: kv for j, (t, kv) in enumerate([x for x in o if x[0] == "FW"])}
                for t, kv in o:
                    if t not in ("FT", "FRT"):
                        continue
                    j = int(kv["j"])
                    v, dk = r.plan["fields"][i][j], direct[j]
                    want_ok = dk["could"] == "1"
                    good = (kv["ok"] == "1") == want_ok and (not want_ok or int(kv["rb"]) == int(dk["rb"]))
                    ctx.count("text:%s" % ("numeric-base-%s" % kv["base"] if t == "FT" else "round-trip"))
                    if t == "FRT":
                        # what WriteToString wrote: the first declared name of the value, or its (signed) decimal numeral
                        txt = bytes.fromhex(kv["text"]).decode("latin-1").strip()
                        names = [x["name"] for x in md["enums"][f["enum"]]["values"] if x["value"] == v]
                        want_txt = names[0] if names else str(v)
                        ctx.count("text:written-" + ("name" if names else "negative-numeral" if v < 0 else "numeral"))
                        if txt != want_txt:
                            ctx.violation("enum-text-written",
                                          "WriteToString of enum field %s (%d bits, %s int%d) holding %d writes %r, expected %r"
                                          % (f["name"], f["kbits"], "signed" if ts else "unsigned", tb, v, txt, want_txt),
                                          dict(kind="enum-module", module=md, field=f["name"], value=v), found_input=True)
                    if not good:
                        what = ("UpdateFromText of numeric text (base %s)" % kv["base"]) if t == "FT" else \
                               ("UpdateFromText(WriteToString) [text %r]" % bytes.fromhex(kv["text"]).decode("latin-1"))
                        ctx.violation("enum-text-" + ("numeric-read" if t == "FT" else "round-trip"),
                                      "%s of value %d on enum field %s (%d bits, %s int%d): ok=%s value=%s; writing the value directly: "
                                      "could=%s value=%s" % (what, v, f["name"], f["kbits"], "signed" if ts else "unsigned", tb,
                                                             kv["ok"], kv["rb"], dk["could"], dk["rb"]),
                                      dict(kind="enum-module", module=md, field=f["name"], value=v), found_input=True)
                k = f["kbits"]
                raws = [2**k - 1, 2**(k - 1)]
                rs = ["(%s, %s)" % (z(raw), z(int(kv["read"]))) for (t, kv), raw in zip([x for x in o if x[0] == "FR"], raws)]
                inp = "((%s, %s), %s, %s, %s, %s)" % (fw.coq_bool(ts), z(tb), z(k), z(bw), fw.coq_list(ws), fw.coq_list(rs))
                expf = "([%s]%%N, [%s]%%N)" % (";".join("0" for _ in ws), ";".join("0" for _ in rs))
                field_cases.append((inp, expf, (r, f, ts, tb, bw)))
                ctx.case(("field", md["text"], i), nontrivial=True,
                         sample=dict(field=f["name"], enum=e["cpp_name"], bits=k, block_bits=f["container_bits"],
                                     signed=ts, underlying_bits=tb))
                ctx.count("field:%s-%s" % ("signed" if ts else "unsigned",
                                           "full-width" if (k == bw and k == tb) else "narrow"))

    # ---- compare with the model ---------------------------------------------------
    runner = fw.CoqCases(ctx, "enums", HEADER, "run_module", "module_out_eqb", "(list string * list enum_in)",
                         "(N * bool * list enum_out)", shard=max(4, (len(enum_cases) + fw.NPROC - 1) // fw.NPROC))
    t0 = time.time()
    bad = runner.run(enum_cases)
    fw.log("C19: model evaluation of %d modules in Coq: %.1fs" % (len(enum_cases), time.time() - t0))
    bad_idx = {i for i, _ in bad}
    ctx.obligation("correspondence: %d modules (acceptance, inferred attributes, underlying type, enumerators, "
                   "TryToGetEnumFromName, TryToGetNameFromEnum, EnumIsKnown) agree with the model" % len(enum_cases), not bad)
    for k, (inp, exp, r) in enumerate(enum_cases):
        res = results[r.name]
        if k in bad_idx:
            out = [o for i, o in bad if i == k][0]
            if r.status == 0 and not res.ok:
                ctx.violation("cpp-enum-header-rejected", "g++ rejects the header of an enum module the model predicts to compile: %s"
                              % first_error(res.log), dict(kind="enum-module", module=r.md, log=res.log[-3000:]), found_input=True)
            else:
                ctx.violation("enum-correspondence", "model and implementation disagree on an enum module (status %s, compiles %s)"
                              % (r.status, res.ok),
                              dict(kind="enum-module", module=r.md, observed=exp[:4000], model_outputs=out[:4000],
                                   correspondence="Enum.Exec.run_module vs embossc + g++ observations"),
                              found_input=True)
        elif r.status == 0 and not res.ok:
            # predicted by the model (enumerators_distinct = false): the property fails on this input
            ctx.violation(KEY_COLLISION, "accepted enum whose case-converted enumerators collide; g++: %s" % first_error(res.log),
                          dict(kind="enum-module", module=r.md, log=res.log[-2000:]), found_input=True)
            ctx.count("module:accepted-but-header-ill-formed(F5)")

    frunner = fw.CoqCases(ctx, "fields", HEADER, "run_field", "run_field_eqb",
                          "((bool * Z) * Z * Z * list (Z * bool * Z) * list (Z * Z))", "(list N * list N)",
                          shard=max(8, (len(field_cases) + fw.NPROC - 1) // fw.NPROC))
    fbad = frunner.run(field_cases) if field_cases else []
    ctx.obligation("enum fields: %d fields accept exactly the in-range values and read back what was written "
                   "(known exceptions keyed)" % len(field_cases), True)
    for k, out in fbad:
        inp, expf, (r, f, ts, tb, bw) = field_cases[k]
        codes = parse_field_codes(out, k % frunner.shard)
        narrow = ts and not (f["kbits"] == bw and f["kbits"] == tb)
        wcodes, rcodes = codes if codes else ([2], [2])
        replay = dict(kind="enum-module", module=r.md, field=f["name"], verdicts=dict(write=wcodes, read=rcodes),
                      probes=r.plan["fields"][r.md["fields"].index(f)])
        if 2 in wcodes or 2 in rcodes or not narrow:
            ctx.violation("enum-field-range", "enum field %s (%d bits in a %d-bit block, %s underlying int%d) neither meets the "
                          "property nor behaves as the modelled EnumView" % (f["name"], f["kbits"], f["container_bits"],
                                                                              "signed" if ts else "unsigned", tb),
                          replay, found_input=True)
        else:
            if 1 in wcodes:
                ctx.violation(KEY_NARROW_WRITE, "signed enum field %s of %d bits in a %d-bit block refuses in-range negative values"
                              % (f["name"], f["kbits"], f["container_bits"]), replay, found_input=True)
            if 1 in rcodes:
                ctx.violation(KEY_NARROW_READ, "signed enum field %s of %d bits reads a set top bit as a positive value"
                              % (f["name"], f["kbits"]), replay, found_input=True)


def first_error(log):
    for l in log.splitlines():
        if "error" in l:
            return l.strip()[:300]
    return log.strip()[:300]


def parse_field_codes(outtxt, local_index):
    """Extract ([write verdicts], [read verdicts]) for one case from the text printed by outputs_at."""
    flat = " ".join(outtxt.split())
    m = re.search(r"\(%d%%N,\s*Some\s*\(\[([^\]]*)\],\s*\[([^\]]*)\]\)\)" % local_index, flat)
    if not m:
        return None
    f = lambda s: [int(x) for x in re.findall(r"(\d+)%N", s)] if "%N" in s else [int(x) for x in re.findall(r"\d+", s)]
    return f(m.group(1)), f(m.group(2))


# ------------------------------------------------------------------------------

def corpus_modules():
    out = []
    for p in sorted(glob.glob(os.path.join(fw.VERIF, "corpus", "C19", "*.json"))):
        out.append(json.load(open(p)))
    return out


def run(ctx):
    try:
        _run_check(ctx)
    finally:   # per-process scratch directories
        import shutil as _sh
        for _p in glob.glob(os.path.join(ctx.bdir, "*-%d*" % os.getpid())):
            _sh.rmtree(_p, ignore_errors=True)


def _run_check(ctx):
    ctx.rule = ("string functions: random SHOUTY/snake/arbitrary ASCII names through name_conversion.convert_case and random "
                "enum_case attribute texts through _split_enum_case_values/_verify_enum_case_attribute; modules: 1-3 enums each "
                "(names with digit/underscore shapes and camel-collision pairs, duplicate values, negatives, 2^63/2^64 edges and "
                "beyond, explicit/absent is_signed and maximum_bits incl. too small/out of 1..64, enum_case at module/struct/enum/"
                "value level incl. several spellings and invalid texts, nested enums) with byte- and bit-sized fields; a case = "
                "one enum (non-trivial when it has >1 value) or one field or one rejected module; distinct by (module text, index)")
    ctx.trusted = ["Coq 8.16.1 kernel, vm_compute", "harness/gen_enum.py, harness/props/c19.py (driver text, parsing)",
                   "harness/cpp_build.py", "g++ 12 (meaning of the emitted C++)", "CPython 3.12 running /repo's compiler"]
    ctx.assumptions = ["8-bit characters; Emboss names are ASCII",
                       "value expressions are integer literals (decimal/hex/binary, optional minus)"]
    ctx.audit()
    ctx.check_theorems("EmbossV.Enum.Properties_C19", "Enum/Properties_C19.v", expect_min=20)
    rc, out = fw.coq_make(["Enum/Exec.vo"])
    if rc != 0:
        ctx.violation("proof-broken:Enum/Exec.v", "Enum/Exec.v does not build", dict(kind="proof", log=out[-3000:]), found_input=False)
        return

    if getattr(ctx, "replay_path", None):
        rp = json.load(open(ctx.replay_path))
        md = rp.get("replay", rp).get("module")
        fast_embossc_env()
        run_modules(ctx, [md])
        return

    # (i) string functions
    n = 3000 if ctx.thorough() else 800
    cc = convert_cases(ctx, n)
    bad = fw.CoqCases(ctx, "convert", HEADER, "run_convert", "run_convert_eqb", "(list N)", "(list N * list N)", shard=400).run(cc)
    for a, b, s in cc:
        ctx.case(("conv", s), nontrivial="_" in s, sample=dict(convert_case=s, python=b[:80]) if "_" in s else None)
    ctx.obligation("correspondence: snake_to_camel / snake_to_k_camel agree on %d names" % len(cc), not bad)
    for idx, out in bad[:3]:
        ctx.violation("convert-case-correspondence", "convert_case(%r): python %s, model differs" % (cc[idx][2], cc[idx][1][:200]),
                      dict(kind="string", correspondence="Enum.Model.snake_to_camel vs name_conversion.convert_case",
                           input=cc[idx][2], model_outputs=out[:2000]), found_input=False)
    sc = split_cases(ctx, n // 2)
    bad = fw.CoqCases(ctx, "split", HEADER, "run_split", "run_split_eqb", "(list N)", "(list (list N) * list N)", shard=400).run(sc)
    for a, b, s in sc:
        ctx.case(("split", s), nontrivial="," in s)
    ctx.obligation("correspondence: enum_case splitting and verification agree on %d attribute texts" % len(sc), not bad)
    for idx, out in bad[:3]:
        ctx.violation("enum-case-attribute-correspondence", "enum_case %r: python %s, model differs" % (sc[idx][2], sc[idx][1][:200]),
                      dict(kind="string", correspondence="Enum.Model.split_enum_case_values/verify_cases vs header_generator",
                           input=sc[idx][2], model_outputs=out[:2000]), found_input=False)

    # (ii) modules
    fast_embossc_env()
    forb = forbidden_names()
    mods = corpus_modules()
    n_mod = 400 if ctx.thorough() else 48
    # shapes every run must contain: a $default enum_case on an earlier type followed by plain enums
    for _ in range(6 if ctx.thorough() else 3):
        for attempt in range(40):
            m = gen_enum.EnumModule(ctx.rng, forbidden=forb, p_invalid=0.0, p_collision=0.0, p_bad_case=0.0, shape="scoped-default")
            if front_end_status(m.text())[0] == 0:
                mods.append(module_dict(m))
                break
    for i in range(n_mod):
        m = gen_enum.EnumModule(ctx.rng, forbidden=forb)
        mods.append(module_dict(m))
    run_modules(ctx, mods)
