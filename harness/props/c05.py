"""C05 — inferred integer bounds and alignments are sound (and tight where documented)."""
import glob
import os
import sys

from harness import fw, irx, gen_expr, bounds_x

META = {
    "technique": "Coq proof of soundness of a Gallina mirror of expression_bounds.py/constant_value/64-bit gate; the mirror is tied to the source twice on every run: (T) harness/bounds_x.py, a fail-closed `ast` translator, regenerates Gallina definitions of _add _sub _sign _mul _is_infinite _max _min _greatest_common_divisor _shared_modular_value and of the additive, multiplicative, $max and ?: rules from /repo's current expression_bounds.py and coqc checks generated theorems that each regenerated definition equals the hand-written model function for all arguments; (C) differential correspondence with the Python pass (vm_compute)",
    "level_text": "Machine-checked theorems (Coq 8.16, no axioms): every transfer function of the bounds pass is sound for every expression tree and every environment (interval and congruence), constant_value is exact, the 64-bit gate implies a single C++ type holds each run-time operation with its operands, and +,-,*,$max bounds are attained for linear expressions. The arithmetic functions those theorems are about are proved equal, on every run, to definitions translated mechanically from the current source text of expression_bounds.py (13 functions; equalities hold for all arguments, for the rules under the precondition 'modulus > 0, modular value >= 0 under a finite modulus', which analyze_wf proves of every operand the analysis produces). The remaining hand-modelled parts (traversal, leaves, constant_value, gate) are tied by running model and Python pass on the same generated and corpus expressions each run and comparing every sub-expression's annotation, constant_value and gate verdict.",
    "level_note": "Trusted: Coq kernel + vm_compute; the translator harness/bounds_x.py and its value model (a python int and its stringified form are both `Fin z`, str() is the identity, any raised exception or failed assert is `None`; three recognised IR-plumbing no-ops: operand field-presence asserts, ir_data_utils.reader/builder); the run-time library of Bounds/GenBridge.v (py_int, py_mod, py_foldM, ...); the IR translator harness/irx.py; the generator's coverage of expression shapes (histogram in evidence). The translator rejects (violation bounds-translator, naming the function) every statement or expression shape it does not list. Modelled not verified: CPython's evaluation of the translated subset; user-defined external integer types and $static_size_in_bits are outside the model. Tightness is proved for the arithmetic fragment only (choice refuted: finding F7).",
}

HEADER = "Require Import EmbossV.Bounds.Model EmbossV.Bounds.Exec.\nOpen Scope Z_scope.\n"


def _ext_py(x):
    return {"infinity": "PosInf", "-infinity": "NegInf"}.get(x, None) or "(Fin %s)" % irx._z(x)


def _mod_py(x):
    return "None" if x == "infinity" else "(Some %s)" % irx._z(x)


def helper_cases(ctx, n):
    from compiler.front_end import expression_bounds as eb
    r = ctx.rng
    cases = []

    def rext(allow_inf=True):
        k = r.random()
        if allow_inf and k < 0.15:
            return "infinity"
        if allow_inf and k < 0.3:
            return "-infinity"
        return r.choice([0, 1, -1, 2, -2, 3, 7, -7, 12, 20, 255, -128, 2**32, -(2**63), 2**64 - 1, r.randint(-1000, 1000)])

    def rmod():
        k = r.random()
        if k < 0.25:
            return "infinity"
        return r.choice([1, 2, 3, 4, 5, 6, 8, 12, 15, 20, 24, 35, 64, 100, 2**32, r.randint(1, 500)])

    def call(f, *a):
        try:
            return ("ok", f(*a))
        except AssertionError:
            return ("assert", None)

    for _ in range(n):
        k = r.randrange(7)
        if k == 0:
            a, b = rext(), rext()
            st, v = call(eb._add, a, b)
            cases.append(("HAdd %s %s" % (_ext_py(a), _ext_py(b)),
                          "RExt %s" % ("None" if st == "assert" else "(Some %s)" % _ext_py(v)), ("_add", a, b)))
        elif k == 1:
            a, b = rext(), rext()
            st, v = call(eb._sub, a, b)
            cases.append(("HSub %s %s" % (_ext_py(a), _ext_py(b)),
                          "RExt %s" % ("None" if st == "assert" else "(Some %s)" % _ext_py(v)), ("_sub", a, b)))
        elif k == 2:
            a, b = rext(), rext()
            st, v = call(eb._mul, a, b)
            cases.append(("HMul %s %s" % (_ext_py(a), _ext_py(b)), "RExt (Some %s)" % _ext_py(v), ("_mul", a, b)))
        elif k in (3, 4):
            l = [rext() for _ in range(r.randint(1, 5))]
            f, nm = (eb._min, "HMin") if k == 3 else (eb._max, "HMax")
            st, v = call(f, l)
            cases.append(("%s [%s]" % (nm, "; ".join(_ext_py(x) for x in l)), "RExt (Some %s)" % _ext_py(v), (nm, l)))
        elif k == 5:
            a = rmod() if r.random() < 0.8 else 0
            b = rmod() if r.random() < 0.8 else 0
            st, v = call(eb._greatest_common_divisor, a, b)
            cases.append(("HGcd %s %s" % (_mod_py(a), _mod_py(b)), "RMod %s" % _mod_py(v), ("gcd", a, b)))
        else:
            lm, rm = rmod(), rmod()
            lv = r.randint(0, 40) if lm == "infinity" else r.randrange(lm) if lm < 10**6 else r.randint(0, 1000)
            rv = r.randint(0, 40) if rm == "infinity" else r.randrange(rm) if rm < 10**6 else r.randint(0, 1000)
            if r.random() < 0.2:
                rv = lv
            st, v = call(eb._shared_modular_value, (lm, lv), (rm, rv))
            exp = "RShared None" if st == "assert" else "RShared (Some (%s, %s))" % (_mod_py(v[0]), irx._z(v[1]))
            cases.append(("HShared %s %s %s %s" % (_mod_py(lm), irx._z(lv), _mod_py(rm), irx._z(rv)), exp,
                          ("_shared_modular_value", lm, lv, rm, rv)))
        ctx.count("helper:" + cases[-1][2][0])
    return cases


class PyEval:
    """Independent reference evaluation of an IR expression over unbounded integers
    (used only to search for a concrete counter-example environment)."""

    def __init__(self, ir, rng):
        self.ir, self.rng, self.env = ir, rng, {}

    def leaf_value(self, e):
        from compiler.util import ir_util
        key = ir_util.hashable_form_of_field_reference(e.field_reference)
        if key in self.env:
            return self.env[key]
        t = e.type
        if t.which_type == "integer":
            lo, hi = t.integer.minimum_value, t.integer.maximum_value
            lo = -(2**70) if lo == "-infinity" else int(lo)
            hi = 2**70 if hi == "infinity" else int(hi)
            k = self.rng.random()
            v = lo if k < 0.3 else hi if k < 0.6 else self.rng.randint(lo, hi)
        elif t.which_type == "boolean":
            v = self.rng.random() < 0.5
        else:
            v = self.rng.choice([0, 1, 2, 3, 5, 7, 300])
        self.env[key] = v
        return v

    def ev(self, e):
        from compiler.util import ir_data, ir_util
        FM = ir_data.FunctionMapping
        w = e.which_expression
        if w == "constant":
            return int(e.constant.value)
        if w == "boolean_constant":
            return bool(e.boolean_constant.value)
        if w == "constant_reference":
            obj = ir_util.find_object(e.constant_reference.canonical_name, self.ir)
            if isinstance(obj, ir_data.EnumValue):
                return self.ev(obj.value)
            return self.ev(obj.read_transform)
        if w == "field_reference":
            field = ir_util.find_object(e.field_reference.path[-1], self.ir)
            if isinstance(field, ir_data.Field) and ir_util.field_is_virtual(field):
                return self.ev(field.read_transform)
            return self.leaf_value(e)
        if w == "function":
            f = e.function.function
            if f == FM.PRESENCE:
                field = ir_util.find_object(e.function.args[0].field_reference.path[-1], self.ir)
                return self.ev(field.existence_condition)
            if f == FM.UPPER_BOUND:
                return int(e.function.args[0].type.integer.maximum_value)
            if f == FM.LOWER_BOUND:
                return int(e.function.args[0].type.integer.minimum_value)
            if f == FM.CHOICE:
                c = self.ev(e.function.args[0])
                return self.ev(e.function.args[1] if c else e.function.args[2])
            a = [self.ev(x) for x in e.function.args]
            import operator
            return {FM.ADDITION: operator.add, FM.SUBTRACTION: operator.sub, FM.MULTIPLICATION: operator.mul,
                    FM.EQUALITY: operator.eq, FM.INEQUALITY: operator.ne, FM.LESS: operator.lt,
                    FM.LESS_OR_EQUAL: operator.le, FM.GREATER: operator.gt, FM.GREATER_OR_EQUAL: operator.ge,
                    FM.AND: lambda x, y: x and y, FM.OR: lambda x, y: x or y,
                    FM.MAXIMUM: lambda *x: max(x)}[f](*a)
        raise irx.OutOfModel(w)


def annotation_violated(e, v):
    """Does concrete value v contradict the annotation the real pass put on e?"""
    t = e.type
    if t.which_type == "integer":
        i = t.integer
        if i.minimum_value == "infinity" or i.maximum_value == "-infinity":
            return "value %d outside the empty inferred range [%s, %s]" % (v, i.minimum_value, i.maximum_value)
        if i.minimum_value not in ("-infinity", None, "") and v < int(i.minimum_value):
            return "value %d below inferred minimum %s" % (v, i.minimum_value)
        if i.maximum_value not in ("infinity", None, "") and v > int(i.maximum_value):
            return "value %d above inferred maximum %s" % (v, i.maximum_value)
        if i.modulus == "infinity":
            if i.modular_value not in (None, "") and v != int(i.modular_value):
                return "value %d differs from inferred constant %s" % (v, i.modular_value)
        elif i.modulus:
            if (v - int(i.modular_value)) % int(i.modulus) != 0:
                return "value %d not congruent to %s mod %s" % (v, i.modular_value, i.modulus)
    elif t.which_type == "boolean":
        if t.boolean.has_field("value") and bool(t.boolean.value) != bool(v):
            return "boolean constant %s but value %s" % (t.boolean.value, v)
    elif t.which_type == "enumeration":
        if t.enumeration.has_field("value") and int(t.enumeration.value) != int(v):
            return "enum constant %s but value %s" % (t.enumeration.value, v)
    return None


def all_subexpressions(e):
    from compiler.util import ir_data
    yield e
    if e.which_expression == "function" and e.function.function != ir_data.FunctionMapping.PRESENCE:
        for a in e.function.args:
            yield from all_subexpressions(a)


def search_counterexample(ctx, ir, e, tries=300):
    """Random/edge environments: returns (env, message) on which the real annotation is wrong."""
    import random
    for t in range(tries):
        pe = PyEval(ir, random.Random(ctx.seed * 7919 + t))
        try:
            for sub in all_subexpressions(e):
                v = pe.ev(sub)
                msg = annotation_violated(sub, v)
                if msg:
                    return ({str(k): val for k, val in pe.env.items()}, msg)
        except (irx.OutOfModel, ValueError, TypeError):
            return None
    return None


def neighbourhood_search(ctx, obj, budget=80):
    """The annotation at obj["where"] differs from the verified analysis but no environment violates it (the wrong
    result may be sound by luck on this instance).  Look for a failing input NEAR it: mutants of the same field's
    expression (true<->false, &&<->||, ==<->!=, swapped ?: branches, constants moved to type boundaries) are compiled
    by the real front end and evaluated on random/edge environments.  Returns (text, where, env, message) or None."""
    import re
    text, where = obj["text"], obj["where"]
    name = where.split("/")[-1]
    lines = text.split("\n")
    idx = [i for i, l in enumerate(lines) if re.match(r"\s*let %s = " % re.escape(name), l)]
    if not idx:
        return None
    li = idx[0]
    line = lines[li]
    muts = []
    for a, b in (("true", "false"), ("false", "true"), ("&&", "||"), ("||", "&&"), ("==", "!="), ("!=", "=="),
                 (" ? 1 : ", " ? 1000000 : "), (" : 1)", " : 1000000)")):
        pos = [m.start() for m in re.finditer(re.escape(a), line)]
        for p0 in pos:
            muts.append(line[:p0] + b + line[p0 + len(a):])
        if len(pos) > 1:
            muts.append(line.replace(a, b))
    def swap_all(l, a, b):
        return l.replace(a, "\0").replace(b, a).replace("\0", b)
    both = swap_all(swap_all(line, "true", "false"), "&&", "||")
    muts = [both, swap_all(line, "true", "false"), swap_all(line, "&&", "||")] + muts
    m = re.search(r"\? (.+) : (.+)\)$", line)
    if m:
        muts.append(line[:m.start()] + "? %s : %s)" % (m.group(2), m.group(1)))
    seen = set()
    for mu in muts[:budget]:
        if mu in seen or mu == line:
            continue
        seen.add(mu)
        t2 = "\n".join(lines[:li] + [mu] + lines[li + 1:])
        try:
            ir2, errs2 = compile_for_bounds(t2)
        except Exception:
            continue
        if errs2:
            continue
        for (e2, where2, attr2) in irx.top_level_expressions(ir2):
            if where2 == where:
                cex = search_counterexample(ctx, ir2, e2, tries=40)
                if cex:
                    return (t2, where2, cex[0], cex[1])
    return None


def spec_fits_one_type(e):
    """The property's own clause, evaluated on the implementation's annotations: does every run-time
    operation node of e fit ONE of int64_t / uint64_t together with all of its integer operands?"""
    from compiler.util import ir_util
    if e.which_expression != "function" or ir_util.is_constant_type(e.type):
        return True
    for a in e.function.args:
        if not spec_fits_one_type(a):
            return False
    rs = []
    for c in [e] + list(e.function.args):
        if c.type.which_type == "integer":
            lo, hi = c.type.integer.minimum_value, c.type.integer.maximum_value
            if lo in ("-infinity", "infinity") or hi in ("-infinity", "infinity"):
                return False
            rs.append((int(lo), int(hi)))
    if not rs:
        return True
    lo, hi = min(r[0] for r in rs), max(r[1] for r in rs)
    return (lo >= -2**63 and hi <= 2**63 - 1) or (lo >= 0 and hi <= 2**64 - 1)


def compile_for_bounds(text, name="m.emb", extra=None):
    from compiler.front_end import glue
    files = {name: text}
    if extra:
        files.update(extra)

    def reader(fn):
        if fn in files:
            return files[fn], None
        p = os.path.join(fw.REPO, fn)
        if os.path.exists(p):
            return open(p).read(), None
        return None, ["file not found: " + fn]

    ir, debug, errors = glue.parse_emboss_file(name, reader, stop_before_step="check_constraints")
    return ir, errors


def expression_cases(ctx, sources):
    """sources: list of (label, text, file_name).  Returns Coq cases."""
    from compiler.front_end import constraints
    from compiler.util import ir_util
    cases = []
    for label, text, fname in sources:
        try:
            ir, errors = compile_for_bounds(text, fname)
        except Exception as ex:
            import traceback
            tb = traceback.extract_tb(ex.__traceback__)
            ctx.count("compile-crash")
            if any(fr.filename.endswith("expression_bounds.py") for fr in tb[-3:]):
                # one of the pass's own self-consistency asserts fired (the model proves they cannot)
                ctx.violation("bounds-assert", "expression_bounds raised %r (line %d) on %s" % (ex, tb[-1].lineno, label),
                              dict(kind="module", module=text, exception=repr(ex), line=tb[-1].lineno), found_input=True)
            else:
                ctx.note("compiler raised %r on %s (counted; outside C05)" % (ex, label))
            continue
        if errors or ir is None:
            ctx.count("compile-rejected")
            continue
        for (e, where, attr) in irx.top_level_expressions(ir):
            if attr == "static_requirements":
                ctx.count("skip:static_requirements")
                continue
            tr = irx.Translator(ir)
            try:
                term = tr.expr(e)
                guard_present(e, ir)
            except irx.OutOfModel as ex:
                ctx.count("out-of-model:" + str(ex).split(" ")[0])
                continue
            ann = irx.preorder_annotations(e)
            if any(a is None for a in ann):
                ctx.count("skip:unannotated")
                continue
            cv = ir_util.constant_value(e)   # (raised KeyError for bound functions before fix 5ad5b76: finding F17)
            wt = e.type.which_type
            if cv is None:
                cvt = "None"
            elif wt == "integer":
                cvt = "(Some (VInt %s))" % irx._z(cv)
            elif wt == "boolean":
                cvt = "(Some (VBool %s))" % ("true" if cv else "false")
            else:
                cvt = "(Some (VEnum %s))" % irx._z(cv)
            gate_ok = constraints._integer_bounds_errors_for_expression(e, fname) == []
            inp = "(%s, %s)" % (tr.tenv(), term)
            exp = "([%s], %s, %s)" % ("; ".join("Some %s" % a for a in ann), cvt, "true" if gate_ok else "false")
            n_nodes = len(ann)
            ctx.count("expr-nodes", n_nodes)
            ctx.count("root:" + (e.function.function.name if e.which_expression == "function" else e.which_expression))
            ctx.count("gate:" + ("accept" if gate_ok else "reject"))
            cases.append((inp, exp, dict(label=label, where=where, ir=ir, e=e, text=text, term=term)))
    return cases


def guard_present(e, ir):
    from compiler.util import ir_data
    for sub in all_subexpressions(e):
        if sub.which_expression == "function" and sub.function.function == ir_data.FunctionMapping.PRESENCE:
            a = sub.function.args[0]
            if a.type.which_type == "integer":
                i = a.type.integer
                if i.minimum_value in ("-infinity", "infinity") or i.maximum_value in ("-infinity", "infinity"):
                    raise irx.OutOfModel("present-arg-unbounded")
                lo, hi = int(i.minimum_value), int(i.maximum_value)
                if not ((lo >= 0 and hi <= 2**64 - 1) or (lo >= -2**63 and hi <= 2**63 - 1)):
                    raise irx.OutOfModel("present-arg-wide")


def run(ctx):
    ctx.rule = ("regenerated model: 13 functions of expression_bounds.py translated each run and proved equal to Bounds/Model.v "
                "(on a broken proof: both sides evaluated on argument grids, differences turned into Emboss expressions and "
                "environments searched); helper calls: random arguments incl. infinities to _add/_sub/_mul/_min/_max/gcd/_shared_modular_value; "
                "expressions: every maximal expression of the testdata corpus and of generated expression-rich modules "
                "(typed random trees over UInt/Int/Bcd fields, parameters, flags, enums, virtual fields); a case is "
                "non-trivial when it has an operator node; distinct by (leaf specs, term)")
    ctx.trusted = ["Coq 8.16.1 kernel, vm_compute", "harness/bounds_x.py (python ast -> Gallina translator) and the run-time "
                   "library in Bounds/GenBridge.v", "harness/irx.py IR translator", "harness/props/c05.py",
                   "CPython 3.12 running /repo's front end"]
    ctx.assumptions = ["user-defined external integer types and $static_size_in_bits expressions are outside the model (counted in input_histogram as out-of-model)"]
    ctx.audit()
    ctx.check_theorems("EmbossV.Bounds.Properties_C05", "Bounds/Properties_C05.v", expect_min=6)

    # --- (T) the model regenerated from the source of expression_bounds.py, proved equal to Bounds/Model.v ------
    import time as _time
    _t0 = _time.time()
    bounds_x.run_tie(ctx, sys.modules[__name__])
    ctx.extra["regenerated_model_wall_s"] = round(_time.time() - _t0, 1)

    # --- (i) helper functions ------------------------------------------------
    n_helper = 6000 if ctx.thorough() else 1500
    hc = helper_cases(ctx, n_helper)
    runner = fw.CoqCases(ctx, "helpers", HEADER, "run_helper", "hres_eqb", "hcall", "hres", shard=500)
    bad = runner.run(hc)
    for a, b, obj in hc:
        ctx.case(("h", a), nontrivial=True, sample={"helper": obj[0], "args": [str(x) for x in obj[1:]], "python": b})
    ctx.obligation("correspondence: %d helper calls agree" % len(hc), not bad)
    for idx, out in bad[:5]:
        a, b, obj = hc[idx]
        ctx.violation("helper-mismatch:" + obj[0],
                      "helper %s%r: python gives %s, model differs" % (obj[0], obj[1:], b),
                      dict(kind="helper", call=[str(x) for x in obj], python=b, model_outputs=out), found_input=False)

    # --- (i') header_generator._cpp_integer_type_for_range against the model, on every pair of type-boundary values
    from compiler.back_end.cpp import header_generator as _hg
    edges = sorted({s_ * (2 ** k) + d for k in (0, 7, 8, 15, 16, 31, 32, 62, 63, 64) for s_ in (1, -1) for d in (-2, -1, 0, 1, 2)} | {0})
    tcases = []
    for lo in edges:
        for hi in edges:
            if lo > hi:
                continue
            t = _hg._cpp_integer_type_for_range(lo, hi)
            exp = "None" if t is None else "(Some (%s, %s))" % ("false" if "uint" in t else "true", "32" if "32" in t else "64")
            tcases.append(("(%s, %s)" % (irx._z(lo), irx._z(hi)), exp, (lo, hi, t)))
    runner = fw.CoqCases(ctx, "cpptype", HEADER, "(fun p => cpp_type_for_range (fst p) (snd p))",
                         "(optb (fun a b => Bool.eqb (fst a) (fst b) && (snd a =? snd b)))", "(Z * Z)", "(option (bool * Z))", shard=2000)
    badt = runner.run(tcases)
    for a, b, obj in tcases:
        ctx.case(("t", obj[0], obj[1]), nontrivial=True)
    ctx.obligation("correspondence: _cpp_integer_type_for_range agrees with the model on %d boundary ranges" % len(tcases), not badt)
    for idx, out in badt[:4]:
        lo, hi, t = tcases[idx][2]
        # the property's clause: the chosen type must contain the whole range
        rng_of = {"::std::int32_t": (-2**31, 2**31 - 1), "::std::uint32_t": (0, 2**32 - 1), "::std::int64_t": (-2**63, 2**63 - 1),
                  "::std::uint64_t": (0, 2**64 - 1)}
        bad_type = t is not None and not (rng_of[t][0] <= lo and hi <= rng_of[t][1])
        ctx.violation("cpp-type-does-not-contain-range" if bad_type else "cpp-type-correspondence",
                      "_cpp_integer_type_for_range(%d, %d) = %s%s" % (lo, hi, t, " does not contain the range" if bad_type else " differs from the model"),
                      dict(kind="call", function="header_generator._cpp_integer_type_for_range", minimum=lo, maximum=hi, result=t,
                           model=out[:300]), found_input=bad_type)

    # --- (ii) expressions ------------------------------------------------------
    sources = []
    for p in sorted(glob.glob(os.path.join(fw.REPO, "testdata", "*.emb"))):
        rel = os.path.relpath(p, fw.REPO)
        sources.append(("corpus:" + rel, open(p).read(), rel))
    n_gen = 400 if ctx.thorough() else 60
    for i in range(n_gen):
        m = gen_expr.ExprModule(ctx.rng, n_virtual=ctx.rng.randint(4, 10), depth=ctx.rng.choice([2, 3, 3, 4]),
                                big=ctx.rng.random() < 0.4)
        sources.append(("gen:%d" % i, m.text(), "m.emb"))
    # gate-boundary modules: every operator applied to operands that need int64_t / uint64_t / fit both,
    # and to results just inside / outside the 64-bit ranges (one expression per module so that an
    # expected rejection of one does not hide the others)
    ops = ["%s < %s", "%s <= %s", "%s == %s", "%s != %s", "%s > %s", "%s >= %s", "%s + %s", "%s - %s", "%s * %s",
           "$max(%s, %s)", "(fl ? %s : %s)", "(%s < %s) && fl", "$max(%s, %s, 0)"]
    operands = ["s64", "u64", "s32", "u32", "u8", "9223372036854775807", "18446744073709551615", "(0-9223372036854775808)",
                "(u64 - 1)", "(s64 + 1)", "(u32 * u32)", "(s32 * s32)"]
    k = 0
    picks = [(o, a, b) for o in ops for a in operands for b in operands]
    ctx.rng.shuffle(picks)
    for (o, a, b) in picks[: (600 if ctx.thorough() else 120)]:
        txt = ('[$default byte_order: "LittleEndian"]\nstruct Gg:\n  0 [+8]  Int  s64\n  8 [+8]  UInt  u64\n  16 [+4]  Int  s32\n'
               '  20 [+4]  UInt  u32\n  24 [+1]  UInt  u8\n  25 [+1]  bits:\n    0 [+1]  Flag  fl\n  let v = %s\n' % (o % (a, b)))
        sources.append(("gate:%d" % k, txt, "m.emb"))
        k += 1
    ec = expression_cases(ctx, sources)
    runner = fw.CoqCases(ctx, "exprs", HEADER, "run_expr", "run_expr_eqb",
                         "(list (ikind * option Z) * expr)", "(list (option ares) * option value * bool)", shard=250)
    bad = runner.run(ec)
    for a, b, obj in ec:
        ctx.case(("e", a), nontrivial="(E" in obj["term"][1:] or obj["term"].count("(") > 1,
                 sample={"where": obj["label"] + ":" + obj["where"], "term": obj["term"][:300], "python": b[:300]})
    ctx.obligation("correspondence: %d expressions agree (annotations of all sub-expressions, constant_value, gate)" % len(ec), not bad)
    seen = 0
    for idx, out in bad:
        a, b, obj = ec[idx]
        # the model (proved sound) disagrees with the implementation: look for an environment
        cex = search_counterexample(ctx, obj["ir"], obj["e"])
        from compiler.front_end import constraints as _cs
        real_gate = _cs._integer_bounds_errors_for_expression(obj["e"], "m.emb") == []
        if real_gate and not spec_fits_one_type(obj["e"]):
            ctx.violation("gate-accepts-unrepresentable",
                          "the 64-bit gate accepts an expression whose operands and result fit no single 64-bit type at %s %s"
                          % (obj["label"], obj["where"]),
                          dict(kind="expression", module=obj["text"], where=obj["where"], term=obj["term"], python=b), found_input=True)
        elif cex:
            ctx.violation("bounds-unsound", "inferred bounds wrong at %s %s: %s" % (obj["label"], obj["where"], cex[1]),
                          dict(kind="expression", module=obj["text"], where=obj["where"], environment=cex[0],
                               message=cex[1], term=obj["term"], python=b), found_input=True)
        elif (near := neighbourhood_search(ctx, obj)) is not None:
            ctx.violation("bounds-unsound", "model and expression_bounds.py disagree at %s %s; a neighbouring expression has unsound bounds: %s"
                          % (obj["label"], obj["where"], near[3]),
                          dict(kind="expression", module=near[0], where=near[1], environment=near[2], message=near[3],
                               found_near=dict(module=obj["text"], where=obj["where"], term=obj["term"], python=b)), found_input=True)
        else:
            ctx.violation("bounds-correspondence", "model and expression_bounds.py disagree at %s %s" % (obj["label"], obj["where"]),
                          dict(kind="expression", correspondence="Bounds.Model.analyze vs expression_bounds.compute_constants",
                               module=obj["text"], where=obj["where"], term=obj["term"], python=b, model_outputs=out[:3000]),
                          found_input=False)
        seen += 1
        if seen >= 5:
            break

    # --- regression replay of finding F18 (zero-width integer leaf; repaired by fix 90ef553, theorem leaf_consistent) ---
    wit = '[$default byte_order: "LittleEndian"]\nstruct Foo:\n  0 [+0]  UInt  x\n  let y = x + 1\n'
    try:
        compile_for_bounds(wit)
    except AssertionError as ex:
        ctx.violation("bounds-assert:zero-width-leaf", "expression_bounds' own assertion fires on a zero-width integer field",
                      dict(kind="module", module=wit, exception=repr(ex)), found_input=True)

    # --- replay of the refutation witness of tight_choice_refuted (finding F7) ---
    wit7 = '[$default byte_order: "LittleEndian"]\nstruct Foo:\n  0 [+1]  UInt  a\n  let c = a >= 0 ? 10 : 20\n'
    try:
        ir7, errs7 = compile_for_bounds(wit7)
        e7 = [e for (e, where, attr) in irx.top_level_expressions(ir7) if where.endswith("/c") and e.which_expression == "function"
              and e.function.function.name == "CHOICE"]
        if e7:
            hi7 = int(e7[0].type.integer.maximum_value)
            attained = False
            for aval in range(256):
                pe = PyEval(ir7, ctx.rng)
                from compiler.util import ir_util as _iu
                for sub in all_subexpressions(e7[0]):
                    if sub.which_expression == "field_reference":
                        pe.env[_iu.hashable_form_of_field_reference(sub.field_reference)] = aval
                if pe.ev(e7[0]) == hi7:
                    attained = True
            if not attained:
                ctx.violation("bounds-not-tight:choice-tautology",
                              "inferred upper bound %d of 'a >= 0 ? 10 : 20' (a : UInt:8) is attained by none of the 256 values of a" % hi7,
                              dict(kind="module", module=wit7, inferred_maximum=hi7), found_input=True)
    except Exception as ex:
        ctx.note("F7 witness replay failed: %r" % (ex,))

    # --- (iii) direct soundness sampling of the implementation's annotations (support, not proof) ---
    n_env = 0
    for a, b, obj in ec[: (2000 if ctx.thorough() else 400)]:
        cex = search_counterexample(ctx, obj["ir"], obj["e"], tries=8)
        n_env += 8
        if cex:
            ctx.violation("bounds-unsound", "inferred bounds wrong at %s %s: %s" % (obj["label"], obj["where"], cex[1]),
                          dict(kind="expression", module=obj["text"], where=obj["where"], environment=cex[0], message=cex[1]),
                          found_input=True)
    ctx.extra["environments_sampled_against_python_annotations"] = n_env
